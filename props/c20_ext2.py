"""C20 extension units, second batch: the driver of the diffuse-layer iteration (surface_model), the parts of calc_all_donnan / calc_all_g that
the quadrature and charge-group units leave out, the SURFACE reader (read_surface and cxxSurface / cxxSurfaceComp / cxxSurfaceCharge RAW
readers: option -> member) and the checks of tidy_surface."""
from props.common import *
from vf.core import FAILED, DISCHARGED, UNDECIDED
from vf.astvc import symex as SX, hdr
from props.c16_ext import case_split, decide, norm_key, base_arr, same_real, loop_doing
from props.c20_ext_util import surface_enums, K, KR, KI

MODEL = "src/phreeqcpp/model.cpp"
INTEG = "src/phreeqcpp/integrate.cpp"
READ = "src/phreeqcpp/read.cpp"
TIDY = "src/phreeqcpp/tidy.cpp"
ENUMS = ["TRUE", "FALSE", "OK", "ERROR", "STOP", "REACTION", "SURFACE_CB", "HPLUS"]


def short(e):
    return e.name.split("::")[-1]


def evals():
    ev = A.enum_values_compiled("Phreeqc.h", ENUMS + ["cxxSurface::DDL", "cxxSurface::CCM", "cxxSurface::NO_DL", "cxxSurface::CD_MUSIC", "cxxSurface::NO_EDL", "cxxSurface::BORKOVEK_DL", "cxxSurface::DONNAN_DL",
                                                     "cxxSurface::HFO", "cxxSurface::UNKNOWN_DL", "cxxSurface::SITES_UNITS", "cxxSurface::SITES_DENSITY"] if False else ENUMS + [
        "cxxSurface::DDL", "cxxSurface::CCM", "cxxSurface::NO_DL", "cxxSurface::CD_MUSIC", "cxxSurface::NO_EDL", "cxxSurface::BORKOVEK_DL", "cxxSurface::DONNAN_DL"])
    return {k.split("::")[-1]: v for k, v in ev.items()}


SM_FUN = ("Get_surface_ptr", "Get_dl_type", "Get_related_phases", "Get_related_rate", "Get_new_def", "Get_mix_ptr", "Get_solution_ptr", "Get_mass_water", "Get_surface_charges",
          "Get_debye_lengths", "Get_mixComps", "Rxn_find")


def _sm_ctx(pure_all=True):
    c = stop_on_error_msg(ctx(functional=SM_FUN, enums_from="Phreeqc.h", enums=ENUMS, pure_all=pure_all))
    if not pure_all:
        # the solve changes the aqueous water mass (and nothing else this contract reads)
        c.pure = AllPure()
        def model_h(ex_, st, n, name, recv, args):
            k = ("f", "mass_water_aq_x", "R")
            st.heap[k] = tm.store(ex_.heap_arr(st, k), (THIS,), SX.fresh("water_after_model", "R"))
            e = SX.Event(name, recv, args, SX.fresh("ret_model", "I"), n)
            st.events.append(e)
            return [(st, e.result)]
        c.handlers["Phreeqc::model"] = model_h
    surface_enums(c)
    return c


def unit_surface_model(twin=False):
    """surface_model, the driver of the diffuse-layer (g-factor) iteration.  The first estimate and the convergence test belong to the same
    layer model: a Donnan layer starts from initial_surface_water + calc_init_donnan and is iterated with calc_all_donnan, every other explicit
    layer starts from calc_init_g and is iterated with calc_all_g.  The pass counter starts at 0 and advances by one per pass; a pass
    re-partitions the water (initial_surface_water, after the solve) exactly when the surface is not related to a phase or a kinetic reactant.
    The Donnan iteration goes on while calc_all_donnan reports a change of some g above tolerance OR the aqueous water mass moved by more than
    1e-6 relative during the last pass, and only below itmax.  For reaction steps the bulk water is the solution's (mix: sum of fraction times
    each solution's) plus the water held by every layer, and a layer given in Debye lengths gives its water back.  On the converged (OK) path the
    two debugging switches are as they were on entry."""
    q = "Phreeqc::surface_model"
    fn = A.find_function(MODEL, q)
    r = U.new_unit("C20.surface_model.first_estimate_and_convergence_test_of_the_same_layer_model_and_water_bookkeeping", MODEL, q, fn)
    loops = [x for x in A.walk(fn) if x.get("kind") in ("ForStmt", "WhileStmt", "DoStmt")]
    dos = [k for k, l in enumerate(loops) if l.get("kind") == "DoStmt"]
    if len(dos) != 2:
        raise Undecided("surface_model: expected the two do-while loops, found %d" % len(dos))
    ev = evals(); n = {}
    surf = tm.app("call:Get_surface_ptr", (tm.app("fld:use", (THIS,), "P"),), "P")
    donnan = tm.eq(tm.app("call:Get_dl_type", (surf,), "I"), tm.num(ev["DONNAN_DL"], "I"))
    blocks = [x for x in A.walk(fn) if x.get("kind") == "IfStmt" and len(x["inner"]) >= 2 and "mass_water_bulk_x" in text_of(MODEL, x["inner"][1])]
    blocks = [x for x in blocks if not any(y is not x and y in blocks for y in A.walk(x)) or True]
    outer_b = [x for x in blocks if not any(y is not x and any(z is x for z in A.walk(y)) for y in blocks)]
    if len(outer_b) != 1:
        raise Undecided("surface_model: the block that recomputes the bulk water was not found (%d)" % len(outer_b))
    wl = [k for k, l in enumerate(loops) if l.get("kind") == "ForStmt" and any(y is l for y in A.walk(outer_b[0]["inner"][1]))]
    if len(wl) != 2:
        raise Undecided("surface_model: expected the mix loop and the layer loop in the bulk-water block, found %d" % len(wl))
    f, ex, fin, info = U.run_function(MODEL, q, modes={k: "iter" for k in wl}, ctx=_sm_ctx())
    which = {}
    for o in dos:
        t = text_of(MODEL, loops[o])
        which[o] = "donnan" if "calc_all_donnan(" in t else ("g" if "calc_all_g(" in t else None)
    if sorted(which.values(), key=str) != ["donnan", "g"]:
        raise Undecided("surface_model: the loop iterated with calc_all_donnan and the one iterated with calc_all_g were not identified")
    # ---- the first estimate belongs to the model the loop iterates
    for o in dos:
        seen = set()
        for s in info["entry"].get(o, []):
            if B.z3_sat(list(s.pc)) == "unsat": continue
            names = [short(e) for e in s.events if short(e) in ("initial_surface_water", "calc_init_donnan", "calc_init_g", "prep", "set", "model")]
            k0 = norm_key(names)
            if k0 in seen: continue
            seen.add(k0)
            kind = which[o] if not twin else {"donnan": "g", "g": "donnan"}[which[o]]
            U.discharge_valid(r, "%s_loop.entered_only_for_%s#%d" % (which[o], "a_Donnan_layer" if kind == "donnan" else "another_layer_model", len(r.obligations)), list(s.pc), donnan if kind == "donnan" else tm.not_(donnan))
            if which[o] == "donnan":
                ok = "calc_init_g" not in names and names.count("calc_init_donnan") == 1 and "initial_surface_water" in names and names.index("initial_surface_water") < names.index("calc_init_donnan")
            else:
                ok = names.count("calc_init_g") == 1 and "calc_init_donnan" not in names
            ok = ok and "prep" in names and names.index("prep") < min(names.index(x) for x in names if x.startswith("calc_init")) and names[-1] == "model" and names[-2] == "set"
            r.add("%s_loop.first_estimate_%s_after_prep_then_set_and_model#%d" % (which[o], "initial_surface_water+calc_init_donnan" if which[o] == "donnan" else "calc_init_g", len(r.obligations)), DISCHARGED if ok else FAILED, "trace", 0, repr(names))
            gi = [v for k, ix, v in U.iter_writes(s) if k == ("f", "g_iterations", "I")]
            r.add("%s_loop.pass_counter_starts_at_0#%d" % (which[o], len(r.obligations)), DISCHARGED if gi and tm.isnum(gi[-1]) and gi[-1].args[0] == 0 else FAILED, "symex", 0, repr(gi)[:60], kind="establishment")
            n["entry." + which[o]] = 1
    # ---- OK path: debugging switches restored
    for s in live(fin, ("ret",)):
        if not (tm.isnum(s.ret) and s.ret.args[0] == ev["OK"]):
            continue
        ok = all(tm.select(ex.heap_arr(s, ("f", nm, "I")), THIS) is tm.select(tm.sym("H0.%s:I" % nm, ("A", "P", "I")), THIS) for nm in (("debug_model", "debug_diffuse_layer") if not twin else ("debug_model", "debug_prep")))
        if "ok" not in n or not ok:
            r.add("converged.debug_model_and_debug_diffuse_layer_as_on_entry#%d" % len(r.obligations), DISCHARGED if ok else FAILED, "symex", 0, "")
        n["ok"] = 1
    # ---- bulk water for reaction steps
    state = lambda s: tm.select(entry_arr(ex, s, ("f", "state", "I")), THIS)
    for o in wl:
        body_t = text_of(MODEL, loops[o]["inner"][-1])
        is_mix = "Rxn_find(" in body_t
        for s in info["entry"].get(o, [])[:4]:
            if B.z3_sat(list(s.pc)) == "unsat": continue
            U.discharge_valid(r, "bulk_water.recomputed_only_for_reaction_steps_with_an_explicit_layer#%d" % len(r.obligations), list(s.pc),
                              tm.and_(tm.le(tm.num(ev["REACTION"], "I"), state(s)), tm.not_(tm.eq(tm.select(entry_arr(ex, s, ("f", "dl_type_x", "I")), THIS), tm.num(ev["NO_DL"], "I")))))
            mw = tm.select(ex.heap_arr(s, ("f", "mass_water_bulk_x", "R")), THIS)
            if is_mix:
                r.add("bulk_water.mix:sum_starts_at_0#%d" % len(r.obligations), DISCHARGED if tm.isnum(mw) and mw.args[0] == 0 else FAILED, "symex", 0, repr(mw)[:80], kind="establishment"); n["mix0"] = 1
            else:
                mixp = tm.app("call:Get_mix_ptr", (tm.app("fld:use", (THIS,), "P"),), "P")
                if decide(s, tm.eq(mixp, tm.num(0, "P"))) is True:
                    want = tm.app("call:Get_mass_water", (tm.app("call:Get_solution_ptr", (tm.app("fld:use", (THIS,), "P"),), "P"),), "R")
                    r.add("bulk_water.no_mix:starts_from_the_solution's_water#%d" % len(r.obligations), DISCHARGED if same_real(mw, want) else FAILED, "symex", 0, repr(mw)[:80], kind="establishment"); n["sol0"] = 1
        seen = set()
        for s in live(info["iter"].get(o, []), ("run", "cont")):
            w = [(k[1], ix, v) for k, ix, v in U.iter_writes(s) if not (v.op == "sym" and v.args[0].startswith("iter_"))]
            evs = U.iter_events(s)
            k0 = norm_key([(a, c_) for a, b, c_ in w], [short(e) for e in evs if short(e).startswith("Set_")])
            if k0 in seen: continue
            seen.add(k0)
            mws = [(ix, v) for nm, ix, v in w if nm == "mass_water_bulk_x"]
            old = tm.select(base_arr(ex, s, ("f", "mass_water_bulk_x", "R")), THIS)
            if is_mix:
                rf = [e for e in evs if short(e) == "Rxn_find"]
                calls = [t for ix, v in mws for t in tm.subterms(v) if t.op == "app" and t.args[0] == "call:Get_mass_water"]
                node = tm.app("mnode", (tm.sym("iter_cit", "P"),), "P")
                frac = tm.select(entry_arr(ex, s, ("f", "second", "R")), node)
                okk = len(calls) == 1 and "Rxn_solution_map" in repr(calls[0]) and "first" in repr(calls[0]) and "iter_cit" in repr(calls[0])
                r.add("bulk_water.mix:solution_looked_up_by_the_number_of_this_mix_entry", DISCHARGED if okk else FAILED, "symex", 0, repr(calls)[:200])
                if okk and len(mws) == 1:
                    U.discharge_eq_real(r, "bulk_water.mix:+=water_of_that_solution*its_fraction", list(s.pc), mws[0][1], old + calls[0] * (frac if not twin else tm.num(1)))
                n["mix"] = 1
            else:
                i = tm.sym("iter_i", "I")
                ch = tm.add(tm.select(base_arr(ex, s, ("f", "#vdata", "P")), tm.app("call:Get_surface_charges", (surf,), "P")), i)
                if len(mws) != 1:
                    r.add("bulk_water.layers:sum_updated_once", FAILED, "symex", 0, repr(mws)[:100]); continue
                U.discharge_eq_real(r, "bulk_water.layers:+=water_held_by_layer_i#%d" % len(r.obligations), list(s.pc), mws[0][1], old + tm.app("call:Get_mass_water", (ch,), "R"))
                sets = [e for e in evs if short(e) == "Set_mass_water"]
                for hy, debye in cases(list(s.pc), tm.lt(tm.num(0), tm.app("call:Get_debye_lengths", (surf,), "R"))):
                    if debye:
                        ok = len(sets) == 1 and B.z3_prove(hy, tm.eq(sets[0].recv, ch))[0] == "proved" and tm.isnum(sets[0].args[0]) and sets[0].args[0].args[0] == 0
                        r.add("bulk_water.layers:thickness_in_Debye_lengths:layer_gives_its_water_back(0)", DISCHARGED if ok else FAILED, "symex", 0, repr(sets)[:100]); n["debye"] = 1
                    else:
                        r.add("bulk_water.layers:fixed_thickness:layer_water_kept", DISCHARGED if not sets else FAILED, "symex", 0, repr(sets)[:100]); n["thick"] = 1
    # ---- one pass of each iteration
    for o in dos:
        f2, ex2, its, info2 = U.run_loop_isolated(MODEL, q, o, ctx=_sm_ctx(pure_all=False))
        tag = which[o] + "_loop"
        seen = set(); condseen = False
        for s in live(its, ("run", "cont", "ret")):
            evs = U.iter_events(s)
            names = [short(e) for e in evs if short(e) in ("calc_all_donnan", "calc_all_g", "model", "initial_surface_water", "calc_init_g", "calc_init_donnan")]
            conv = [e for e in evs if short(e) in ("calc_all_donnan", "calc_all_g")]
            k0 = norm_key(names, s.status, [c_ for c_ in s.pc if "related" in repr(c_)])
            if k0 in seen: continue
            seen.add(k0)
            okc = len(conv) == 1 and short(conv[0]) == ("calc_all_donnan" if which[o] == "donnan" else "calc_all_g")
            r.add("%s.convergence_tested_once_per_pass_with_%s#%d" % (tag, "calc_all_donnan" if which[o] == "donnan" else "calc_all_g", len(r.obligations)), DISCHARGED if okc else FAILED, "trace", 0, repr(names))
            gi = [v for k, ix, v in U.iter_writes(s) if k == ("f", "g_iterations", "I")]
            gi0 = tm.select(entry_arr(ex2, s, ("f", "g_iterations", "I")), THIS)
            okg = len(gi) == 1 and B.z3_prove([], tm.eq(gi[0], tm.add(gi0, tm.num(1, "I"))))[0] == "proved"
            r.add("%s.pass_counter+1#%d" % (tag, len(r.obligations)), DISCHARGED if okg else FAILED, "symex", 0, repr(gi)[:80])
            if s.status != "ret":
                free = tm.and_(tm.not_(tm.to_bool(tm.app("call:Get_related_phases", (surf,), "B"))), tm.not_(tm.to_bool(tm.app("call:Get_related_rate", (surf,), "B"))))
                for hy, fr in cases(list(s.pc), free):
                    isw = [x for x in names if x == "initial_surface_water"]
                    if fr:
                        ok = len(isw) == 1 and "model" in names and names.index("initial_surface_water") > names.index("model")
                        r.add("%s.unrelated_surface:water_re-partitioned_after_the_solve#%d" % (tag, len(r.obligations)), DISCHARGED if ok else FAILED, "trace", 0, repr(names)); n[tag + ".free"] = 1
                    else:
                        r.add("%s.related_surface:layer_water_left_to_the_sorbent_update#%d" % (tag, len(r.obligations)), DISCHARGED if not isw else FAILED, "trace", 0, repr(names)); n[tag + ".rel"] = 1
            if which[o] == "donnan" and conv and not condseen:
                condseen = True
                cr = conv[0].result
                cnd = tm.and_(*[p for p in s.pc[:4] if repr(cr) in repr(p) or ("g_iterations" in repr(p) and "itmax" in repr(p))])
                prev_now = s.locals.get(info2["names"]["prev_aq_x"])
                mw0 = tm.select(base_arr(ex2, s, ("f", "mass_water_aq_x", "R")), THIS)
                r.add("donnan_loop.water_mass_remembered_at_the_start_of_the_pass", DISCHARGED if prev_now is mw0 else FAILED, "symex", 0, repr(prev_now)[:100])
                prev = tm.sym("iter_prev_aq_x", "R")
                d = tm.num(1) - prev / mw0
                absd = tm.ite(tm.lt(d, tm.num(0)), tm.neg(d), d)
                tol = tm.Q("1/1000000") if not twin else tm.Q("1/1000")
                spec = tm.and_(tm.or_(tm.eq(cr, tm.num(ev["FALSE"], "I")), tm.lt(tol, absd)), tm.lt(gi0, tm.select(entry_arr(ex2, s, ("f", "itmax", "I")), THIS)))
                U.discharge_valid(r, "donnan_loop.goes_on_iff(g_changed_or_water_mass_moved_by>1e-6)_and_below_itmax.=>", [cnd], spec)
                U.discharge_valid(r, "donnan_loop.goes_on_iff(g_changed_or_water_mass_moved_by>1e-6)_and_below_itmax.<=", [spec], cnd)
                n["cond"] = 1
    need = {"entry.donnan", "entry.g", "ok", "mix0", "sol0", "mix", "debye", "thick", "donnan_loop.free", "donnan_loop.rel", "g_loop.free", "g_loop.rel", "cond"}
    r.add("reach.cases", DISCHARGED if need <= set(n) else UNDECIDED, "symex", 0, "missing %r" % sorted(need - set(n)), kind="vacuity")
    r.head_exempt = {(q, o): "do-while iteration driven by the convergence test (stated by the *_loop obligations and by C03.surface_model.*)" for o in dos}
    r.assumptions += ["calc_all_g() / calc_all_donnan() return FALSE while some g factor still changes by more than the tolerance (their own units)", "accessors of cxxSurface / cxxSurfaceCharge / cxxUse are plain (functional); Rxn_find(map, n) returns the entry of number n",
                      "the order gammas, molalities, mb_sums, model inside a pass and the ERROR / itmax verdicts: unit C03.surface_model.*", "error paths (model() ERROR, itmax reached) leave the debugging switches as the last pass set them: not a concern of this property (see report)",
                      "do-while loops: the loop condition is the one assumed at the head of an arbitrary pass", "the rebuild of s_diff_layer (one g record per species and layer) is not under this contract", "doubles as reals"]
    return r


PA_FUN = ("Get_surface_ptr", "Get_mass_water", "Get_correct_D", "Get_only_counter_ions", "Get_specific_area", "Get_grams", "empty")


def _abs(t):
    return tm.ite(tm.lt(t, tm.num(0)), tm.neg(t), t)


def unit_calc_psi_avg(twin=False):
    """calc_psi_avg(record, sigma, ...): the Donnan potential p = F psi_D / R T at which the charge of the layer balances the surface charge,
        F(p) = sigma + sum over charge groups z of  eq_z * exp(-Z_z p) * (W_dl / W_aq) * (1 - f_free)  =  0
    (eq_z = equivalents of charge z in solution, Z_z = z, or the corrected charge of the group when the layer correction is on; z = 0 and -
    with -only_counter_ions - co-ions do not enter).  Every pass restarts the sum at sigma, every group adds its term to F and Z_z times it
    (negated) to the divisor, the step is F / (-divisor) limited to +-1, and the passes go on exactly while |step| > 1e-12 and p != 0; so the
    value returned has |F / F'| <= 1e-12 (or is 0).  Without surface charge or without layer water the potential is 0."""
    q = "Phreeqc::calc_psi_avg"
    fn = A.find_function(INTEG, q)
    r = U.new_unit("C20.calc_psi_avg.layer_charge_balances_the_surface_charge", INTEG, q, fn)
    loops = [x for x in A.walk(fn) if x.get("kind") in ("ForStmt", "WhileStmt", "DoStmt")]
    if len(loops) != 2 or loops[0].get("kind") != "DoStmt" or loops[1].get("kind") != "ForStmt":
        raise Undecided("calc_psi_avg: expected the pass loop (do-while) around the charge-group loop, found %r" % [l.get("kind") for l in loops])
    mk = lambda: stop_on_error_msg(ctx(functional=PA_FUN, enums_from="Phreeqc.h", enums=ENUMS))
    n = {}
    # ---- one charge group
    f, ex, its, info = U.run_loop_isolated(INTEG, q, 1, ctx=mk())
    N = info["names"]
    L = lambda s, nm: s.locals.get(N[nm])
    node = tm.app("mnode", (tm.sym("iter_it", "P"),), "P")
    seen = set()
    for s in live(its, ("run", "cont")):
        z = tm.select(entry_arr(ex, s, ("f", "first", "R")), node); eq = tm.select(entry_arr(ex, s, ("f", "second", "R")), node)
        sig = tm.sym("L_surf_chrg_eq", "R"); pp = tm.sym("L_p", "R"); ff = tm.sym("L_f_free", "R"); ra = tm.sym("L_ratio_aq", "R")
        fd0, fd10, zi0 = tm.sym("iter_fd", "R"), tm.sym("iter_fd1", "R"), tm.sym("iter_z_iter", "I")
        fd, fd1 = L(s, "fd"), L(s, "fd1")
        k0 = norm_key(fd, fd1, s.status, [c_ for c_ in s.pc][:0], sorted(repr(c_) for c_ in s.pc if "l_iter" in repr(c_) or "correct" in repr(c_) or "co_ion" in repr(c_) or "< 0" in repr(c_))[:6])
        if k0 in seen: continue
        seen.add(k0)
        oc = tm.to_bool(tm.app("call:Get_only_counter_ions", (tm.app("call:Get_surface_ptr", (tm.app("fld:use", (THIS,), "P"),), "P"),), "B"))
        oc_l = tm.to_bool(tm.sym("L_only_count", "B"))
        skip = tm.or_(tm.eq(z, tm.num(0)), tm.and_(oc_l, tm.lt(tm.num(0), sig * z)))
        zc = tm.select(base_arr(ex, s, ("f", "#vdata", "P")), tm.sym("L_zcorr_ref", "P"))
        slot_now = tm.select(ex.heap_arr(s, ("m", "R")), zc, zi0)
        slot_old = tm.select(base_arr(ex, s, ("m", "R")), zc, zi0)
        zi1 = L(s, "z_iter")
        r.add("group.position_in_the_correction_list_advances_by_one#%d" % len(r.obligations), DISCHARGED if B.z3_prove(list(s.pc), tm.eq(zi1, tm.add(zi0, tm.num(1, "I"))))[0] == "proved" else FAILED, "symex", 0, repr(zi1)[:60])
        def body(dec, hyps, s=s, z=z, eq=eq, fd=fd, fd1=fd1):
            if dec(skip):
                ok = fd is fd0 and fd1 is fd10
                r.add("group.neutral_or_excluded_co_ion:adds_nothing#%d" % len(r.obligations), DISCHARGED if ok else FAILED, "symex", 0, repr(fd)[:100]); n["skip"] = 1; return
            corr = dec(tm.and_(tm.not_(tm.eq(tm.sym("L_nDbl", "R"), tm.num(0))), tm.to_bool(tm.sym("L_local_correct_D", "B"))))
            if corr:
                counter = dec(tm.lt(sig * z, tm.num(0)))
                big = dec(tm.lt(tm.Q("3/2"), _abs(z)))
                fac = tm.sym("L_" + {(True, True): "z2", (True, False): "z1", (False, True): "z_2", (False, False): "z_1"}[(counter, big)], "R")
                Z1 = z * fac; tag = "corrected_%s_%s" % ("counter_ion" if counter else "co_ion", "|z|>1.5" if big else "|z|<=1.5")
                U.discharge_eq_real(r, "group.%s.effective_charge==z*factor_of_its_class#%d" % (tag, len(r.obligations)), hyps, slot_now, Z1)
                n["corr"] = 1
            else:
                first = dec(tm.eq(tm.sym("L_l_iter", "I"), tm.num(0, "I")))
                Z1 = z if first else slot_old
                tag = "first_pass" if first else "later_pass"
                U.discharge_eq_real(r, "group.%s.effective_charge==%s#%d" % (tag, "z" if first else "the_one_kept_from_the_first_pass", len(r.obligations)), hyps, slot_now, Z1)
                n[tag] = 1
            T = tm.app("exp", (tm.neg(Z1) * pp,), "R") * ra * (tm.num(1) - ff)
            if twin:
                T = tm.app("exp", (Z1 * pp,), "R") * ra * (tm.num(1) - ff)
            U.discharge_eq_real(r, "group.%s.F+=eq_z*exp(-Z*p)*(W_dl/W_aq)*(1-f_free)#%d" % (tag, len(r.obligations)), hyps, fd, fd0 + eq * T)
            U.discharge_eq_real(r, "group.%s.divisor-=Z*that_term#%d" % (tag, len(r.obligations)), hyps, fd1, fd10 - Z1 * eq * T)
        case_split(list(s.pc), body)
    early = live(its, ("brk", "ret", "throw"))
    r.add("group.no_charge_group_is_left_out_by_leaving_the_loop", DISCHARGED if not early else FAILED, "symex", 0, "%d" % len(early))
    # ---- one pass
    f, ex, its, info = U.run_loop_isolated(INTEG, q, 0, ctx=mk())
    N = info["names"]
    for s in info["inner_entries"].get(1, []):
        if B.z3_sat(list(s.pc)) == "unsat": continue
        ok = s.locals.get(N["fd"]) is tm.sym("L_surf_chrg_eq", "R") and tm.isnum(s.locals.get(N["fd1"])) and s.locals.get(N["fd1"]).args[0] == 0 and tm.isnum(s.locals.get(N["z_iter"])) and s.locals.get(N["z_iter"]).args[0] == 0
        if "pass0" not in n or not ok:
            r.add("pass.F_restarts_at_sigma_divisor_at_0_and_list_position_at_0#%d" % len(r.obligations), DISCHARGED if ok else FAILED, "symex", 0, repr(s.locals.get(N["fd"]))[:60], kind="establishment")
        n["pass0"] = 1
    seen = set()
    for s in live(its, ("run", "cont")):
        hv = sorted({t for t in tm.subterms(s.locals.get(N["fd"])) if t.op == "sym" and t.args[0].startswith("havoc_")}, key=repr)
        F_ = [t for t in hv if "havoc_fd!" in repr(t)]; D_ = [t for t in hv if "havoc_fd1!" in repr(t)]
        if len(F_) != 1 or len(D_) != 1:
            r.add("pass.step_is_formed_from_the_sums_of_the_group_loop", FAILED, "symex", 0, repr(hv)[:100]); continue
        step = F_[0] / tm.neg(D_[0])
        k0 = norm_key(s.locals.get(N["p"]), len(s.pc))
        if k0 in seen: continue
        seen.add(k0)
        U.discharge_eq_real(r, "pass.step==F/(-divisor)#%d" % len(r.obligations), list(s.pc), s.locals.get(N["fd"]), step)
        lim = tm.ite(tm.lt(tm.num(1), step), tm.num(1), tm.ite(tm.lt(step, tm.num(-1)), tm.num(-1), step))
        pnew = tm.sym("iter_p", "R") + lim
        gtol = tm.select(ex.heap_arr(s, ("f", "G_TOL", "R")), THIS)
        want = tm.ite(tm.lt(_abs(pnew), gtol), tm.num(0), pnew if not twin else tm.sym("iter_p", "R") - lim)
        U.discharge_valid(r, "pass.p+=step_limited_to+-1(0_below_G_TOL)#%d" % len(r.obligations), list(s.pc), tm.eq(s.locals.get(N["p"]), want))
        # the condition under which another pass is made (assumed at the head of this pass, on the previous step)
        cnd = tm.and_(*[c_ for c_ in s.pc[:2]])
        spec = tm.and_(tm.lt(tm.Q("1/1000000000000"), _abs(tm.sym("iter_fd", "R"))), tm.not_(tm.eq(tm.sym("iter_p", "R"), tm.num(0))))
        if "cond" not in n:
            ok = B.z3_prove([cnd], spec)[0] == "proved" and B.z3_prove([spec], cnd)[0] == "proved"
            r.add("pass.another_pass_iff|step|>1e-12_and_p!=0(so_the_result_has|F/F'|<=1e-12_or_is_0)", DISCHARGED if ok else FAILED, "z3", 0, repr(cnd)[:200])
        n["cond"] = 1; n["step"] = 1
    # ---- the function: early answers and the value returned
    f, ex, fin, info = U.run_function(INTEG, q, ctx=mk())
    ps = A.params_of(f)
    ch = tm.sym("P0_%s" % ps[0]["name"], "P"); sig = tm.sym("P1_%s" % ps[1]["name"], "R")
    ratio = tm.app("call:Get_mass_water", (ch,), "R") / tm.select(tm.sym("H0.mass_water_aq_x:R", ("A", "P", "R")), THIS)
    for s in live(fin, ("ret",)):
        for hy, none in cases(list(s.pc), tm.or_(tm.eq(sig, tm.num(0)), tm.eq(ratio, tm.num(0)))):
            if none:
                r.add("result.no_surface_charge_or_no_layer_water:0#%d" % len(r.obligations), DISCHARGED if tm.isnum(s.ret) and s.ret.args[0] == 0 else FAILED, "symex", 0, repr(s.ret)[:60]); n["zero"] = 1
            else:
                okp = s.ret is not None and s.ret.op == "sym" and "havoc_p" in repr(s.ret)
                if "ret" not in n or not okp:
                    r.add("result.otherwise_the_potential_the_passes_ended_with#%d" % len(r.obligations), DISCHARGED if okp else FAILED, "symex", 0, repr(s.ret)[:60])
                n["ret"] = 1
    for s in info["entry"].get(0, [])[:1]:
        ra = s.locals.get(info["names"]["ratio_aq"])
        r.add("result.W_dl/W_aq_is_layer_water_of_this_record_over_the_aqueous_water", DISCHARGED if ra is not None and same_real(ra, ratio) else FAILED, "symex", 0, repr(ra)[:120]); n["ratio"] = 1
    need = {"skip", "corr", "first_pass", "later_pass", "pass0", "cond", "step", "zero", "ret", "ratio"}
    r.add("reach.cases", DISCHARGED if need <= set(n) else UNDECIDED, "symex", 0, "missing %r" % sorted(need - set(n)), kind="vacuity")
    r.head_exempt = {(q, 0): "Newton passes (do-while): the continuation condition is stated by pass.another_pass_iff...", (q, 1): "iterator over charge_group_map"}
    r.assumptions += ["charge_group_map holds, per charge z, the equivalents of that charge in solution (unit C20.donnan.charge_group_equivalents_include_enrichment)", "std::map iteration visits every charge group once",
                      "the starting guess of p and the values of the empirical correction factors z1, z2, z_1, z_2 (-correct_D) are not under this contract; locals are read by name",
                      "the exactness of the divisor as dF/dp is not demanded (it does not change the root)", "doubles as reals; exp uninterpreted", "more than 50 passes: error STOP (not a completed calculation)"]
    return r


def unit_calc_all_donnan(twin=False):
    """calc_all_donnan, per SURFACE_CB unknown j (charge record ch = Find_charge(x[j]->surface_charge)) and per charge group z.
    Record level: the surface charge that the layer has to balance is the Gouy-Chapman expression sigma = A f_sinh sinh(F psi / 2RT) / F of the
    record's own potential unknown (CD-MUSIC: plane 2, x[j+2], halved exponent; otherwise x[j]), A = specific area * grams of the record and
    f_sinh = sqrt(8000 eps eps0 R T mu); the Donnan potential is calc_psi_avg(ch, sigma, ...) and W = W_dl(ch) / W_aq (times 1 - f_free with
    the -correct_D option).  Group level: g(z) = W (exp(c z' psi_D) - 1) with c = +1 for CD-MUSIC and -1 otherwise (z' = z, or the corrected
    charge of the group with -correct_D), co-ions are excluded completely (g = -W) with -only_counter_ions, g never goes below -W (floor
    -W + G_TOL/1000), a record without layer water gets g = 0; g is stored under z in THIS record's g map, and the function may keep
    reporting `converged` only if it did so before and this g moved by no more than the tolerance (relative when |g| >= 1)."""
    from props.c20_ext_integ import _ctx as _ictx, _loops_with
    q = "Phreeqc::calc_all_donnan"
    fn = A.find_function(INTEG, q)
    r = U.new_unit("C20.calc_all_donnan.g_of_each_charge_group_from_the_Donnan_potential_of_its_own_record", INTEG, q, fn)
    ks = _loops_with(fn, INTEG, "Set_g")
    if len(ks) != 2:
        raise Undecided("calc_all_donnan: expected the record loop and the charge-group loop around Set_g, found %r" % ks)
    outer, inner = ks
    mk = lambda: _ictx(extra={"calc_psi_avg", "Get_correct_D", "Get_z_gMCD_map"})
    n = {}
    # ---- one charge group (locals of the record level arbitrary)
    c = mk(); evs_ = surface_enums(c)
    f, ex, its, info = U.run_loop_isolated(INTEG, q, inner, ctx=c)
    N = info["names"]
    sy = lambda nm, so="R": tm.sym("L_" + nm, so)
    ra, psi, sig, ff = sy("ratio_aq"), sy("psi_avg"), sy("surf_chrg_eq"), sy("f_free")
    cdm = tm.to_real(sy("cd_m", "I"))
    oc, cD = tm.to_bool(sy("only_count", "B")), tm.to_bool(sy("correct_D", "B"))
    ch = sy("charge_ptr", "P")
    node = tm.app("mnode", (tm.sym("iter_it", "P"),), "P")
    seen = set()
    for s in live(its, ("run", "cont")):
        z = tm.select(entry_arr(ex, s, ("f", "first", "R")), node)
        gmap = tm.app("call:Get_g_map", (ch,), "P")
        slot = ex.ctx.stl.mobj(gmap, ex.ctx.stl.mkey(ex, z))
        wg = [(ix[0], v) for k, ix, v in U.iter_writes(s) if k == ("f", "g", "R")]
        conv1 = s.locals.get(N["converge"])
        k0 = norm_key(wg, conv1, s.status, len(s.pc))
        if k0 in seen: continue
        seen.add(k0)
        if len(wg) != 1 or wg[0][0] is not slot:
            r.add("group.g_stored_once_under_its_charge_in_this_record's_g_map#%d" % len(r.obligations), FAILED, "symex", 0, repr(wg)[:200]); continue
        gv = wg[0][1]
        gold = tm.select(entry_arr(ex, s, ("f", "g", "R")), slot)
        zc = tm.select(entry_arr(ex, s, ("m", "R")), tm.select(entry_arr(ex, s, ("f", "#vdata", "P")), tm.sym("&L_zcorr", "P")), tm.sym("iter_z_iter", "I"))
        gtol = tm.select(entry_arr(ex, s, ("f", "G_TOL", "R")), THIS)
        tol = tm.select(entry_arr(ex, s, ("f", "convergence_tolerance", "R")), THIS)
        conv0 = tm.to_bool(tm.sym("iter_converge", "B"))
        def body(dec, hyps, s=s, z=z, gv=gv, gold=gold, zc=zc, conv1=conv1):
            if dec(tm.eq(ra, tm.num(0))):
                U.discharge_eq_real(r, "group.no_layer_water:g==0#%d" % len(r.obligations), hyps, gv, tm.num(0)); n["nowater"] = 1
                return          # no g to converge; the verdict of this path is not constrained (see assumptions)
            else:
                z1 = zc if dec(cD) else z
                boltz = ra * (tm.app("exp", (cdm * z1 * psi,), "R") - tm.num(1))
                if twin:
                    boltz = ra * (tm.app("exp", (cdm * z1 * psi,), "R"))
                excl = dec(tm.and_(oc, tm.lt(tm.num(0), sig * z)))
                cand = tm.neg(ra) if excl else boltz
                floor_ = dec(tm.le(cand, tm.neg(ra)))
                new_g = (tm.neg(ra) + gtol * tm.Q("1/1000")) if floor_ else cand
                tag = ("co_ion_excluded" if excl else ("at_the_floor" if floor_ else "boltzmann")) + ("_corrected_charge" if z1 is zc else "")
                U.discharge_eq_real(r, "group.%s:g==%s#%d" % (tag, "-W+G_TOL/1000" if floor_ else "W*(exp(c*z*psi_D)-1)", len(r.obligations)), hyps, gv, new_g)
                n[tag.split("_corrected")[0]] = 1
                if z1 is zc: n["corrected"] = 1
            # the verdict
            d = new_g - gold
            change = tm.ite(tm.le(tm.num(1), _abs(new_g)), _abs(d / new_g), _abs(d))
            within = tm.not_(tm.lt(tol, change))
            c1 = tm.to_bool(conv1)
            U.discharge_valid(r, "group.%s:still_converged_only_if_converged_before_and_g_moved_within_tolerance#%d" % (tag, len(r.obligations)), hyps, tm.implies(c1, tm.and_(conv0, within)))
            U.discharge_valid(r, "group.%s:a_move_within_tolerance_does_not_clear_the_verdict#%d" % (tag, len(r.obligations)), hyps, tm.implies(tm.and_(conv0, within), c1))
        case_split(list(s.pc), body)
    early = live(its, ("brk", "ret", "throw"))
    r.add("group.no_charge_group_is_left_out_by_leaving_the_loop", DISCHARGED if not early else FAILED, "symex", 0, "%d" % len(early))
    # ---- the record level: what the group loop is entered with
    c = mk(); evs_ = surface_enums(c)
    f, ex, its2, info2 = U.run_loop_isolated(INTEG, q, outer, ctx=c)
    N2 = info2["names"]
    FC = KR("F_C_MOL")
    seen = set()
    for s in info2["inner_entries"].get(inner, []):
        loc_ = lambda nm: s.locals.get(N2[nm])
        k0 = norm_key([loc_(nm) for nm in ("ratio_aq", "cd_m", "psi_avg", "surf_chrg_eq", "charge_ptr")])
        if k0 in seen or B.z3_sat(list(s.pc)) == "unsat": continue
        seen.add(k0)
        j = tm.sym("iter_j", "I")
        xs = tm.select(entry_arr(ex, s, ("f", "#vdata", "P")), tm.app("fld:x", (THIS,), "P"))
        xj = tm.select(entry_arr(ex, s, ("m", "P")), xs, j); xj2 = tm.select(entry_arr(ex, s, ("m", "P")), xs, tm.add(j, tm.num(2, "I")))
        chp = loc_("charge_ptr")
        fcs = [t for t in tm.subterms(chp) if t.op == "app" and t.args[0] == "call:Find_charge"] if chp is not None else []
        okc = len(fcs) >= 1 and chp is fcs[0] and repr(tm.select(entry_arr(ex, s, ("f", "surface_charge", "P")), xj)) in repr(chp)
        r.add("record.charge_record==Find_charge(x[j]->surface_charge)#%d" % len(r.obligations), DISCHARGED if okc else FAILED, "symex", 0, repr(chp)[:160])
        def la_of(xe):
            m0 = tm.select(entry_arr(ex, s, ("m", "P")), tm.select(entry_arr(ex, s, ("f", "#vdata", "P")), tm.app("fld:master", (xe,), "P")), tm.num(0, "I"))
            return tm.select(entry_arr(ex, s, ("f", "la", "R")), tm.select(entry_arr(ex, s, ("f", "s", "P")), m0))
        ln10 = tm.select(entry_arr(ex, s, ("f", "LOG_10", "R")), THIS)
        surfp = tm.sym("L_surf_ptr", "P")
        cd = tm.eq(tm.app("call:Get_type", (surfp,), "I"), tm.num(evs_["CD_MUSIC"], "I"))
        A_ = tm.select(entry_arr(ex, s, ("f", "specific_area", "R")), chp) * tm.select(entry_arr(ex, s, ("f", "grams", "R")), chp)
        fs = tm.sym("L_f_sinh", "R")
        def body(dec, hyps, s=s, chp=chp):
            iscd = dec(cd)
            want_cdm = 1 if iscd else -1
            if twin: want_cdm = -want_cdm
            cm = loc_("cd_m")
            r.add("record.%s:sign_of_the_exponent_c==%+d#%d" % ("CD_MUSIC" if iscd else "other_models", want_cdm, len(r.obligations)), DISCHARGED if tm.isnum(cm) and cm.args[0] == want_cdm else FAILED, "symex", 0, repr(cm)); n["cd" if iscd else "notcd"] = 1
            fpsi = la_of(xj2) * ln10 / tm.num(2) if iscd else la_of(xj) * ln10
            sig0 = A_ * fs * tm.app("sinh", (fpsi,), "R") / FC
            clamp = dec(tm.lt(tm.num(5000), _abs(sig0)))
            if not clamp:
                U.discharge_eq_real(r, "record.%s:sigma==A*f_sinh*sinh(F*psi/2RT)/F_of_its_own_potential_unknown#%d" % ("CD_MUSIC" if iscd else "other_models", len(r.obligations)), hyps, loc_("surf_chrg_eq"), sig0); n["sigma"] = 1
            else:
                n["clamp"] = 1
            W = tm.select(entry_arr(ex, s, ("f", "mass_water", "R")), chp) / tm.select(entry_arr(ex, s, ("f", "mass_water_aq_x", "R")), THIS)
            corr = dec(tm.to_bool(tm.sym("L_correct_D", "B")))
            U.discharge_eq_real(r, "record.W==W_dl(record)/W_aq%s#%d" % ("*(1-f_free)" if corr else "", len(r.obligations)), hyps, loc_("ratio_aq"), W * (tm.num(1) - tm.sym("L_f_free", "R")) if corr else W)
            pa = loc_("psi_avg")
            okp = pa is not None and pa.op == "app" and pa.args[0] == "call:calc_psi_avg" and pa.args[2] is chp and pa.args[3] is loc_("surf_chrg_eq")
            r.add("record.psi_D==calc_psi_avg(this_record,sigma,...)#%d" % len(r.obligations), DISCHARGED if okp else FAILED, "symex", 0, repr(pa)[:120]); n["psi"] = 1
        case_split(list(s.pc), body)
    # f_sinh and the return value: whole function
    c = mk()
    f, ex, fin, info3 = U.run_function(INTEG, q, ctx=c)
    R_, E0 = KR("R_KJ_DEG_MOL"), KR("EPSILON_ZERO")
    for s in info3["entry"].get(outer, [])[:1]:
        eps, tk, mu = (tm.select(tm.sym("H0.%s:R" % nm, ("A", "P", "R")), THIS) for nm in ("eps_r", "tk_x", "mu_x"))
        want = tm.app("sqrt", (tm.num(8000) * eps * E0 * (R_ * tm.num(1000)) * tk * (mu if not twin else tm.num(1)),), "R")
        got = s.locals.get(info3["names"]["f_sinh"])
        r.add("record.f_sinh==sqrt(8000*eps_r*eps0*R*T*mu)", DISCHARGED if got is not None and same_real(got, want) else FAILED, "symex", 0, repr(got)[:160]); n["fsinh"] = 1
        cv = s.locals.get(info3["names"]["converge"])
        r.add("verdict.starts_as_converged", DISCHARGED if cv is tm.TRUE or (tm.isnum(cv) and cv.args[0] == 1) else FAILED, "symex", 0, repr(cv), kind="establishment")
    rets = [s for s in live(fin, ("ret",)) if any(short(e) == "loop_havoc" or True for e in s.events)]
    okr = [s for s in rets if s.ret is not None and "havoc_converge" in repr(s.ret)]
    r.add("verdict.returned_is_the_one_the_loops_ended_with", DISCHARGED if okr else FAILED, "symex", 0, repr([x.ret for x in rets])[:200]); n["ret"] = 1
    need = {"nowater", "boltzmann", "co_ion_excluded", "at_the_floor", "corrected", "cd", "notcd", "sigma", "clamp", "psi", "fsinh", "ret"}
    r.add("reach.cases", DISCHARGED if need <= set(n) else UNDECIDED, "symex", 0, "missing %r" % sorted(need - set(n)), kind="vacuity")
    r.assumptions += ["calc_psi_avg returns the potential at which the layer charge balances sigma (unit C20.calc_psi_avg.*)",
                      "a record without layer water sets the verdict to `converged` whatever it was (it can mask an earlier record's `not converged`); not constrained here: no observable effect was found, reset() recomputes g after every Newton step (native probe: demo/donnan.cpp)", "Find_charge deterministic; accessors of cxxSurfaceCharge / cxxSurfDL executed from their real inline definitions; std::map model",
                      "the clamp of |sigma| at 5000 eq (potential recomputed from the clamped charge), the derivative entry dg, f_free / nDbl of -correct_D and the transport factor z_gMCD are not under this contract",
                      "locals of the record level are read by name (ratio_aq, psi_avg, surf_chrg_eq, cd_m, f_free, only_count, correct_D, charge_ptr, zcorr, converge, f_sinh)", "doubles as reals; exp / sinh / sqrt uninterpreted"]
    return r


def unit_calc_all_g(twin=False):
    """calc_all_g (Borkovec-Westall integration), the parts around the quadrature ladder.  Record level (SURFACE_CB unknown j): the charge record is
    Find_charge(x[j]->surface_charge), X = exp(-2 ln10 la) with la the log activity of the record's own potential master species,
    alpha = sqrt(eps_r eps0 R T / 2) (with the two factors 1000), the entry for charge 0 is the zero record.  Species level: only aqueous
    species (type <= HPLUS) get an excess factor, each distinct charge once per record; the integration is carried out exactly when the record has
    surface (grams > 0) and - with -only_counter_ions - the species is a counter-ion (potential and charge of opposite sign), otherwise
    g = 0; with -only_counter_ions a negative excess is 0; g is stored under the species' charge in THIS record's g map (dg under the same
    charge), the charge is remembered as done, and `converged` survives only if it held before and g moved within the tolerance (relative
    when |g| >= 1)."""
    from props.c20_ext_integ import _ctx as _ictx, _loops_with
    q = "Phreeqc::calc_all_g"
    fn = A.find_function(INTEG, q)
    r = U.new_unit("C20.calc_all_g.each_distinct_aqueous_charge_gets_the_integrated_excess_once_in_its_own_record", INTEG, q, fn)
    ks = _loops_with(fn, INTEG, "Set_g")
    if len(ks) < 2:
        raise Undecided("calc_all_g: expected the record loop and the species loop around Set_g, found %r" % ks)
    outer, inner = ks[0], ks[1]
    mk = lambda: _ictx(extra={"qromb_midpnt", "g_function"})
    n = {}
    HPLUS = KI("HPLUS")
    c = mk()
    f, ex, its, info = U.run_loop_isolated(INTEG, q, inner, ctx=c)
    N = info["names"]
    ch = tm.sym("L_charge_ptr", "P")
    xj = tm.select(tm.sym("H0.mem:P", ("A", "P", "I", "P")), tm.select(tm.sym("H0.#vdata:P", ("A", "P", "P")), tm.app("fld:x", (THIS,), "P")), tm.sym("L_j", "I"))
    seen = set()
    for s in live(its, ("run", "cont")):
        sp = vec_elem(ex, s, "s_x", tm.sym("iter_i", "I"))
        ty, z = fld0(ex, s, "type", "I", sp), fld0(ex, s, "z", "R", sp)
        gmap = tm.app("call:Get_g_map", (ch,), "P")
        key = ex.ctx.stl.mkey(ex, z)
        slot = ex.ctx.stl.mobj(gmap, key)
        tmap = tm.sym("&L_temp_g_map", "P")
        done = tm.select(entry_arr(ex, s, ("m2", "#mhas", "B", key.sort)), tmap, key)
        wg = [(ix[0], v) for k, ix, v in U.iter_writes(s) if k == ("f", "g", "R")]
        wd = [(ix[0], v) for k, ix, v in U.iter_writes(s) if k == ("f", "dg", "R")]
        conv1 = s.locals.get(N["converge"])
        k0 = norm_key(wg, conv1, s.status, [c_ for c_ in s.pc if "debug" not in repr(c_) and "g_function" not in repr(c_) and "xd_global:R, (this,)) - 1" not in repr(c_)])
        if k0 in seen: continue
        seen.add(k0)
        evs_all = U.iter_events(s)
        first_map = next((i_ for i_, e in enumerate(evs_all) if e.name == "map.operator[]"), len(evs_all))
        qs = [e for e in evs_all[:first_map] if short(e) == "qromb_midpnt"]       # the integrals that make up g (a later one only serves dg)
        m0 = tm.select(entry_arr(ex, s, ("m", "P")), tm.select(entry_arr(ex, s, ("f", "#vdata", "P")), tm.app("fld:master", (xj,), "P")), tm.num(0, "I"))
        la = fld0(ex, s, "la", "R", fld0(ex, s, "s", "P", m0))
        grams = fld0(ex, s, "grams", "R", ch)
        oc = tm.to_bool(tm.app("call:Get_only_counter_ions", (tm.app("call:Get_surface_ptr", (tm.app("fld:use", (THIS,), "P"),), "P"),), "B"))
        counter = tm.or_(tm.and_(tm.lt(tm.num(0), la), tm.lt(z, tm.num(0))), tm.and_(tm.lt(la, tm.num(0)), tm.lt(tm.num(0), z)))
        integ = tm.and_(tm.lt(tm.num(0), grams), tm.or_(tm.not_(oc), counter if not twin else tm.not_(counter)))
        tol = tm.sym("L_epsilon", "R")
        conv0 = tm.sym("iter_converge", "I")
        TRUE_ = tm.num(1, "I")
        if len(qs) > 1:
            # higher rungs of the ladder: same statements as the first rung; only the value is decided here (cheaply)
            total = qs[0].result
            for e in qs[1:]:
                total = total + e.result
            okv = len(wg) == 1 and wg[0][0] is slot and all(e.args[0] is ch for e in qs)
            if okv and tm.isnum(wg[0][1]) and wg[0][1].args[0] == 0:
                okv = B.z3_prove(list(s.pc), tm.and_(oc, tm.lt(total, tm.num(0))))[0] == "proved"
            elif okv:
                okv = same_real(wg[0][1], total)
            r.add("species.integrated(%d_segments):g==sum_of_the_segment_integrals(0_when_clipped)#%d" % (len(qs), len(r.obligations)), DISCHARGED if okv else FAILED, "symex", 0, repr(wg)[:160]); n["rungs"] = 1
            continue
        def body(dec, hyps, s=s, z=z, wg=wg, wd=wd, qs=qs, conv1=conv1):
            if not dec(tm.le(ty, HPLUS)):
                r.add("species.not_aqueous:no_excess_factor#%d" % len(r.obligations), DISCHARGED if not wg and not qs and conv1 is conv0 else FAILED, "symex", 0, repr(wg)[:100]); n["other"] = 1; return
            if dec(done):
                r.add("species.charge_already_done_for_this_record:kept#%d" % len(r.obligations), DISCHARGED if not wg and not qs and conv1 is conv0 else FAILED, "symex", 0, repr(wg)[:100]); n["done"] = 1; return
            if len(wg) != 1 or wg[0][0] is not slot:
                r.add("species.g_stored_once_under_the_species'_charge_in_this_record's_g_map#%d" % len(r.obligations), FAILED, "symex", 0, repr(wg)[:200]); return
            gv = wg[0][1]
            r.add("species.dg_stored_under_the_same_charge#%d" % len(r.obligations), DISCHARGED if wd and all(ix is slot for ix, v in wd) else FAILED, "symex", 0, repr([ix for ix, v in wd])[:120])
            zg = [v for k, ix, v in U.iter_writes(s) if k == ("f", "z_global", "R")]
            r.add("species.integrand_charge(z_global)_is_the_species'_charge#%d" % len(r.obligations), DISCHARGED if zg and zg[-1] is z else FAILED, "symex", 0, repr(zg)[:80])
            does = dec(integ)
            if does:
                if not qs:
                    r.add("species.integration_carried_out#%d" % len(r.obligations), FAILED, "symex", 0, ""); return
                ok_args = all(e.args[0] is ch for e in qs)
                total = qs[0].result
                for e in qs[1:]:
                    total = total + e.result
                clip = dec(tm.and_(oc, tm.lt(total, tm.num(0))))
                want = tm.num(0) if clip else total
                tag = "integrated" + (".negative_excess_clipped" if clip else "")
                r.add("species.%s:integrals_are_over_this_record#%d" % (tag, len(r.obligations)), DISCHARGED if ok_args else FAILED, "symex", 0, "")
                U.discharge_eq_real(r, "species.%s:g==%s#%d" % (tag, "0" if clip else "sum_of_the_segment_integrals", len(r.obligations)), hyps, gv, want)
                n["clip" if clip else "integ"] = 1
            else:
                want = tm.num(0); tag = "not_integrated(no_surface_or_co_ion)"
                r.add("species.%s:no_integral_and_g==0#%d" % (tag, len(r.obligations)), DISCHARGED if not qs and tm.isnum(gv) and gv.args[0] == 0 else FAILED, "symex", 0, repr(gv)[:80]); n["zero"] = 1
            gold = tm.select(entry_arr(ex, s, ("f", "g", "R")), slot)
            d = want - gold
            change = tm.ite(tm.le(tm.num(1), _abs(want)), _abs(d / want), _abs(d))
            within = tm.not_(tm.lt(tol, change))
            c1 = tm.eq(conv1, TRUE_); c0 = tm.eq(conv0, TRUE_)
            U.discharge_valid(r, "species.%s:still_converged_only_if_converged_before_and_g_moved_within_tolerance#%d" % (tag, len(r.obligations)), hyps, tm.implies(c1, tm.and_(c0, within)))
            U.discharge_valid(r, "species.%s:a_move_within_tolerance_does_not_clear_the_verdict#%d" % (tag, len(r.obligations)), hyps, tm.implies(tm.and_(c0, within), c1))
            tm_w = [1 for k, ix, v in U.iter_writes(s) if k[1] == "#mhas" and ix[0] is tmap and v is tm.TRUE]
            r.add("species.%s:charge_remembered_as_done#%d" % (tag, len(r.obligations)), DISCHARGED if tm_w else FAILED, "symex", 0, "")
        case_split(list(s.pc), body)
    early = live(its, ("brk", "ret", "throw"))
    r.add("species.no_species_is_left_out_by_leaving_the_loop", DISCHARGED if not early else FAILED, "symex", 0, "%d" % len(early))
    # ---- record level
    c = mk()
    f, ex, its2, info2 = U.run_loop_isolated(INTEG, q, outer, ctx=c)
    N2 = info2["names"]
    R_, E0 = KR("R_KJ_DEG_MOL"), KR("EPSILON_ZERO")
    seen = set()
    for s in info2["inner_entries"].get(inner, []):
        if B.z3_sat(list(s.pc)) == "unsat": continue
        k0 = norm_key([v for k, ix, v in U.iter_writes(s) if k[1] in ("xd_global", "alpha_global")])
        if k0 in seen: continue
        seen.add(k0)
        j = tm.sym("iter_j", "I")
        xs = tm.select(entry_arr(ex, s, ("f", "#vdata", "P")), tm.app("fld:x", (THIS,), "P"))
        xj_ = tm.select(entry_arr(ex, s, ("m", "P")), xs, j)
        chp = s.locals.get(N2["charge_ptr"])
        okc = chp is not None and chp.op == "app" and chp.args[0] == "call:Find_charge" and repr(tm.select(entry_arr(ex, s, ("f", "surface_charge", "P")), xj_)) in repr(chp)
        r.add("record.charge_record==Find_charge(x[j]->surface_charge)", DISCHARGED if okc else FAILED, "symex", 0, repr(chp)[:160])
        m0 = tm.select(entry_arr(ex, s, ("m", "P")), tm.select(entry_arr(ex, s, ("f", "#vdata", "P")), tm.app("fld:master", (xj_,), "P")), tm.num(0, "I"))
        la = tm.select(entry_arr(ex, s, ("f", "la", "R")), tm.select(entry_arr(ex, s, ("f", "s", "P")), m0))
        ln10, eps, tk = (tm.select(entry_arr(ex, s, ("f", nm, "R")), THIS) for nm in ("LOG_10", "eps_r", "tk_x"))
        xd = [v for k, ix, v in U.iter_writes(s) if k == ("f", "xd_global", "R")]
        al = [v for k, ix, v in U.iter_writes(s) if k == ("f", "alpha_global", "R")]
        U.discharge_eq_real(r, "record.X==exp(-2*ln10*la_of_its_own_potential_unknown)", list(s.pc), xd[-1] if xd else tm.num(-1), tm.app("exp", (tm.num(-2) * la * ln10,), "R"))
        half = tm.num("0.5") if not twin else tm.num(1)
        U.discharge_eq_real(r, "record.alpha==sqrt(eps_r*eps0*R*T/2)(unit_factors_1000*1000)", list(s.pc), al[-1] if al else tm.num(-1), tm.app("sqrt", (eps * E0 * (R_ * tm.num(1000)) * tm.num(1000) * tk * half,), "R"))
        n["record"] = 1
    need = {"other", "done", "integ", "clip", "zero", "record", "rungs"}
    r.add("reach.cases", DISCHARGED if need <= set(n) else UNDECIDED, "symex", 0, "missing %r" % sorted(need - set(n)), kind="vacuity")
    r.assumptions += ["qromb_midpnt(record, a, b) integrates the Borkovec-Westall integrand for charge z_global over [a, b] (the tiling of [1, X]: unit C20.calc_all_g.piecewise_quadrature_partitions_[1,xd])",
                      "Find_charge deterministic; accessors from their real inline definitions; std::map model", "the value of dg (a Jacobian entry) is not constrained, only where it is stored",
                      "locals charge_ptr, temp_g_map, epsilon, converge, j read by name", "doubles as reals; exp / sqrt uninterpreted"]
    return r


RS_FUN = ("Get_surface_comps", "Get_surface_charges", "Find_charge", "Get_phase_name", "Get_rate_name", "c_str", "size", "get_true_false", "Get_related_rate", "Get_related_phases", "back", "find", "substr")
RS_ENUMS = ENUMS + ["OPTION_EOF", "OPTION_KEYWORD", "OPTION_ERROR", "OPTION_DEFAULT", "EOF", "KEYWORD", "DIGIT", "EMPTY", "UNKNOWN", "CONTINUE", "UPPER", "LOWER"]


def _rs_ctx():
    from props.c19_ext2 import scanf_handler
    c = ctx(functional=RS_FUN, enums_from="Phreeqc.h", enums=RS_ENUMS)
    surface_enums(c)
    c.handlers["sscanf"] = scanf_handler
    return c


def unit_read_surface(twin=False):
    """SURFACE input: every option sets the member of the model it names and nothing else.
    -diffuse_layer [t]: Borkovec-Westall layer, thickness t (1e-8 m when no number);  -donnan: Donnan layer, a number token is the thickness,
    `debye_lengths n`, `limit x`, `viscosity v`, `correct_D t/f` set their own member;  -no_edl / -cd_music / -ddl / -ccm select the
    electrostatic model;  -ccm C stores C as capacitance[0] of the current charge record;  -capacitances C1 C2 store capacitance[0] and [1]
    of the current charge record (first / second number);  -only_counter_ions t/f;  -equilibrate n: the solution number.
    A component line `Name sites area grams` / `Name phase|rate [equilibrium_phase|kinetics] proportion area`: one component is appended to THIS
    surface with the formula on the line; the tokens are consumed in order, each number feeds the member of its position (sites; or related
    name, kind, proportion; then specific area; then grams; then Dw) - area and grams go to the charge record Find_charge gives for the
    component's name, which is also the `current record` for the options that follow."""
    from props.c19_ext2 import outer_switch, option_table, opt_of
    q = "Phreeqc::read_surface"
    fn = A.find_function(READ, q)
    r = U.new_unit("C20.read_surface.each_option_and_line_position_sets_the_member_it_names", READ, q, fn)
    sw = outer_switch(fn)
    names, cnt = option_table(fn)
    ev = evals(); n = {}
    evx = {k.split("::")[-1]: v for k, v in A.enum_values_compiled("Phreeqc.h", ["DIGIT", "EMPTY", "OPTION_DEFAULT"]).items()}
    for nm in names:
        r.add("option_table.-%s_inside_count_opt_list" % nm, DISCHARGED if cnt is not None and names.index(nm) < cnt else FAILED, "syntactic", 0, "%r" % cnt, kind="structural")
    c = _rs_ctx()
    c.loop = lambda ex_, st, nd, o: ex_.havoc_loop(nd, st)
    f, ex, fin, info = region(READ, q, [sw], c)
    opt = tm.sym("L_opt", "I"); surf = tm.sym("&L_temp_surface", "P"); chp = tm.sym("L_charge_ptr", "P")
    setters = lambda s: [e for e in s.events if short(e).startswith("Set_") or short(e) == "Calc_DDL_viscosity"]
    model = {"no_edl": "NO_EDL", "no_electrostatic": "NO_EDL", "cd_music": "CD_MUSIC", "ddl": "DDL", "constant_capacitance": "CCM", "ccm": "CCM"}
    if twin:
        model["ddl"] = "CCM"
    allowed = {"equilibrate": set(), "equil": set(), "equilibrium": set(), "diff": {"Set_thickness", "Set_dl_type"}, "diffuse_layer": {"Set_thickness", "Set_dl_type"},
               "no_edl": {"Set_type"}, "no_electrostatic": {"Set_type"}, "only_counter_ions": {"Set_only_counter_ions"}, "donnan": {"Set_dl_type"}, "cd_music": {"Set_type"},
               "capacitances": {"Set_capacitance0", "Set_capacitance1"}, "sites": {"Set_sites_units"}, "sites_units": {"Set_sites_units"}, "site_units": {"Set_sites_units"},
               "constant_capacitance": {"Set_type", "Set_capacitance0"}, "ccm": {"Set_type", "Set_capacitance0"}, "ddl": {"Set_type"}, "donnan_factors": set()}
    seen = set()
    for s in live(fin, ("run", "brk")):
        k = opt_of(s, opt)
        if k is None or k == evx["OPTION_DEFAULT"]:
            continue
        st_ = setters(s)
        nm = names[k] if 0 <= k < len(names) else None
        if nm is None:
            r.add("frame.case_%d_sets_nothing#%d" % (k, len(r.obligations)), DISCHARGED if not st_ else FAILED, "symex", 0, repr([short(e) for e in st_])[:100], kind="frame"); continue
        extra = {short(e) for e in st_} - allowed.get(nm, set())
        r.add("frame.-%s_sets_only_its_own_members#%d" % (nm, len(r.obligations)), DISCHARGED if not extra else FAILED, "symex", 0, repr(sorted(extra))[:100], kind="frame")
        scans = [e for e in s.events if short(e) == "sscanf"]
        if nm in model:
            ty = [e for e in st_ if short(e) == "Set_type"]
            ok = len(ty) == 1 and ty[0].recv is surf and tm.isnum(ty[0].args[0]) and ty[0].args[0].args[0] == ev[model[nm]]
            r.add("option.-%s.selects_the_%s_model#%d" % (nm, model[nm], len(r.obligations)), DISCHARGED if ok else FAILED, "symex", 0, repr(ty)[:100]); n[nm] = 1
        if nm in ("diff", "diffuse_layer"):
            dl = [e for e in st_ if short(e) == "Set_dl_type"]; th = [e for e in st_ if short(e) == "Set_thickness"]
            ok = len(dl) == 1 and dl[0].recv is surf and tm.isnum(dl[0].args[0]) and dl[0].args[0].args[0] == ev["BORKOVEK_DL"]
            r.add("option.-%s.Borkovec_Westall_layer#%d" % (nm, len(r.obligations)), DISCHARGED if ok else FAILED, "symex", 0, repr(dl)[:100])
            if len(scans) != 1 or not th:
                r.add("option.-%s.reads_one_number" % nm, FAILED, "symex", 0, ""); continue
            for hy, got in cases(list(s.pc), tm.eq(scans[0].result, tm.num(1, "I"))):
                last = th[-1].args[0]
                from fractions import Fraction as Fr
                ok = (last is scans[0].snap["value"]) if got else (tm.isnum(last) and last.args[0] == Fr(1, 10 ** 8))
                r.add("option.-%s.thickness==%s#%d" % (nm, "the_number_read" if got else "1e-8_m_by_default", len(r.obligations)), DISCHARGED if ok else FAILED, "symex", 0, repr(last)[:60]); n[nm + (".t" if got else ".d")] = 1
        if nm == "donnan":
            dl = [e for e in st_ if short(e) == "Set_dl_type"]
            ok = len(dl) == 1 and dl[0].recv is surf and tm.isnum(dl[0].args[0]) and dl[0].args[0].args[0] == ev["DONNAN_DL"]
            r.add("option.-donnan.Donnan_layer", DISCHARGED if ok else FAILED, "symex", 0, repr(dl)[:100]); n["donnan"] = 1
        if nm == "only_counter_ions":
            oc = [e for e in st_ if short(e) == "Set_only_counter_ions"]
            ok = len(oc) == 1 and oc[0].recv is surf and "get_true_false" in repr(oc[0].args[0]) and "next_char" in repr(oc[0].args[0])
            r.add("option.-only_counter_ions.the_true/false_word_on_the_line", DISCHARGED if ok else FAILED, "symex", 0, repr(oc)[:160]); n["oc"] = 1
        if nm in ("capacitances", "constant_capacitance", "ccm"):
            caps = [e for e in st_ if short(e).startswith("Set_capacitance")]
            for hy, has in cases(list(s.pc), tm.not_(tm.eq(chp, tm.num(0, "P")))):
                if not has:
                    r.add("option.-%s.without_a_current_charge_record_no_capacitance_is_stored#%d" % (nm, len(r.obligations)), DISCHARGED if not caps else FAILED, "symex", 0, ""); n[nm + ".none"] = 1; continue
                # k-th number on the line -> capacitance[k]
                seq = [e for e in s.events if short(e) in ("copy_token", "sscanf") or short(e).startswith("Set_capacitance")]
                pos = -1; okc = True; got = []
                for i_, e in enumerate(seq):
                    if short(e) == "copy_token": pos += 1
                    if short(e).startswith("Set_capacitance"):
                        sc_prev = [x for x in seq[:i_] if short(x) == "sscanf"]
                        want_name = "Set_capacitance%d" % (pos if not twin else 1 - pos)
                        okc = okc and e.recv is chp and sc_prev and e.args[0] is sc_prev[-1].snap["value"] and short(e) == want_name and decide(s, tm.eq(sc_prev[-1].result, tm.num(1, "I"))) is True
                        got.append(short(e))
                if nm != "capacitances":
                    okc = okc and got in ([], ["Set_capacitance0"])
                r.add("option.-%s.number_k_on_the_line_is_capacitance[k]_of_the_current_record#%d" % (nm, len(r.obligations)), DISCHARGED if okc else FAILED, "symex", 0, repr(got)); n[nm + "." + "".join(g_[-1] for g_ in got)] = 1
    # ---- -equilibrate: the token scan
    loops = [x for x in A.walk(fn) if x.get("kind") in ("ForStmt", "WhileStmt", "DoStmt")]
    scans_ = [k for k, lp in enumerate(loops) if k > 0 and any(y is lp for y in A.walk(sw)) and "copy_token(" in text_of(READ, lp["inner"][-1])]
    if len(scans_) != 3:
        raise Undecided("read_surface: expected the three token scans (-equilibrate, -donnan, -donnan_factors) inside the option switch, found %d" % len(scans_))
    eq_l = [scans_[0]]                                                          # first in the source: the case of -equilibrate
    don_l = [max(scans_, key=lambda k_: len(text_of(READ, loops[k_])))]         # the long one: the sub-words of -donnan
    f, ex, its, info = U.run_loop_isolated(READ, q, eq_l[0], ctx=_rs_ctx())
    for s in live(its, ("run", "cont", "brk")):
        evs = U.iter_events(s); ct = [e for e in evs if short(e) == "copy_token"]; st_ = [e for e in evs if short(e).startswith("Set_")]
        if len(ct) != 1:
            r.add("equilibrate.one_token_per_step", FAILED, "symex", 0, ""); continue
        for hy, digit in cases(list(s.pc), tm.eq(ct[0].result, tm.num(evx["DIGIT"], "I"))):
            if digit:
                sc = [e for e in evs if short(e) == "sscanf"]
                d = {short(e): e for e in st_}
                ok = len(sc) == 1 and repr(ct[0].args[0]) in repr(sc[0].args[0]) and set(d) == {"Set_solution_equilibria", "Set_n_solution"} and all(e.recv is surf for e in st_)
                ok = ok and repr(sc[0].args[2]) in repr(d["Set_n_solution"].args[0]) and d["Set_solution_equilibria"].args[0] is tm.TRUE and s.status == "brk"
                r.add("equilibrate.number_token:solution_number:=that_number,to_be_equilibrated", DISCHARGED if ok else FAILED, "symex", 0, repr([short(e) for e in st_])); n["eq"] = 1
            else:
                r.add("equilibrate.other_token:nothing_set#%d" % len(r.obligations), DISCHARGED if not st_ else FAILED, "symex", 0, ""); n["eq0"] = 1
    # ---- -donnan: keyword letter -> member
    f, ex, its, info = U.run_loop_isolated(READ, q, don_l[0], ctx=_rs_ctx())
    seen = set()
    pairs = {}
    for s in live(its, ("run", "cont", "brk")):
        evs = U.iter_events(s)
        st_ = [e for e in evs if short(e).startswith("Set_") or short(e) == "Calc_DDL_viscosity"]
        sig = tuple(short(e) for e in st_)
        lets = sorted(set(__import__("re").findall(r"== (\d+)\)", " ".join(repr(c_) for c_ in s.pc if "operator[]" in repr(c_) and c_.op != "not"))))
        if not st_:
            continue
        pairs.setdefault(sig, set()).update(lets)
        sc = [e for e in evs if short(e) == "sscanf"]
        num = [e for e in st_ if short(e) in ("Set_thickness", "Set_debye_lengths", "Set_DDL_limit")]
        for e in num:
            ok = e.recv is surf and sc and e.args[0] is sc[-1].snap["value"]
            if (short(e), ok) not in seen:
                r.add("donnan.%s:=the_number_token_just_read#%d" % (short(e)[4:], len(r.obligations)), DISCHARGED if ok else FAILED, "symex", 0, repr(e.args)[:80]); seen.add((short(e), ok))
    letter_of = {}
    for sig, ls in pairs.items():
        for nm_ in sig:
            letter_of.setdefault(nm_, set()).update(ls)
    want_l = {"Set_debye_lengths": {"68", "100"}, "Set_DDL_limit": {"76", "108"}, "Set_correct_D": {"67", "99"}, "Set_DDL_viscosity": {"86", "118"}}
    if twin:
        want_l["Set_DDL_limit"] = {"68", "100"}
    for nm_, ls in sorted(want_l.items()):
        got = letter_of.get(nm_, set())
        r.add("donnan.word_starting_with_%s_sets_%s" % ("/".join(chr(int(x)) for x in sorted(ls)), nm_[4:]), DISCHARGED if ls <= got and not ((got - ({"67", "99"} if nm_ == "Set_DDL_viscosity" else set())) & set().union(*[v for k_, v in want_l.items() if k_ != nm_])) else FAILED, "symex", 0, repr(sorted(got))); n["donnan." + nm_] = 1
    r.add("donnan.thickness_is_the_bare_number_token", DISCHARGED if "Set_thickness" in letter_of and not (letter_of["Set_thickness"] & {"68", "100", "76", "108", "67", "99", "86", "118"}) else FAILED, "symex", 0, repr(sorted(letter_of.get("Set_thickness", []))))
    # ---- component lines
    c = _rs_ctx(); c.loop = lambda ex_, st, nd, o: ex_.havoc_loop(nd, st)
    f, ex, fin, info = region(READ, q, [sw], c)
    comps = tm.app("call:Get_surface_comps", (surf,), "P")
    order = ["Set_moles", "Set_phase_proportion", "Set_specific_area", "Set_grams", "Set_Dw"]
    if twin:
        order = ["Set_moles", "Set_phase_proportion", "Set_grams", "Set_specific_area", "Set_Dw"]
    sigs = set()
    for s in fin:
        if opt_of(s, opt) != evx["OPTION_DEFAULT"] or s.status not in ("run", "brk"):
            continue
        line = [e for e in s.events if short(e).startswith("Set_") or short(e) in ("sscanf", "copy_token", "vector.push_back", "Find_charge")]
        sig = tuple(short(e) for e in line)
        if sig in sigs or B.z3_sat(list(s.pc)) == "unsat":
            continue
        sigs.add(sig)
        pushed = [e for e in line if short(e) == "vector.push_back" and e.recv is comps]
        if not pushed:
            r.add("component_line.rejected_name:nothing_set#%d" % len(r.obligations), DISCHARGED if not [e for e in line if short(e).startswith("Set_")] else FAILED, "symex", 0, repr(sig)[:100]); n["rej"] = 1; continue
        comp = None
        sf = [e for e in line if short(e) == "Set_formula"]
        ct0 = [e for e in line if short(e) == "copy_token"]
        okf = len(pushed) == 1 and len(sf) == 1 and ct0 and repr(ct0[0].args[0]) in repr(sf[0].args[0]) and line.index(sf[0]) > line.index(pushed[0])
        comp = sf[0].recv if sf else None
        okf = okf and comp is not None and repr(comps) in repr(comp)
        fc = [e for e in line if short(e) == "Find_charge"]
        okall = okf; why = "" if okf else "component not appended once / formula not the first token"
        # numeric members: each fed by the scan of the token read just before, tokens used once, in the order of the line
        last_tok = -1; seq = []
        for i_, e in enumerate(line):
            if short(e) in order and "temp_charge" not in repr(e.recv):
                prev_sc = [j_ for j_ in range(i_) if short(line[j_]) == "sscanf"]
                prev_ct = [j_ for j_ in range(i_) if short(line[j_]) == "copy_token"]
                if not prev_sc or not prev_ct or prev_ct[-1] > prev_sc[-1] or prev_ct[-1] <= last_tok:
                    okall = False; why = "%s is not fed by a freshly read token" % short(e); break
                sc = line[prev_sc[-1]]; ct = line[prev_ct[-1]]
                val_ok = (e.args[0] is sc.snap["value"]) or (repr(sc.args[2]) in repr(e.args[0]))
                src_ok = repr(ct.args[0]) in repr(sc.args[0])
                if not (val_ok and src_ok):
                    okall = False; why = "%s does not store the number of its token" % short(e); break
                last_tok = prev_ct[-1]; seq.append(short(e))
                want_recv = comp if short(e) in ("Set_moles", "Set_phase_proportion", "Set_Dw") else (fc[-1].result if fc else None)
                if e.recv is not want_recv:
                    okall = False; why = "%s goes to another record" % short(e); break
        ranks = [order.index(x) for x in seq]
        if okall and (ranks != sorted(ranks) or len(set(seq)) != len(seq) or ("Set_moles" in seq and "Set_phase_proportion" in seq)):
            okall = False; why = "members filled out of line order: %r" % seq
        if okall and "Set_grams" in seq and "Set_specific_area" not in seq:
            okall = False; why = "grams without area"
        scn = [e for e in line if short(e) == "Set_charge_name"]
        if okall and scn:
            cur = s.locals.get(info["names"]["charge_ptr"])
            if not fc or cur is not fc[-1].result or scn[0].recv is not comp or fc[-1].args[0] is not surf and fc[-1].recv is not surf:
                okall = False; why = "current charge record is not the one looked up for this component"
        r.add("component_line.tokens_in_order(sites|related_name,proportion;area;grams;Dw)_each_into_its_member_of_this_component_and_its_charge_record#%d" % len(r.obligations), DISCHARGED if okall else FAILED, "symex", 0, why or repr(seq))
        n["line." + "+".join(x[4:] for x in seq)] = 1
    need = {"no_edl", "cd_music", "ddl", "ccm", "diff.t", "diff.d", "donnan", "oc", "capacitances.01", "capacitances.0", "capacitances.1", "capacitances.none", "ccm.0", "eq", "eq0", "rej",
            "line.moles+specific_area+grams", "line.phase_proportion+specific_area", "line.moles", "donnan.Set_debye_lengths", "donnan.Set_DDL_limit"}
    r.add("reach.cases", DISCHARGED if need <= set(n) else UNDECIDED, "symex", 0, "missing %r" % sorted(need - set(n)), kind="vacuity")
    r.head_exempt = {(q, eq_l[0]): "token scan `for (;;)` left by break", (q, don_l[0]): "token scan `for (;;)` left by break"}
    r.assumptions += ["get_option returns the index of the matching entry of opt_list; copy_token reads the next token of the line and returns its kind; sscanf stores the number it reads",
                      "Set_x of cxxSurface / cxxSurfaceComp / cxxSurfaceCharge store their argument in member x (inline accessors; capacitance0/1 = capacitance[0]/[1])",
                      "Find_charge(name) returns the charge record of that name; the derivation of the record's name from the formula (text before the underscore) is string handling outside the subset",
                      "the checks after the last line (area defined, model / layer combinations) are in unit C20.read_surface.final_checks", "statement contracts on the option switch and two token scans; locals opt, temp_surface, charge_ptr read by name",
                      "-donnan sub-words are recognised by their first letter (D, L, V, C): the letters are read from the path conditions on the token's first character"]
    return r


TS_FUN = ("Get_surface_comps", "Get_totals", "element_store", "c_str", "Find_charge", "Get_charge_name", "Get_new_def", "Get_sites_units", "Get_phase_name", "size", "Get_specific_area",
          "Get_grams", "Get_type", "Get_dl_type", "Get_charge_balance", "Get_formula_z", "Get_formula", "Get_tidied", "Get_master_element", "Get_surface_charges", "Get_debye_lengths",
          "Get_transport", "Get_name", "Get_Dw")


def _ts_ctx():
    c = ctx(functional=TS_FUN, enums_from="Phreeqc.h", enums=RS_ENUMS + ["SURF"])
    surface_enums(c)
    ev = A.enum_values_compiled("Phreeqc.h", ["cxxSurface::UNKNOWN_DL", "cxxSurface::SITES_DENSITY", "cxxSurface::SITES_ABSOLUTE"])
    c.enum_values.update({k.split("::")[-1]: v for k, v in ev.items()})
    def setter(ex_, st, n, name, recv, args):
        k = ("f", "sc_moles", "R")
        st.heap[k] = tm.store(ex_.heap_arr(st, k), (recv,), ex_.coerce(args[0], "R"))
        st.events.append(SX.Event(name, recv, args, tm.num(0, "I"), n))
        return [(st, tm.num(0, "I"))]
    def getter(ex_, st, n, name, recv, args):
        return [(st, tm.select(ex_.heap_arr(st, ("f", "sc_moles", "R")), recv))]
    c.handlers["cxxSurfaceComp::Set_moles"] = setter
    c.handlers["cxxSurfaceComp::Get_moles"] = getter
    return c


def unit_surface_checks(twin=False):
    """What is checked / adjusted once a SURFACE definition is complete.
    read_surface, after the last line: for the electrostatic models (DDL, CCM, CD-MUSIC) every charge record needs a surface area
    (grams * specific area > 0: else an input error); -no_edl takes no diffuse layer (layer type reset to none); CD-MUSIC cannot use the
    Borkovec-Westall integration (Donnan layer instead) nor a layer given in Debye lengths (input error); DDL / CCM keep the layer type as
    read; the surface is stored under its number AFTER these adjustments and entered in the list tidy_surface works through.
    tidy_surface: the constant-capacitance model cannot be combined with an explicit layer (input error, surface skipped); per component the
    first element of the formula with a SURF master is its master element; sites given as a density (new definition, not related to a phase)
    become moles = density [sites/nm2] * 1e18 * specific area * grams / N_A, and the totals are rebuilt with that amount; for CD-MUSIC the
    charge of plane 0 of the component's record starts from moles * charge of the site formula (with the converted moles)."""
    from fractions import Fraction as Fr
    q = "Phreeqc::read_surface"
    fn = A.find_function(READ, q)
    r = U.new_unit("C20.read_surface_tidy_surface.model_and_layer_combinations_area_site_density_and_plane_0_charge", READ, q + "; Phreeqc::tidy_surface", fn)
    ev = evals(); n = {}
    loops = [x for x in A.walk(fn) if x.get("kind") in ("ForStmt", "WhileStmt", "DoStmt")]
    body = A.body_of(fn)["inner"]
    i0 = [i for i, x in enumerate(body) if x is loops[0]]
    if not i0:
        raise Undecided("read_surface: line loop not at top level")
    tail = [x for x in body[i0[0] + 1:] if not (x["kind"] == "IfStmt" and "Set_Dw(" in text_of(READ, x))]      # the transport block compares strings: outside the subset, not a concern here
    c = _ts_ctx()
    store = {}
    def lp(ex_, st, nd, o_):
        store.setdefault(o_, []).extend(ex_.iterate_loop(nd, st.clone()))
        st.events.append(SX.Event("area_loop", None, (), tm.num(0, "I"), nd))
        return ex_.havoc_loop(nd, st)
    c.loop = lp
    f, ex, fin, info = region(READ, q, tail, c)
    surf = tm.sym("&L_temp_surface", "P")
    ty = tm.app("call:Get_type", (surf,), "I"); dl = tm.app("call:Get_dl_type", (surf,), "I")
    T = lambda nm: tm.eq(ty, tm.num(ev[nm], "I")); D = lambda nm: tm.eq(dl, tm.num(ev[nm], "I"))
    electro = tm.or_(T("DDL"), T("CCM"), T("CD_MUSIC"))
    # area check
    for o_, sts in store.items():
        for s in live(sts, ("run", "cont")):
            chs = tm.app("call:Get_surface_charges", (surf,), "P")
            chg = tm.add(tm.select(base_arr(ex, s, ("f", "#vdata", "P")), chs), tm.sym("iter_i", "I"))
            area = tm.app("call:Get_grams", (chg,), "R") * tm.app("call:Get_specific_area", (chg,), "R")
            ie = [v for k, ix, v in U.iter_writes(s) if k == ("f", "input_error", "I")]
            if "area.model" not in n:
                U.discharge_valid(r, "area.checked_for_the_electrostatic_models(DDL,CCM,CD_MUSIC)", list(s.pc), electro if not twin else T("DDL")); n["area.model"] = 1
            for hy, bad in cases(list(s.pc), tm.le(area, tm.num(0))):
                if bad:
                    ok = len(ie) == 1 and B.z3_prove(hy, tm.eq(ie[0], tm.add(tm.select(base_arr(ex, s, ("f", "input_error", "I")), THIS), tm.num(1, "I"))))[0] == "proved"
                    r.add("area.record_without_area(grams*specific_area<=0):input_error", DISCHARGED if ok else FAILED, "symex", 0, repr(ie)[:80]); n["area.bad"] = 1
                else:
                    r.add("area.record_with_area:accepted", DISCHARGED if not ie else FAILED, "symex", 0, ""); n["area.ok"] = 1
            conds = [c_ for c_ in s.pc if "iter_i" in repr(c_)][:1]
            want = tm.lt(tm.sym("iter_i", "I"), tm.select(base_arr(ex, s, ("f", "#vsize", "I")), chs))
            okr = conds and B.z3_prove([want], conds[0])[0] == "proved" and B.z3_prove([conds[0]], want)[0] == "proved"
            if "area.range" not in n:
                r.add("area.every_charge_record_is_checked(i<size)", DISCHARGED if okr else FAILED, "z3", 0, repr(conds)[:100]); n["area.range"] = 1
    nskip = 0
    for s in live(fin, ("ret",)):
        if any(e.name == "area_loop" for e in s.events):
            continue
        nskip += 1
        if nskip <= 6:
            U.discharge_valid(r, "area.check_left_out_only_for_models_without_electrostatics#%d" % len(r.obligations), list(s.pc), tm.not_(tm.or_(*[tm.eq(tm.app("call:Get_type", (tm.sym("&L_temp_surface", "P"),), "I"), tm.num(ev[x_], "I")) for x_ in ("DDL", "CCM", "CD_MUSIC")])))
    if nskip:
        n["area.skip"] = 1
    # paths that skip the area loop must not be electrostatic models: from the final states (loop havocked): classify by pc
    seen = set()
    for s in live(fin, ("ret",)):
        sets = [e for e in s.events if short(e) == "Set_dl_type" and e.recv is surf]
        errs = [e for e in s.events if short(e) == "error_msg"]
        ie = [v for k, ix, v in U.iter_writes(s) if k == ("f", "input_error", "I")]
        k0 = norm_key([e.args for e in sets], len(errs), [c_ for c_ in s.pc])
        if k0 in seen: continue
        seen.add(k0)
        asg = [e for e in s.events if short(e) == "operator=" and e.args and e.args[0] is surf]
        mo = [e for e in s.events if e.name == "map.operator[]" and e.recv is tm.app("fld:Rxn_surface_map", (THIS,), "P")]
        ins = [e for e in s.events if short(e) == "insert" and e.recv is tm.app("fld:Rxn_new_surface", (THIS,), "P")]
        nu = tm.sym("L_n_user", "I")
        oks = len(asg) == 1 and len(mo) == 1 and mo[0].args[0] is nu and len(ins) == 1 and ins[0].args[0] is nu and all(s.events.index(e) < s.events.index(asg[0]) for e in sets)
        r.add("store.surface_stored_under_its_number_after_the_adjustments_and_listed_as_new#%d" % len(r.obligations), DISCHARGED if oks else FAILED, "symex", 0, "%d/%d/%d" % (len(asg), len(mo), len(ins)))
        def body(dec, hyps, s=s, sets=sets, errs=errs):
            if dec(T("NO_EDL")):
                has = dec(tm.not_(D("NO_DL")))
                ok = (len(sets) == 1 and tm.isnum(sets[0].args[0]) and sets[0].args[0].args[0] == ev["NO_DL"]) if has else not sets
                r.add("combination.no_edl:%s#%d" % ("explicit_layer_dropped(layer_type:=none)" if has else "nothing_to_adjust", len(r.obligations)), DISCHARGED if ok else FAILED, "symex", 0, repr(sets)[:80]); n["noedl" + ("1" if has else "0")] = 1
            elif dec(T("CD_MUSIC")):
                bw = dec(D("BORKOVEK_DL"))
                ok = (len(sets) == 1 and tm.isnum(sets[0].args[0]) and sets[0].args[0].args[0] == ev["DONNAN_DL" if not twin else "NO_DL"]) if bw else not sets
                r.add("combination.cd_music:%s#%d" % ("Borkovec_Westall_replaced_by_Donnan" if bw else "layer_type_kept", len(r.obligations)), DISCHARGED if ok else FAILED, "symex", 0, repr(sets)[:80]); n["cd" + ("1" if bw else "0")] = 1
                deb = dec(tm.lt(tm.num(0), tm.app("call:Get_debye_lengths", (surf,), "R")))
                msgs = [e for e in errs if "Variable DDL thickness" in repr(e.args[0])]
                r.add("combination.cd_music:%s#%d" % ("layer_in_Debye_lengths_is_an_input_error" if deb else "fixed_thickness_accepted", len(r.obligations)), DISCHARGED if (len(msgs) == 1) == deb else FAILED, "symex", 0, ""); n["cddeb" + ("1" if deb else "0")] = 1
            elif dec(tm.or_(T("DDL"), T("CCM"))):
                r.add("combination.ddl_or_ccm:layer_type_as_read#%d" % len(r.obligations), DISCHARGED if not sets else FAILED, "symex", 0, repr(sets)[:80]); n["ddl"] = 1
            elif dec(tm.eq(ty, tm.num(ex.ctx.enum_values["UNKNOWN_DL"], "I"))):
                r.add("combination.unknown_model:input_error#%d" % len(r.obligations), DISCHARGED if errs and not sets else FAILED, "symex", 0, ""); n["unk"] = 1
            else:
                r.add("combination.no_other_model_value_exists(frame)#%d" % len(r.obligations), DISCHARGED if not sets else FAILED, "symex", 0, "", kind="frame")
        case_split(list(s.pc), body)
    # ---- tidy_surface
    q2 = "Phreeqc::tidy_surface"
    fn2 = A.find_function(TIDY, q2)
    l2 = [x for x in A.walk(fn2) if x.get("kind") in ("ForStmt", "WhileStmt", "DoStmt")]
    el = [k for k, lp_ in enumerate(l2) if "element_store(" in text_of(TIDY, lp_["inner"][-1]) and not any(y is not lp_ and y in l2 for y in A.walk(lp_["inner"][-1]))]
    if len(el) != 1:
        raise Undecided("tidy_surface: the loop over the elements of a component's formula was not found (%d)" % len(el))
    f, ex, its, info = U.run_loop_isolated(TIDY, q2, el[0], ctx=_ts_ctx())
    sp, cp = tm.sym("L_surface_ptr", "P"), tm.sym("L_comp_ptr", "P")
    AV = KR("AVOGADRO")
    for s in live(its, ("run", "cont", "brk")):
        evs = U.iter_events(s)
        el_t = [t for c_ in s.pc for t in tm.subterms(c_) if t.op == "app" and t.args[0] == "call:element_store"]
        if not el_t:
            continue
        elt = el_t[0]
        mast = tm.select(entry_arr(ex, s, ("f", "master", "P")), elt)
        SURF = KI("SURF")
        st_ = [e for e in evs if short(e).startswith("Set_")]
        def body(dec, hyps, s=s, st_=st_, evs=evs):
            if dec(tm.eq(mast, tm.num(0, "P"))):
                r.add("tidy.element_without_master:input_error_and_skipped", DISCHARGED if not st_ and [e for e in evs if short(e) == "error_msg"] and s.status == "cont" else FAILED, "symex", 0, ""); n["t.nomaster"] = 1; return
            if not dec(tm.eq(tm.select(entry_arr(ex, s, ("f", "type", "I")), mast), SURF)):
                r.add("tidy.element_that_is_not_a_surface_site:skipped", DISCHARGED if not st_ and s.status == "cont" else FAILED, "symex", 0, ""); n["t.other"] = 1; return
            d = {}
            for e in st_:
                d.setdefault(short(e), []).append(e)
            me = d.get("Set_master_element", [])
            ok = len(me) == 1 and me[0].recv is cp and me[0].args[0] is tm.select(entry_arr(ex, s, ("f", "name", "P")), elt)
            r.add("tidy.site_element:becomes_the_component's_master_element#%d" % len(r.obligations), DISCHARGED if ok else FAILED, "symex", 0, repr(me)[:100])
            chs = [t for t in tm.subterms(tm.and_(*s.pc)) if t.op == "app" and t.args[0] == "call:Find_charge"] + [e.recv for e in st_ if short(e) == "Set_charge_balance"]
            ch = chs[0] if chs else None
            m0 = tm.select(entry_arr(ex, s, ("f", "sc_moles", "R")), cp)
            dens = dec(tm.and_(tm.to_bool(tm.app("call:Get_new_def", (sp,), "B")), tm.eq(tm.app("call:Get_sites_units", (sp,), "I"), tm.num(ex.ctx.enum_values["SITES_DENSITY"], "I")),
                               tm.eq(tm.app("strlen", (tm.select(entry_arr(ex, s, ("m", "S")), tm.app("call:Get_phase_name", (cp,), "P"), tm.num(0, "I")),), "I"), tm.num(0, "I"))))
            mol = m0
            if dens:
                if ch is None or dec(tm.eq(ch, tm.num(0, "P"))):
                    r.add("tidy.site_density_without_a_charge_record:input_error#%d" % len(r.obligations), DISCHARGED if "Set_moles" not in d and [e for e in evs if short(e) == "error_msg"] else FAILED, "symex", 0, ""); n["t.nocharge"] = 1; return
                sm = d.get("Set_moles", [])
                exp_ = tm.num(10 ** 18) if not twin else tm.num(10 ** 9)
                mol = m0 * exp_ * tm.app("call:Get_specific_area", (ch,), "R") * tm.app("call:Get_grams", (ch,), "R") / AV
                if len(sm) != 1 or sm[0].recv is not cp:
                    r.add("tidy.site_density:moles_set_once#%d" % len(r.obligations), FAILED, "symex", 0, ""); return
                U.discharge_eq_real(r, "tidy.site_density:moles==density*1e18*specific_area*grams/N_A#%d" % len(r.obligations), hyps, sm[0].args[0], mol)
                ge = [e for e in evs if short(e) == "get_elts_in_species"]
                okt = len(ge) == 1 and same_real(ge[0].args[1], mol) and len(d.get("Set_totals", [])) == 1 and evs.index(d["Set_totals"][0]) > evs.index(ge[0])
                r.add("tidy.site_density:totals_rebuilt_from_the_formula_with_the_converted_moles#%d" % len(r.obligations), DISCHARGED if okt else FAILED, "symex", 0, repr(ge)[:120]); n["t.dens"] = 1
            else:
                r.add("tidy.sites_in_moles_or_related:amount_kept#%d" % len(r.obligations), DISCHARGED if "Set_moles" not in d and "Set_totals" not in d else FAILED, "symex", 0, ""); n["t.abs"] = 1
            cb = d.get("Set_charge_balance", [])
            if dec(tm.eq(tm.app("call:Get_type", (sp,), "I"), tm.num(ev["CD_MUSIC"], "I"))):
                if len(cb) != 1:
                    r.add("tidy.cd_music:plane_0_charge_updated_once#%d" % len(r.obligations), FAILED, "symex", 0, ""); return
                want = tm.app("call:Get_charge_balance", (cb[0].recv,), "R") + mol * tm.app("call:Get_formula_z", (cp,), "R")
                okc = "Find_charge" in repr(cb[0].recv) and "Get_charge_name" in repr(cb[0].recv)
                U.discharge_eq_real(r, "tidy.cd_music:charge_of_the_component's_record+=moles*charge_of_the_site_formula#%d" % len(r.obligations), hyps, cb[0].args[0], want)
                r.add("tidy.cd_music:the_record_is_the_one_named_by_the_component#%d" % len(r.obligations), DISCHARGED if okc else FAILED, "symex", 0, repr(cb[0].recv)[:100]); n["t.cd"] = 1
            else:
                r.add("tidy.other_models:charge_record_untouched#%d" % len(r.obligations), DISCHARGED if not cb else FAILED, "symex", 0, ""); n["t.notcd"] = 1
            r.add("tidy.site_element:only_the_first_site_element_counts(loop_left)#%d" % len(r.obligations), DISCHARGED if s.status == "brk" else FAILED, "symex", 0, s.status)
        case_split(list(s.pc), body)
    # CCM with an explicit layer
    f, ex, its, info = U.run_loop_isolated(TIDY, q2, 0, ctx=_ts_ctx())
    for s in live(its, ("run", "cont")):
        sps = [e.recv for e in s.events if short(e) == "Set_tidied"]
        if not sps:
            continue
        spt = sps[0]
        bad = tm.and_(tm.eq(tm.app("call:Get_type", (spt,), "I"), tm.num(ev["CCM"], "I")),
                      tm.or_(tm.eq(tm.app("call:Get_dl_type", (spt,), "I"), tm.num(ev["BORKOVEK_DL"], "I")), tm.eq(tm.app("call:Get_dl_type", (spt,), "I"), tm.num(ev["DONNAN_DL"], "I"))))
        ie = [v for k, ix, v in U.iter_writes(s) if k == ("f", "input_error", "I")]
        evn = [short(e) for e in U.iter_events(s)]
        ie0 = tm.select(entry_arr(ex, s, ("f", "input_error", "I")), THIS)
        for hy, isbad in cases(list(s.pc), bad):
            if isbad:
                ok = s.status == "cont" and len(ie) == 1 and B.z3_prove(hy, tm.eq(ie[0], tm.add(ie0, tm.num(1, "I"))))[0] == "proved"
                if "t.ccm" not in n or not ok:
                    r.add("tidy.ccm_with_an_explicit_layer(Borkovec_Westall_or_Donnan):input_error_and_surface_skipped#%d" % len(r.obligations), DISCHARGED if ok else FAILED, "symex", 0, s.status)
                n["t.ccm"] = 1
            else:
                ok = s.status == "run"
                if "t.ccm_ok" not in n or not ok:
                    r.add("tidy.every_other_combination_is_processed#%d" % len(r.obligations), DISCHARGED if ok else FAILED, "symex", 0, s.status)
                n["t.ccm_ok"] = 1
    need = {"area.model", "area.skip", "area.bad", "area.ok", "noedl1", "noedl0", "cd1", "cd0", "cddeb1", "cddeb0", "ddl", "unk", "t.nomaster", "t.other", "t.dens", "t.abs", "t.cd", "t.notcd", "t.nocharge", "t.ccm", "t.ccm_ok"}
    r.add("reach.cases", DISCHARGED if need <= set(n) else UNDECIDED, "symex", 0, "missing %r" % sorted(need - set(n)), kind="vacuity")
    r.assumptions += ["Get_x / Set_x of cxxSurface, cxxSurfaceComp, cxxSurfaceCharge are plain accessors; Get_moles after Set_moles(v) is v", "element_store(name) returns the element record of that name; Find_charge(name) the charge record of that name",
                      "get_elts_in_species(formula, n) + elt_list_NameDouble() give the element totals of n moles of the formula (C01 / C15 units)", "the copy of Dw between components (surface transport) and the sort of the components by formula are not under this contract",
                      "statement contracts: the statements of read_surface after its line loop; the element loop and the per-surface body of tidy_surface; locals temp_surface, n_user, surface_ptr, comp_ptr read by name", "doubles as reals"]
    return r


UNITS = [
    ("C20.surface_model.first_estimate_and_convergence_test_of_the_same_layer_model_and_water_bookkeeping", unit_surface_model),
    ("C20.calc_psi_avg.layer_charge_balances_the_surface_charge", unit_calc_psi_avg),
    ("C20.calc_all_donnan.g_of_each_charge_group_from_the_Donnan_potential_of_its_own_record", unit_calc_all_donnan),
    ("C20.calc_all_g.each_distinct_aqueous_charge_gets_the_integrated_excess_once_in_its_own_record", unit_calc_all_g),
    ("C20.read_surface.each_option_and_line_position_sets_the_member_it_names", unit_read_surface),
    ("C20.read_surface_tidy_surface.model_and_layer_combinations_area_site_density_and_plane_0_charge", unit_surface_checks),
]
