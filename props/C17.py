"""C17 — BASIC programs follow reference BASIC semantics (partial).
Operator dispatch and semantics of one loop iteration of PBasic::upexpr / term / sexpr / relexpr / andexpr / expr for every token
kind of the BASIC_TOKEN enumeration and all numeric operand values.  Tokenizer, control flow, built-in functions and hosts are NOT decided."""
import time
from vf import core
from vf.core import Undecided, FAILED, DISCHARGED, UNDECIDED
from vf.astvc import ast as A, terms as tm, unit as U, backends as B, stl as STLM
from vf.astvc import symex as SX

PID = "C17"
PB = "src/phreeqcpp/PBasic.cpp"
THIS = tm.sym("this", "P")
LEVELS = {"upexpr": ["tokup"], "term": ["toktimes", "tokdiv", "tokmod"], "sexpr": ["tokplus", "tokminus"],
          "relexpr": ["tokeq", "toklt", "tokgt", "tokle", "tokge", "tokne"], "andexpr": ["tokand"], "expr": ["tokor", "tokxor"]}
TOKS = ["tokvar", "toknum", "tokstr", "toksnerr", "tokplus", "tokminus", "toktimes", "tokdiv", "tokup", "toklp", "tokrp", "tokcomma", "toksemi", "tokcolon",
        "tokeq", "toklt", "tokgt", "tokle", "tokge", "tokne", "tokand", "tokor", "tokxor", "tokmod", "toknot", "toksqr", "toksqrt", "toksin", "tokcos", "toktan"]


def token_values():
    names = list(dict.fromkeys(TOKS + [t for v in LEVELS.values() for t in v]))
    return A.enum_values_compiled("PBasic.h", ["PBasic::" + n for n in names] + ["PBasic::tokrem"])


def mkctx(ev):
    ctx = SX.Ctx(); ctx.stl = STLM.STL(SX)
    ctx.enum_values.update({k.split("::")[-1]: v for k, v in ev.items()})
    ctx.record_types.add("valrec")
    class AllPure(set):
        def __contains__(self, x): return True
    ctx.pure = AllPure()
    def tmerr(ex_, st, n, name, recv, args):
        st.events.append(SX.Event(name, recv, args, tm.num(0, "I"), n))
        st.status = "throw"        # contract of PBasic::tmerr: reports a BASIC error and does not return
        return [(st, tm.num(0, "I"))]
    ctx.handlers["PBasic::tmerr"] = tmerr
    def copy_valrec(ex_, st, n, name, arg_nodes):
        out = []
        for s1, l in ex_.lv(arg_nodes[0], st):
            recv = ex_.address(s1, l)
            for s2, src in ex_.ev(arg_nodes[1], s1):
                uu_d, uu_s = tm.app("fld:UU", (recv,), "P"), tm.app("fld:UU", (src,), "P")
                ex_.store(s2, ("field", "stringval", recv), ex_.load(s2, ("field", "stringval", src), "B"), "B")
                ex_.store(s2, ("field", "val", uu_d), ex_.load(s2, ("field", "val", uu_s), "R"), "R")
                ex_.store(s2, ("field", "sval", uu_d), ex_.load(s2, ("field", "sval", uu_s), "P"), "P")
                out.append((s2, recv))
        return out
    ctx.handlers["valrec::operator="] = copy_valrec
    return ctx


def run_iteration(fname, kind_value, ev, both_numeric=True):
    ctx = mkctx(ev)
    def prepare(ex, st, info):
        link = st.locals[info["names"]["LINK"]]
        t = ex.load(st, ("field", "t", link), "P")
        key = ("f", "kind", "I")
        st.heap[key] = tm.store(ex.heap_arr(st, key), (t,), tm.num(kind_value, "I"))
        if both_numeric:
            n = st.locals[info["names"]["n"]][1]
            st.heap[("f", "stringval", "B")] = tm.store(ex.heap_arr(st, ("f", "stringval", "B")), (n,), tm.FALSE)
    fn, ex, iters, info = U.run_loop_isolated(PB, "PBasic::" + fname, 0, ctx=ctx, prepare=prepare)
    return fn, ex, iters, info


def nval(ex, s, addr):
    return tm.select(s.heap.get(("f", "val", "R"), ex.heap_arr(s, ("f", "val", "R"))), tm.app("fld:UU", (addr,), "P"))


def unit_level(fname, twin=False):
    ev = token_values()
    tv = {k.split("::")[-1]: v for k, v in ev.items()}
    fn0 = A.find_function(PB, "PBasic::" + fname)
    r = U.new_unit("C17.expr." + fname, PB, "PBasic::" + fname, fn0)
    expected = set(LEVELS[fname])
    if twin:
        expected = set(list(expected)[1:]) if len(expected) > 1 else set()
    maxk = tv["tokrem"] + 40
    name_of = {v: k for k, v in tv.items()}
    entered_wrong = []
    for k in range(0, maxk):
        fn, ex, iters, info = run_iteration(fname, k, ev)
        entered = len(iters) > 0
        want = name_of.get(k) in expected
        if entered != want:
            entered_wrong.append((k, name_of.get(k), entered))
    r.add("dispatch.loop_entered_iff_token_is_an_operator_of_this_level(all %d token kinds)" % maxk, DISCHARGED if not entered_wrong else FAILED, "exhaustive-by-kind", 0,
          "operators %s; mismatches %s" % (sorted(LEVELS[fname]), entered_wrong[:6]))
    # semantics per operator on numeric operands
    for op in LEVELS[fname]:
        fn, ex, iters, info = run_iteration(fname, tv[op], ev)
        n_addr = tm.sym("&L_n", "P"); n2_addr = tm.sym("&L_n2", "P")
        pre_n = tm.select(tm.sym("Hiter.val:R", ("A", "P", "R")), tm.app("fld:UU", (n_addr,), "P"))
        got_any = False
        for s in iters:
            if B.z3_sat(list(s.pc)) == "unsat":
                continue
            # operand n2 is whatever the next-lower level returned; its string flag decides the error paths
            sv2 = tm.select(s.heap.get(("f", "stringval", "B"), ex.heap_arr(s, ("f", "stringval", "B"))), n2_addr)
            a = pre_n if ("f", "val", "R") in getattr(ex, "iter_written", ()) else tm.select(ex.heap_arr(SX.State(), ("f", "val", "R")), tm.app("fld:UU", (n_addr,), "P"))
            b = None
            # value of n2 after the callee returned: read from the final heap (n2 is not written by the operator itself)
            b = nval(ex, s, n2_addr)
            isnum2 = B.z3_prove(list(s.pc), tm.not_(sv2))[0] == "proved"
            if s.status == "throw":
                if B.z3_prove(list(s.pc), sv2)[0] == "proved":
                    r.add("%s.string_operand_rejected" % op, DISCHARGED, "trace", 0, "", kind="trace")
                    continue
                if fname == "upexpr":
                    # negative base with fractional exponent
                    continue
                r.add("%s.no_error_on_numeric_operands" % op, FAILED, "symex", 0, "tmerr on path %r" % (s.pc,))
                continue
            if not isnum2:
                continue
            got_any = True
            res = nval(ex, s, n_addr)
            spec = spec_for(op, a, b, s, ex, twin)
            if spec is None:
                continue
            hy = list(s.pc)
            U.discharge_valid(r, "%s.result[%s]" % (op, path_tag(s, a, b)), hy, tm.eq(res, spec))
        if not got_any:
            r.add("%s.reach" % op, UNDECIDED, "symex", 0, "no numeric path", kind="vacuity")
    r.assumptions += ["the next-lower level returns an arbitrary valrec and advances LINK->t (its own unit)", "tmerr reports a BASIC error and does not return",
                      "doubles as reals; (long) casts are truncation of a real; x & 1 = x mod 2; comparison of NaN operands (unordered) is outside the real model"]
    return r


_pt = {}
def path_tag(s, a, b):
    key = tuple(s.pc[-3:])
    return "case%d" % _pt.setdefault(key, len(_pt))


def spec_for(op, a, b, s, ex, twin=False):
    one, zero = tm.num(1), tm.num(0)
    if op == "toktimes": return a * b
    if op == "tokdiv": return tm.ite(tm.not_(tm.eq(b, zero)), a / b, zero)
    if op == "tokmod":
        absa = tm.ite(tm.lt(a, zero), tm.neg(a), a)
        return tm.ite(tm.not_(tm.eq(a, zero)), absa / a * tm.app("fmod", (absa + tm.Q("1e-14"), b), "R"), zero)
    if op == "tokplus": return a + b if not twin else a - b
    if op == "tokminus": return a - b
    rel = {"tokeq": tm.eq(a, b), "toklt": tm.lt(a, b), "tokgt": tm.lt(b, a), "tokle": tm.le(a, b), "tokge": tm.le(b, a), "tokne": tm.not_(tm.eq(a, b))}
    if op in rel:
        return tm.ite(rel[op], one, zero)
    ta, tb = tm.to_int(a), tm.to_int(b)
    if op == "tokand": return tm.to_real(tm.app("bitand", (ta, tb), "I"))
    if op == "tokor": return tm.to_real(tm.app("bitor", (ta, tb), "I"))
    if op == "tokxor": return tm.to_real(tm.app("bitxor", (ta, tb), "I"))
    if op == "tokup":
        E = lambda x: tm.app("exp", (b * tm.app("log", (x,), "R"),), "R")
        odd = tm.eq(tm.app("emod2", (tm.to_int(b),), "I"), tm.num(1, "I"))
        return tm.ite(tm.lt(zero, a), E(a), tm.ite(tm.eq(a, zero), a, tm.ite(odd, tm.neg(E(tm.neg(a))), E(tm.neg(a)))))
    return None


def case_region(fn, label):
    """statements of `case <label>:` in the switch of fn up to (not including) its break"""
    for sw in [x for x in A.walk(fn) if x.get("kind") == "SwitchStmt"]:
        body = sw["inner"][-1]
        sib = body.get("inner", [])
        for i, c in enumerate(sib):
            if c.get("kind") != "CaseStmt":
                continue
            names = [y.get("referencedDecl", {}).get("name") for y in A.walk(c["inner"][0]) if y.get("kind") == "DeclRefExpr"]
            if label in names:
                first = c["inner"][-1]
                while first.get("kind") == "CaseStmt":
                    first = first["inner"][-1]
                out = [first]
                for nxt in sib[i + 1:]:
                    if nxt.get("kind") in ("BreakStmt", "CaseStmt", "DefaultStmt"):
                        break
                    out.append(nxt)
                # a case that only prints the token name (the LIST command's switch) is not the evaluator's
                if len(out) >= 3:
                    return out
    return None


def unit_string_builtin_preconditions(twin=False):
    """BASIC string built-ins evaluated in PBasic::factor: every std::string operation with a throwing precondition is called
    within it (MID$: substr(pos, n) needs pos <= size()), so that no std::out_of_range escapes the interpreter."""
    fn0 = A.find_function(PB, "PBasic::factor")
    r = U.new_unit("C17.factor.string_builtin_preconditions", PB, "PBasic::factor", fn0)
    ev = token_values()
    for label in ("tokmid_",):
        ctx = mkctx(ev)
        ctx.functional.update({"strlen"})
        class Sel(object):
            whole_function = True
            def __call__(self, stmts):
                raise TypeError
            def pick(self, fn):
                return case_region(fn, label)
        fn, ex, finals, info = U.run_region(PB, "PBasic::factor", Sel(), ctx=ctx)
        n = 0
        for k, (what, pc, ob) in enumerate(ctx.stl.side):
            n += 1
            # strlen non-negative; the string object was constructed from n.UU.sval
            hy = list(pc) + [tm.le(tm.num(0, "I"), t) for t in tm.subterms(ob) if t.op == "app" and t.args[0] in ("strlen", "call:strlen")]
            U.discharge_valid(r, "%s.%s#%d" % (label, what.replace(" ", "_"), k), hy, ob if not twin else tm.TRUE, kind="safety")
        r.add("%s.reach" % label, DISCHARGED if n >= 1 else UNDECIDED, "symex", 0, "%d throwing-precondition sites" % n, kind="vacuity")
    r.assumptions += ["intexpr/strexpr return arbitrary values (their own evaluation is not under this contract)", "std::string model: substr throws unless pos <= size()"]
    return r


def units(tier):
    us = []
    for f in LEVELS:
        def g(f=f):
            r = unit_level(f)
            if not any(o.status == FAILED for o in r.obligations):
                U.must_fail_twin(r, "vacuity.must_fail_twin", lambda: unit_level(f, twin=True))
            return r
        us.append(("C17.expr." + f, g))
    us.append(("C17.factor.string_builtin_preconditions", unit_string_builtin_preconditions))
    from props import c17_hosts as HS
    from props.common import wrap as _wrapH
    _wrapH(us, "C17.basic_hosts.result_is_what_this_run_SAVEd", HS.unit_hosts)
    from props import c17_control as CT
    from props.common import wrap as _wrap
    _wrap(us, "C17.cmdnext.continues_the_FOR_of_its_variable", CT.unit_cmdnext)
    _wrap(us, "C17.clearvar.scalar_reset_to_zero_or_empty", CT.unit_clearvar)
    _wrap(us, "C17.relexpr.string_operands_follow_strcmp", CT.unit_string_comparison)
    _wrap(us, "C17.findvar.subscripts_in_range_and_row_major", CT.unit_findvar_subscripts)
    _wrap(us, "C17.cmdrestore.data_pointer_moves_with_the_data_line", CT.unit_cmdrestore)
    _wrap(us, "C17.factor.scalar_readouts_return_the_quantity_they_name", CT.unit_scalar_readouts)
    return us


def run(tier, seed, only, jobs):
    t0 = time.time()
    U.TIER.update(tier=tier, seed=seed)
    us = units(tier)
    from props.common import ext_units as _ext
    us += _ext("C17")
    if only:
        us = [x for x in us if only in x[0]]
    res = core.run_units(us, jobs=jobs)
    return core.finish(PID, tier, seed, "proof", res, t0,
        checker_cmd="astvc: clang AST of PBasic.cpp -> isolated loop iteration of each expression level, executed for every token kind (dispatch) and symbolically for all operand values (semantics) -> z3 5.1",
        trusted_base=["clang 14 AST", "astvc (vf/astvc)", "z3 5.1"],
        assumptions=["doubles as reals"],
        explanation="Operator dispatch and arithmetic/relational/logical semantics of the expression evaluators; tokenizer, statements, built-in functions, string operators and hosts are not decided.")
