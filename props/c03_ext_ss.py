"""C03 ext: solid-solution component equations.
build_ss_assemblage: f = log K - sum coef*la + log10(mole fraction) + log10(lambda)  (f = 0 <=> IAP = K * lambda * x: activity of the component in
the solid is lambda times its mole fraction).
ss_binary: mole fractions n_i / n_tot; Guggenheim two-parameter activity coefficients ln lambda_c = x_b^2 (a0 - a1 (3 x_c - x_b)),
ln lambda_b = x_c^2 (a0 + a1 (3 x_b - x_c)); inside a miscibility gap the composition is pinned to the gap boundary (xb1, 1 - xb1)."""
from props.c01_ext_util import *

PREP = "src/phreeqcpp/prep.cpp"
MODEL = "src/phreeqcpp/model.cpp"


def unit_build_ss_equation(twin=False):
    q = "Phreeqc::build_ss_assemblage"
    fn = A.find_function(PREP, q)
    r = U.new_unit("C03.build_ss_assemblage.component_equation_logK-logIAP+log_x+log_lambda", PREP, q, fn)
    k0 = the_loop(fn, PREP, "store_mb(", innermost=False, what="loop over the unknowns")      # the outermost loop that files terms of the equation
    c = ctx(functional=("Get_a0", "Get_a1", "Get_ss_comps", "size", "strcmp"))
    f, ex, its, info = run_iter(PREP, q, k0, c)
    SSM = int(hdr_val("SS_MOLES"))
    n = 0
    for s in lives(its, ("run", "cont")):
        sm = events(s, "store_mb")
        i = [v for v in index_of(s) if v is tm.sym("iter_i", "I")] or index_of(s)
        xi = vec_elem(ex, s, "x", i[0])
        if not sm:
            # no equation: only for unknowns that are not solid-solution components, or a phase without a model reaction
            ph = fld0(ex, s, "phase", "P", xi)
            tsz = tm.select(entry_arr(ex, s, ("f", "#vsize", "I")), tm.app("fld:token", (tm.app("fld:rxn_x", (ph,), "P"),), "P"))
            valid(r, "no_equation.only_for_other_unknowns_or_a_phase_without_reaction", list(s.pc), tm.or_(tm.not_(tm.eq(fld0(ex, s, "type", "I", xi), I(SSM))), tm.eq(tsz, I(0)))) if n < 50 else None
            continue
        n += 1
        if n > 1:
            continue            # the constant terms are the same on every path that builds the equation
        valid(r, "equation.only_for_solid_solution_component_unknowns", list(s.pc), tm.eq(fld0(ex, s, "type", "I", xi), I(SSM)))
        ph = fld0(ex, s, "phase", "P", xi)
        fx = tm.app("fld:f", (xi,), "P")
        terms = [(e.args[0], e.args[1], e.args[2]) for e in sm]
        def has(fieldname, coefv):
            src_ = tm.app("fld:" + fieldname, (ph,), "P")
            return any(a is src_ and b is fx and tm.isnum(c_) and c_.args[0] == coefv for a, b, c_ in terms)
        put(r, "equation.+logK_of_the_component's_phase", has("lk", 1), repr(terms)[:300], kind="trace")
        put(r, "equation.+log10_mole_fraction_of_the_component", has("log10_fraction_x", 1 if not twin else -1), repr(terms)[:300], kind="trace")
        put(r, "equation.+log10_activity_coefficient_of_the_component", has("log10_lambda", 1), repr(terms)[:300], kind="trace")
        put(r, "equation.only_these_three_constant_terms_into_f", len(terms) == 3, "%d" % len(terms), kind="frame")
    put(r, "reach.component_rows", n >= 1, "%d" % n, kind="vacuity", undecided=True)
    # the activity-product walk: - coef * la of every token from token 1 of rxn_x
    kw = [k for k in loops_with_body(fn, PREP, "store_mb(") if k != k0]
    if len(kw) != 1:
        raise Undecided("activity-product walk of build_ss_assemblage not found (%d)" % len(kw))
    f, ex, its, info = run_iter(PREP, q, kw[0], ctx())
    m = 0
    for s in lives(its, ("run", "cont")):
        sm = events(s, "store_mb")
        m += 1
        rp = tm.sym("iter_rxn_ptr", "P")
        xi = vec_elem(ex, s, "x", local(info, s, "i"))
        ok = len(sm) == 1 and sm[0].args[0] is tm.app("fld:la", (fld0(ex, s, "s", "P", rp),), "P") and sm[0].args[1] is tm.app("fld:f", (xi,), "P")
        put(r, "walk.term_is_log_activity_of_the_token's_species_into_f_of_the_same_unknown", ok, repr([e.args for e in sm])[:200], kind="trace")
        if ok:
            eqr(r, "walk.coefficient==-coef", list(s.pc), sm[0].args[2], tm.neg(fld0(ex, s, "coef", "R", rp)))
        b = [p for p in s.pc if rp in tm.subterms(p)]
        valid(r, "walk.ends_at_the_null_species", [], tm.eq(tm.to_bool(b[0]) if b else tm.FALSE, nonnull(fld0(ex, s, "s", "P", rp))), kind="establishment")
    put(r, "reach.walk", m >= 1, "%d" % m, kind="vacuity", undecided=True)
    f2, ex2, fin2, info2 = region(PREP, q, [loops_of(fn)[kw[0]]["inner"][0]])
    for t in lives(fin2)[:1]:
        v = local(info2, t, "rxn_ptr")
        xi = vec_elem(ex2, t, "x", tm.sym("L_i", "I"))
        want = tm.select(entry_arr(ex2, t, ("f", "#vdata", "P")), tm.app("fld:token", (tm.app("fld:rxn_x", (fld0(ex2, t, "phase", "P", xi),), "P"),), "P")) + I(1)
        valid(r, "walk.starts_at_token_1_of_rxn_x_of_THE_unknown's_phase", list(t.pc), tm.eq(v, want), kind="establishment")
    drop_head(q, kw[0])
    r.assumptions += ["store_mb(source, target, c) makes mb_sums add c*source to target (C01.store_mb, C01.mb_sums)", "log10_fraction_x / log10_lambda of the phase are set by ss_binary / ss_ideal / calc_ss_fractions",
                      "Jacobian and element-balance parts: C03.build_reactants.transfer_enters_jacobian_and_element_delta_alike"]
    return r


def hdr_val(name):
    from vf.astvc import hdr
    return hdr.define_value("src/phreeqcpp/global_structures.h", name)


def unit_ss_binary(twin=False):
    q = "Phreeqc::ss_binary"
    fn = A.find_function(MODEL, q)
    r = U.new_unit("C03.ss_binary.mole_fractions_and_Guggenheim_activity_coefficients", MODEL, q, fn)
    c = ctx(functional=("Get_total_moles", "Get_ss_comps", "Get_name", "phase_bsearch", "Get_moles", "Get_a0", "Get_a1", "Get_miscibility", "Get_xb1", "Get_xb2", "c_str", "log10",
                        "Get_log10_fraction_x", "Get_log10_lambda"))
    f, ex, fin, info = U.run_function(MODEL, q, ctx=c)
    ssp = tm.sym("P0_ss_ptr", "P")
    comps = tm.app("call:Get_ss_comps", (ssp,), "P")
    seen = set()
    for s in lives(fin, ("ret",)):
        hy = list(s.pc)
        cd = tm.select(entry_arr(ex, s, ("f", "#vdata", "P")), comps)
        c0, c1 = cd, cd + I(1)
        ntot = tm.app("call:Get_total_moles", (ssp,), "R")
        nc = tm.app("call:Get_moles", (c0,), "R"); nb = tm.app("call:Get_moles", (c1,), "R")
        a0 = tm.app("call:Get_a0", (ssp,), "R"); a1 = tm.app("call:Get_a1", (ssp,), "R")
        ln10 = fld0(ex, s, "LOG_10", "R")
        xb1 = tm.app("call:Get_xb1", (ssp,), "R"); xb2 = tm.app("call:Get_xb2", (ssp,), "R")
        xb_ = nb / ntot; xc_ = nc / ntot
        gap = tm.and_(tm.to_bool(tm.app("call:Get_miscibility", (ssp,), "B")), tm.lt(xb1, xb_), tm.lt(xb_, xb2))
        evs = s.events
        def setv(comp, setter):
            es = [e for e in evs if e.name.endswith(setter) and e.recv is comp]
            return es[-1].args[0] if es else None
        for hc, ingap in cases(hy, gap):
            seen.add("gap" if ingap else "free")
            tag = "gap" if ingap else "free"
            xb = xb1 if ingap else xb_
            xc = (tm.num(1) - xb1) if ingap else xc_
            for comp, nm, x in ((c0, "c", xc), (c1, "b", xb)):
                fx = setv(comp, "Set_fraction_x"); lfx = setv(comp, "Set_log10_fraction_x")
                if not put(r, "%s.component_%s.fraction_set" % (tag, nm), fx is not None and lfx is not None, "", kind="trace"):
                    continue
                eqr(r, "%s.component_%s.mole_fraction" % (tag, nm), hc, fx, x if not (twin and nm == "b") else x * tm.num(2))
                put(r, "%s.component_%s.log10_fraction_is_log10_of_that_fraction" % (tag, nm), lfx.op == "app" and "log10" in str(lfx.args[0]) and B.sympy_equal(lfx.args[-1], x)[0], repr(lfx)[:120])
            l0 = setv(c0, "Set_log10_lambda"); l1 = setv(c1, "Set_log10_lambda")
            if put(r, "%s.activity_coefficients_set" % tag, l0 is not None and l1 is not None, "", kind="trace"):
                one = tm.num(1)
                eqr(r, "%s.ln_lambda_c==x_b^2(a0-a1(3x_c-x_b))[x_c=1-x_b in the bracket]" % tag, hc, l0 * ln10, xb * xb * (a0 - a1 * (tm.num(3) * (one - xb) - xb)))
                eqr(r, "%s.ln_lambda_b==x_c^2(a0+a1(3x_b-x_c))[x_c=1-x_b in the bracket]" % tag, hc, l1 * ln10, xc * xc * (a0 + a1 * (tm.num(3) * xb - (one - xb))))
            if ingap:
                eqr(r, "gap.fractions_sum_to_one", hc, setv(c0, "Set_fraction_x") + setv(c1, "Set_fraction_x"), tm.num(1))
            else:
                eqr(r, "free.fractions_sum_to_(n_c+n_b)/n_tot", hc + [tm.not_(tm.eq(ntot, tm.num(0)))], (setv(c0, "Set_fraction_x") + setv(c1, "Set_fraction_x")) * ntot, nc + nb)
            # the phase records used by the equations mirror the component records
            pbs = [e for e in evs if e.name.endswith("phase_bsearch")]
            for comp, nm in ((c0, "c"), (c1, "b")):
                nmv = tm.app("c_str", (tm.select(entry_arr(ex, s, ("m", "S")), tm.app("call:Get_name", (comp,), "P"), I(0)),), "P")
                ph = [e.result for e in pbs if e.args[0] is nmv]
                if not put(r, "%s.component_%s.phase_looked_up_by_the_component's_name" % (tag, nm), len(ph) == 1, repr([e.args[0] for e in pbs])[:200], kind="trace"):
                    continue
                for fieldname, getter in (("log10_fraction_x", "Get_log10_fraction_x"), ("log10_lambda", "Get_log10_lambda")):
                    cur = tm.select(ex.heap_arr(s, ("f", fieldname, "R")), ph[0])
                    valid(r, "%s.component_%s.phase_%s_mirrors_the_component" % (tag, nm, fieldname), hc + [tm.not_(tm.eq(ph[0], [e.result for e in pbs if e.result is not ph[0]][0]))] if len(pbs) == 2 else hc, tm.eq(cur, tm.app("call:" + getter, (comp,), "R")))
    put(r, "reach.gap_and_free", seen == {"gap", "free"}, repr(sorted(seen)), kind="vacuity", undecided=True)
    r.assumptions += ["n_tot = n_c + n_b is computed by calc_ss_fractions / Get_total_moles (C03.calc_ss_fractions): with it the free fractions sum to one", "cxxSScomp / cxxSS getters and setters are plain accessors; Get_x() after Set_x(v) returns v",
                      "the Jacobian terms dnb / dnc are not under contract", "log10 uninterpreted; LOG_10 = ln 10; doubles as reals"]
    return r


UNITS = [
    ("C03.build_ss_assemblage.component_equation_logK-logIAP+log_x+log_lambda", unit_build_ss_equation),
    ("C03.ss_binary.mole_fractions_and_Guggenheim_activity_coefficients", unit_ss_binary),
]
