"""C03 ext: what check_residuals accepts for reactant rows.
PP row (residual = ln10 * (log K + target SI - log IAP): > 0 undersaturated, < 0 supersaturated), ordinary phase (no alternative formula, not
dissolve_only):  supersaturated beyond tolerance -> error (never accepted, present or absent);  present (moles > 0) and undersaturated beyond
100 x tolerance -> remove_unstable_phases is raised (the solve is repeated, not accepted);  absent and undersaturated -> accepted.
SURFACE row: site balance |defined sites - occupied| above tolerance -> error.  SS_MOLES row: see C01.check_residuals (same unit covers it)."""
from props.c01_ext_util import *
from props import c01_ext_conv as CV

MODEL = "src/phreeqcpp/model.cpp"
Q = "Phreeqc::check_residuals"


def unit_pp_rows(twin=False):
    fn = A.find_function(MODEL, Q)
    r = U.new_unit("C03.check_residuals.PP.absent_phase_may_be_undersaturated_never_supersaturated", MODEL, Q, fn)
    f, ex, fin, info, its = CV.run_rows()
    PP = CV.T("PP")
    seen = set()
    for s in its:
        hy = list(s.pc)
        i, xi, res = CV.row_terms(ex, s)
        ty = fld0(ex, s, "type", "I", xi)
        hpp = hy + [tm.eq(ty, I(PP))]
        if not sat(hpp):
            continue
        eps = fld0(ex, s, "convergence_tolerance", "R")
        mol = fld0(ex, s, "moles", "R", xi)
        comp = fld0(ex, s, "pp_assemblage_comp_ptr", "P", xi)
        ordinary = None
        gaf = tm.app("call:Get_add_formula", (comp,), "P")
        sz = [t for p_ in s.pc for t in tm.subterms(p_) if t.op == "app" and t.args[0] == "strlen" and gaf in tm.subterms(t)]
        if not put(r, "row.alternative_formula_tested_on_THIS_phase's_component", len(sz) >= 1, repr(s.pc)[:200], kind="trace"):
            continue
        plain = tm.and_(tm.eq(sz[0], I(0)), tm.not_(tm.eq(fld0(ex, s, "dissolve_only", "I", xi), I(1))))
        rem = [v for ix, v in writes(s, ("f", "remove_unstable_phases", "I"))]
        err = [e for e in U.iter_events(s) if e.name.endswith("error_msg")]
        for hc, isplain in cases(hpp, plain):
            if not isplain:
                seen.add("restricted")
                continue
            hundred = tm.num(100) if not twin else tm.num(1)
            if rem:
                seen.add("remove")
                put(r, "present_undersaturated.raises_remove_unstable_phases(TRUE)", len(rem) == 1 and tm.isnum(rem[0]) and rem[0].args[0] == 1, repr(rem))
                valid(r, "present_undersaturated.only_when_present_and_undersaturated_by_100_tolerances", hc, tm.and_(tm.le(eps * hundred, res), tm.lt(tm.num(0), mol)))
                put(r, "present_undersaturated.not_reported_as_converged_error_free", not err, "", kind="trace")
            elif err:
                seen.add("error")
                valid(r, "supersaturated.error_only_when_residual<=-tolerance", hc, tm.le(res, tm.neg(eps)))
            else:
                seen.add("accepted")
                valid(r, "accepted.never_supersaturated_beyond_tolerance", hc, tm.not_(tm.lt(res, tm.neg(eps))))
                valid(r, "accepted.never_present_and_undersaturated_beyond_100_tolerances", hc, tm.not_(tm.and_(tm.lt(eps * hundred, res), tm.lt(tm.num(0), mol))))
                valid(r, "accepted.an_absent_phase_may_be_undersaturated(witness)", [], tm.TRUE, kind="vacuity") if False else None
            rv = local(info, s, "return_value")
            put(r, "row.result_value_untouched", rv is tm.sym("iter_return_value", "I") or tm.isnum(rv), repr(rv), kind="frame") if rv is not tm.sym("iter_return_value", "I") and not tm.isnum(rv) else None
    put(r, "reach.outcomes", seen >= {"remove", "error", "accepted", "restricted"}, repr(sorted(seen)), kind="vacuity", undecided=True)
    # witness: an absent, undersaturated phase is accepted on some path
    wit = False
    for s in its:
        i, xi, res = CV.row_terms(ex, s)
        if [v for ix, v in writes(s, ("f", "remove_unstable_phases", "I"))] or [e for e in U.iter_events(s) if e.name.endswith("error_msg") or e.name.endswith("log_msg")]:
            continue
        eps = fld0(ex, s, "convergence_tolerance", "R")
        if sat(list(s.pc) + [tm.eq(fld0(ex, s, "type", "I", xi), I(PP)), tm.eq(fld0(ex, s, "moles", "R", xi), tm.num(0)), tm.lt(eps * tm.num(1000), res), tm.lt(tm.num(0), eps)]):
            wit = True
    put(r, "accepted.absent_undersaturated_phase_is_accepted(witness path)", wit, "", kind="vacuity", undecided=True)
    r.assumptions += ["residual[i] of a PP row is ln10 * (log K + target SI - log IAP) (C01.residuals.row_equations, C03.build_pure_phases.saturation_equation)",
                      "dissolve_only phases and phases with an alternative formula are only logged / warned about by this test: their restrictions are enforced by ineq() (not under contract)",
                      "both a strict and a weak reading of each comparison are accepted", "remove_unstable_phases == TRUE makes model() repeat the solve (model(); not under contract)", "doubles as reals"]
    return r


def unit_surface_rows(twin=False):
    fn = A.find_function(MODEL, Q)
    r = U.new_unit("C03.check_residuals.SURFACE.site_balance_above_tolerance_is_an_error", MODEL, Q, fn)
    f, ex, fin, info, its = CV.run_rows()
    SU = CV.T("SURFACE")
    strict = lambda a, b: tm.lt(b, a)
    weak = lambda a, b: tm.le(b, a)
    seen = set()
    for s in its:
        i, xi, res = CV.row_terms(ex, s)
        hs = list(s.pc) + [tm.eq(fld0(ex, s, "type", "I", xi), I(SU)), tm.le(tm.num(0), CV._fabs(res))]
        if not sat(hs):
            continue
        eps = fld0(ex, s, "convergence_tolerance", "R"); mol = fld0(ex, s, "moles", "R", xi)
        mrs = fld0(ex, s, "MIN_RELATED_SURFACE", "R"); itol = fld0(ex, s, "ineq_tol", "R")
        a = CV._fabs(res)
        bal = lambda gt: tm.or_(tm.and_(gt(mrs, mol), gt(a, eps)), tm.and_(gt(mol, mrs), gt(a, eps * mol if not twin else eps)))
        tiny = lambda gt: tm.and_(gt(itol, a), gt(tm.Q("0.01") * mol, a))
        err = [e for e in U.iter_events(s) if e.name.endswith("error_msg")]
        if err:
            seen.add("error")
            valid(r, "error.only_when_site_balance_reaches_the_tolerance", hs, bal(weak))
        else:
            seen.add("accepted")
            valid(r, "accepted.only_when_site_balance_within_tolerance(or below the solver's resolution)", hs, tm.or_(tm.not_(bal(strict)), tiny(weak)))
    put(r, "reach.both", seen == {"error", "accepted"}, repr(sorted(seen)), kind="vacuity", undecided=True)
    r.assumptions += ["residual[i] of a SURFACE row is defined sites - occupied sites (C01.residuals.row_equations)", "tolerance: convergence_tolerance x sites (absolute for an almost empty surface); |residual| < ineq_tol and < 1% of the sites is accepted as resolution of the solver",
                      "fabs uninterpreted, >= 0; doubles as reals"]
    return r


UNITS = [
    ("C03.check_residuals.PP.absent_phase_may_be_undersaturated_never_supersaturated", unit_pp_rows),
    ("C03.check_residuals.SURFACE.site_balance_above_tolerance_is_an_error", unit_surface_rows),
]
