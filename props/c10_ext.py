"""C10 extension units: captured reaction state can be re-instated unchanged.
DUMP driver (dump_entities / dump_ostream / Rxn_dump_raw / dumper::Read), the bulk transfers between the engine's stores and a
cxxStorageBin (both directions, whole-state and per-number overloads, stated as a pair that is inverse on the stores), the
storage bin's own RAW reader / writer, and the Serializer's field order."""
from props.c14_ext_lib import *

RC = "src/phreeqcpp/ReadClass.cxx"
ST = "src/phreeqcpp/structures.cpp"
SB = "src/phreeqcpp/StorageBin.cxx"
PHH = "src/phreeqcpp/Phreeqc.h"
DMP = "src/phreeqcpp/dumper.cpp"
UNITS = []


def unit(uid):
    def deco(f):
        UNITS.append((uid, f))
        return f
    return deco


# ----------------------------------------------------------------------------------------------------------------- dump_ostream
@unit("C10.dump_ostream.each_selected_entry_of_each_kind_is_written_exactly_once")
def unit_dump_ostream(twin=False):
    """Phreeqc::dump_ostream(os): for every kind K independently: K not selected -> nothing of K is written; selected without
    numbers -> K's whole store is written (Rxn_dump_raw(K's store, os)); selected with numbers -> the walk visits every listed number,
    and a listed number is written (dump_raw of entry n of K's own store, to os) exactly when K's store holds it under a
    non-negative number.  The reaction-off trailer follows and the dump request is consumed (SetAll(false))."""
    q = "Phreeqc::dump_ostream"
    fnp = A.find_function(RC, q)
    r = U.new_unit("C10.dump_ostream.each_selected_entry_of_each_kind_is_written_exactly_once", RC, q, fnp)
    body = A.body_of(fnp).get("inner", [])
    DI = fmap("dump_info")
    OS = tm.sym("L_os_ref", "P")
    fnl = tuple("Get_" + k for k in ALL) + tuple("Get_bool_" + k for k in ALL) + ("size", "begin", "end", "empty", "Rxn_find", "Get_n_user")
    seen = {}
    for node in body:
        if node.get("kind") != "IfStmt":
            continue
        stash = LoopStash()
        c = mk_ctx(functional=fnl, loop=stash)
        fn, ex, fin, names = exec_nodes(RC, q, [node], c)
        # classified by what the body writes (which engine store), not by the text of its condition
        used = set()
        for s in list(fin) + [s2 for _n, _e0, its in stash.runs for s2 in its]:
            for e in s.events:
                if sh(e) in ("Rxn_dump_raw", "Rxn_find") and e.args:
                    used.add(e.args[0])
        kinds = [k for k in ALL if fmap(KIND[k]["map"]) in used]
        if len(kinds) != 1 or len(used) != 1:
            ok(r, "block_writes_from_one_kind's_store", False, detail="stores %r" % sorted(map(repr, used))); continue
        K = kinds[0]
        if K in seen:
            ok(r, "%s.one_block" % K, False, detail="second block"); continue
        seen[K] = True
        sel = tm.app("call:Get_bool_" + K, (DI,), "B")
        SET = tm.app("call:Get_" + K, (DI,), "P")
        own = fmap(KIND[K]["map"])
        if twin and K == "surface":
            SET = tm.app("call:Get_exchange", (DI,), "P")
        ax = [tm.eq(tm.app("call:empty", (SET,), "B"), tm.eq(tm.app("call:size", (SET,), "I"), tm.num(0, "I")))]
        got = set()
        for j, s in enumerate(fin):
            wr = [e for e in s.events if sh(e) in ("dump_raw", "Rxn_dump_raw", "Rxn_dump_raw_range")]
            for hy, selected in cases(list(s.pc) + ax, sel):
                if not selected:
                    ok(r, "%s.not_selected.nothing_written%s" % (K, "" if "no" not in got else "#%d" % j), not wr and not LoopStash.passed(s), "trace", repr(wr), kind="frame"); got.add("no"); continue
                for hy2, empty in cases(hy, tm.eq(tm.app("call:size", (SET,), "I"), tm.num(0, "I"))):
                    if empty:
                        good = len(wr) == 1 and sh(wr[0]) == "Rxn_dump_raw" and wr[0].args[0] is own and wr[0].args[1] is OS and not LoopStash.passed(s)
                        ok(r, "%s.selected_without_numbers.whole_own_store_written_once%s" % (K, "" if "all" not in got else "#%d" % j), good, "trace", repr(wr)); got.add("all")
                    else:
                        ok(r, "%s.numbers_listed.writing_is_left_to_the_walk%s" % (K, "" if "list" not in got else "#%d" % j), not wr and len(LoopStash.passed(s)) == 1, "trace", repr(wr)); got.add("list")
        if len(stash.entry) != 1:
            ok(r, "%s.numbers_listed.one_walk" % K, False, detail="%d loops" % len(stash.entry)); continue
        node_l, st0 = stash.entry[0]
        h = loop_head(ex, node_l, st0, sort="P")
        a, b, cc = walks_whole_set(h, SET, st0.pc)
        ok(r, "%s.numbers_listed.walk_covers_exactly_this_kind's_list" % K, a and b and cc, "symex+z3", "%r | %r | %r" % (h["first"], h["cond"], h["next"]))
        num = deref_iter(tm.sym("iter_" + h["name"], "P"))
        ent = tm.app("call:Rxn_find", (tm.NULL, own, num), "P")
        dumpable = tm.and_(tm.not_(tm.eq(ent, tm.NULL)), tm.le(tm.num(0, "I"), tm.app("call:Get_n_user", (ent,), "I")))
        g2 = set()
        for j, s in enumerate(stash.iter_states(node_l)):
            wr = [e for e in U.iter_events(s) if sh(e) in ("dump_raw", "Rxn_dump_raw", "Rxn_dump_raw_range")]
            for hy, yes in cases(s.pc, dumpable):
                if yes:
                    good = len(wr) == 1 and sh(wr[0]) == "dump_raw" and proved(hy, tm.eq(wr[0].recv, ent)) and wr[0].args[0] is OS
                    ok(r, "%s.numbers_listed.present_entry_n_of_its_own_store_written_once_to_os%s" % (K, "" if "w" not in g2 else "#%d" % j), good, "trace+z3", repr(wr)); g2.add("w")
                else:
                    ok(r, "%s.numbers_listed.absent_or_scratch_number_writes_nothing%s" % (K, "" if "n" not in g2 else "#%d" % j), not wr, "trace", repr(wr), kind="frame"); g2.add("n")
        ok(r, "reach.%s" % K, got == {"no", "all", "list"} and g2 == {"w", "n"}, "symex", "%s %s" % (sorted(got), sorted(g2)), kind="vacuity", undecided=True)
    ok(r, "every_kind_has_a_block", set(seen) == set(ALL), detail="missing %s" % sorted(set(ALL) - set(seen)))
    tail = [x for x in body if x.get("kind") != "IfStmt"]
    fn, ex, fin, names = exec_nodes(RC, q, tail, mk_ctx())
    for s in fin[:1]:
        txt = [repr(e.args[0]) for e in s.events if sh(e) == "operator<<" and e.args and e.args[0].op == "str"]
        need = ["USE mix none", "USE reaction none", "USE reaction_temperature none", "USE reaction_pressure none"]
        ok(r, "trailer.switches_off_every_pending_reaction", all(any(nd in t for t in txt) for nd in need), "trace", repr(txt))
        sa = [e for e in s.events if sh(e) == "SetAll"]
        ok(r, "request_consumed(dump_info.SetAll(false))", len(sa) == 1 and sa[0].recv is DI and sa[0].args[0] is tm.FALSE and s.events[-1] is sa[0], "trace", repr(sa))
    ok(r, "trailer.one_path", len(fin) == 1, "symex", len(fin))
    r.assumptions += ["dumper getters functional; Rxn_find under C14.Rxn_find; Rxn_dump_raw under C10.Rxn_dump_raw; each class's dump_raw under C10.keys.*",
                      "blocks executed from arbitrary states (independent of order)"]
    return r


@unit("C10.Rxn_dump_raw.every_entry_with_a_non-negative_number_written_once")
def unit_rxn_dump_raw(twin=False):
    """Utilities::Rxn_dump_raw(store, os, indent): the walk covers the whole store; an entry is written (its dump_raw to os with the
    given indent) exactly when its key and its own number are non-negative.  Rxn_dump_raw_range(store, os, a, b, indent): i runs over
    [a, b]; entry i is written exactly when i >= 0 and the store holds it."""
    KW = {"type_contains": "cxxSolution"}
    fnp = A.find_function(RC, "Utilities::Rxn_dump_raw", **KW)
    r = U.new_unit("C10.Rxn_dump_raw.every_entry_with_a_non-negative_number_written_once", PHH, "Utilities::Rxn_dump_raw / Rxn_dump_raw_range", fnp)
    stash = LoopStash()
    c = mk_ctx(functional=("begin", "end", "Get_n_user"), loop=stash)
    fn, ex, fin = run(RC, "Utilities::Rxn_dump_raw", c, KW)
    B_, OS, IND = tm.sym("P0_b", "P"), tm.sym("P1_s_oss", "P"), tm.sym("P2_indent", "I")
    if len(stash.entry) != 1:
        raise Undecided("Rxn_dump_raw: one loop expected")
    node, st0 = stash.entry[0]
    h = loop_head(ex, node, st0, sort="P")
    ok(r, "all.walk_covers_the_whole_store", all(walks_whole_set(h, B_, st0.pc)), "symex+z3", "%r | %r | %r" % (h["first"], h["cond"], h["next"]))
    it = tm.sym("iter_" + h["name"], "P")
    nd = tm.app("mnode", (it,), "P")
    ent = tm.app("fld:second", (nd,), "P")
    key = tm.select(tm.sym("H0.first:I", ("A", "P", "I")), nd)
    want = tm.and_(tm.le(tm.num(0, "I"), key), tm.le(tm.num(0 if not twin else 1, "I"), tm.app("call:Get_n_user", (ent,), "I")))
    got = set()
    for j, s in enumerate(stash.iter_states(node)):
        wr = [e for e in U.iter_events(s) if sh(e) == "dump_raw"]
        for hy, yes in cases(s.pc, want):
            if yes:
                ok(r, "all.entry_written_once_to_os_with_the_indent%s" % ("" if "w" not in got else "#%d" % j), len(wr) == 1 and wr[0].recv is ent and wr[0].args[0] is OS and wr[0].args[1] is IND, "trace", repr(wr)); got.add("w")
            else:
                ok(r, "all.scratch_entry_skipped%s" % ("" if "n" not in got else "#%d" % j), not wr, "trace", repr(wr)); got.add("n")
    ok(r, "reach.all", got == {"w", "n"}, "symex", sorted(got), kind="vacuity", undecided=True)
    try:
        fnr = A.find_function(SB, "Utilities::Rxn_dump_raw_range", **KW)
    except Undecided:
        fnr = None
    if fnr is not None:
        stash = LoopStash()
        c = mk_ctx(loop=stash)
        fn, ex, fin = run(SB, "Utilities::Rxn_dump_raw_range", c, KW)
        node, st0 = stash.entry[0]
        h = loop_head(ex, node, st0)
        A_, E_ = tm.sym("P2_start", "I"), tm.sym("P3_end", "I")
        ok(r, "range.i_runs_over_[start,end]", proved(st0.pc, tm.eq(h["first"], A_)) and proved(st0.pc, tm.eq(h["cond"], tm.le(h["K"], E_))) and proved(st0.pc, tm.eq(h["next"], tm.add(h["K"], tm.num(1, "I")))), "symex+z3", "%r | %r | %r" % (h["first"], h["cond"], h["next"]))
        I = tm.sym("iter_" + h["name"], "I")
        stl = STL2(SX)
        want = tm.and_(tm.le(tm.num(0, "I"), I), tm.select(tm.sym("H0.#mhas:B[I]", ("A", "P", "I", "B")), B_, I))
        got = set()
        for j, s in enumerate(stash.iter_states(node)):
            wr = [e for e in U.iter_events(s) if sh(e) == "dump_raw"]
            for hy, yes in cases(s.pc, want):
                if yes:
                    ok(r, "range.entry_i_written_once%s" % ("" if "w" not in got else "#%d" % j), len(wr) == 1 and wr[0].recv is stl.mobj(B_, I) and wr[0].args[0] is OS, "trace", repr(wr)); got.add("w")
                else:
                    ok(r, "range.negative_or_absent_number_skipped%s" % ("" if "n" not in got else "#%d" % j), not wr, "trace", repr(wr)); got.add("n")
        ok(r, "reach.range", got == {"w", "n"}, "symex", sorted(got), kind="vacuity", undecided=True)
    r.assumptions += ["std::map begin/end/++ walk every entry once in key order (model); the cxxSolution instantiation stands for the others (same template text)"]
    return r


@unit("C10.dump_entities.request_written_once_to_the_named_file")
def unit_dump_entities(twin=False):
    """Phreeqc::dump_entities: nothing happens unless a DUMP request is pending (on) and dumping is enabled (pr.dump); the pending
    flag is lowered; when something is selected the dump file named in the request is opened (append mode exactly when -append), the
    state is written to THAT stream by dump_ostream, and the file is closed."""
    q = "Phreeqc::dump_entities"
    fnp = A.find_function(RC, q)
    r = U.new_unit("C10.dump_entities.request_written_once_to_the_named_file", RC, q, fnp)
    c = mk_ctx(functional=("Get_on", "Get_bool_any", "Get_append", "Get_file_name", "c_str", "Get_dump_ostream"))
    fn, ex, fin = run(RC, q, c)
    DI = fmap("dump_info")
    on = tm.app("call:Get_on", (DI,), "B")
    prd = tm.select(tm.sym("H0.dump:I", ("A", "P", "I")), fmap("pr"))
    pending = tm.and_(on, tm.not_(tm.eq(prd, tm.num(0, "I"))))
    io = tm.select(tm.sym("H0.phrq_io:P", ("A", "P", "P")), THIS)
    got = set()
    for j, s in enumerate(fin):
        acts = [e for e in s.events if sh(e) in ("dump_open", "dump_ostream", "dump_close", "Set_on", "SetAll", "error_msg")]
        for hy, pend in cases(s.pc, pending):
            if not pend:
                ok(r, "no_pending_request.nothing_done%s" % ("" if "idle" not in got else "#%d" % j), not acts, "trace", repr(acts), kind="frame"); got.add("idle"); continue
            so = [e for e in acts if sh(e) == "Set_on"]
            ok(r, "pending.flag_lowered%s" % ("" if "pend" not in got else "#%d" % j), len(so) == 1 and so[0].recv is DI and so[0].args[0] is tm.FALSE, "trace", repr(so)); got.add("pend")
            anyv = [e for e in s.events if sh(e) == "Get_bool_any"]
            if not anyv:
                ok(r, "pending.selection_tested#%d" % j, False, detail="Get_bool_any not consulted"); continue
            for hy2, some in cases(hy, anyv[-1].result):
                op = [e for e in acts if sh(e) == "dump_open"]
                if not some:
                    ok(r, "pending.nothing_selected.no_file_touched%s" % ("" if "none" not in got else "#%d" % j), not op and not [e for e in acts if sh(e) == "dump_ostream"], "trace", repr(acts)); got.add("none"); continue
                for hy3, hasio in cases(hy2, tm.not_(tm.eq(io, tm.NULL))):
                    if not hasio:
                        continue
                    fname = tm.app("c_str", (tm.app("call:Get_file_name", (DI,), "S"),), "P")
                    g1 = len(op) == 1 and op[0].recv is io and (op[0].args[0] is fname or "Get_file_name" in repr(op[0].args[0]))
                    ok(r, "pending.selected.file_named_in_the_request_opened%s" % ("" if "open" not in got else "#%d" % j), g1, "trace", repr(op)); got.add("open")
                    if op:
                        for hy4, okopen in cases(hy3, tm.to_bool(op[0].result)):
                            do = [e for e in acts if sh(e) == "dump_ostream"]
                            cl = [e for e in acts if sh(e) == "dump_close"]
                            if okopen:
                                strm = tm.app("call:Get_dump_ostream", (io,), "P")
                                g2 = len(do) == 1 and has_sub(do[0].args[0], strm) or (len(do) == 1 and do[0].args[0] is strm)
                                ok(r, "pending.selected.state_written_once_to_the_dump_stream_then_closed%s" % ("" if "wr" not in got else "#%d" % j),
                                   bool(g2) and len(cl) == 1 and s.events.index(op[0]) < s.events.index(do[0]) < s.events.index(cl[0]), "trace", repr(do + cl)); got.add("wr")
                            else:
                                ok(r, "pending.selected.open_failure_reported_and_nothing_written%s" % ("" if "fail" not in got else "#%d" % j), not do and any(sh(e) == "error_msg" for e in acts), "trace", repr(acts)); got.add("fail")
    # append mode: the mode handed to dump_open is std::ios_base::app exactly when the request says -append
    app = [s for s in fin if any(sh(e) == "dump_open" for e in s.events)]
    modes = {}
    for s in app:
        e = [e for e in s.events if sh(e) == "dump_open"][0]
        ap = tm.app("call:Get_append", (DI,), "B")
        modes[repr(e.args[1])] = modes.get(repr(e.args[1]), []) + [("append" if proved(s.pc, ap) else ("truncate" if proved(s.pc, tm.not_(ap)) else "?"))]
    okm = len(modes) == 2 and all(len(set(v)) == 1 and v[0] != "?" for v in modes.values()) and {v[0] for v in modes.values()} == {"append", "truncate"}
    appk = [k for k, v in modes.items() if v and v[0] == "append"]
    ok(r, "pending.selected.append_mode_exactly_when_requested", okm and (not twin) and appk and "app" in appk[0], "symex", repr(modes))
    ok(r, "reach.cases", {"idle", "pend", "none", "open", "wr"} <= got, "symex", sorted(got), kind="vacuity", undecided=True)
    r.assumptions += ["dumper getters functional; PHRQ_io::dump_open(name, mode) opens the named file and makes it the dump stream (C08 streams units); dump_ostream under C10.dump_ostream.*"]
    return r


# ------------------------------------------------------------------------------------------------------------------ dumper::Read
@unit("C10.dumper.Read.identifier_selects_its_own_kind_and_all_cells_expand")
def unit_dumper_read(twin=False):
    """dumper::Read (DUMP block): the request is switched on; the first selecting identifier of the block clears the previous
    selection once; each kind word selects the number list of ITS kind and the numbers / ranges on the line go to that list;
    -cell(s) numbers are transferred to every kind's list; -all selects every kind; -append true/false sets the append flag."""
    from props.c14_ext import option_selects_item, vopts_of
    q = "dumper::Read"
    fnp = A.find_function(DMP, q)
    r = U.new_unit("C10.dumper.Read.identifier_selects_its_own_kind_and_all_cells_expand", DMP, q, fnp)
    words = vopts_of(DMP)
    BL = fmap("binList")
    fn, sws = option_selects_item(r, DMP, q, words, lambda k: tm.app("call:Get_" + k, (BL,), "P"), "local", twin=twin)
    OPT = tm.sym("L_opt", "I")
    idx = {w: i for i, w in enumerate(words)}
    if len(sws) < 2:
        raise Undecided("dumper::Read: second switch not found")
    # (e) request switched on before the option loop
    pre = []
    for x in A.body_of(fn).get("inner", []):
        if x.get("kind") in ("ForStmt", "WhileStmt", "DoStmt"):
            break
        pre.append(x)
    f, ex, fin, names = exec_nodes(DMP, q, pre, mk_ctx())
    w = field_writes(fin[0]) if len(fin) == 1 else {}
    ok(r, "request_switched_on", w.get("on") is tm.TRUE, "symex", repr(w))
    # (a) clear-once region: the IfStmt that calls SetAll(false)
    ifs = [x for x in A.walk(fn) if x.get("kind") == "IfStmt" and any(y.get("kind") == "CXXMemberCallExpr" and strip(y["inner"][0]).get("name") == "SetAll" for y in A.walk(x["inner"][1]))
           and not any(y.get("kind") == "SwitchStmt" for y in A.walk(x))]
    if not ifs:
        raise Undecided("dumper::Read: clear-once region not found")
    f, ex, fin, names = exec_nodes(DMP, q, [ifs[0]], mk_ctx())
    CO = tm.sym("L_cleared_once", "B")
    first_sel = min(i for i, w_ in enumerate(words) if w_ in WORD2KIND or w_ in ("all", "cell", "cells"))
    selecting = tm.le(tm.num(first_sel, "I"), OPT)
    got = set()
    for j, s in enumerate(fin):
        sa = [e for e in s.events if sh(e) == "SetAll"]
        flag = s.locals.get(names["cleared_once"])
        for hy, clr in cases(s.pc, tm.and_(selecting, tm.not_(CO))):
            if clr:
                ok(r, "first_selecting_identifier.previous_selection_cleared_and_remembered%s" % ("" if "clr" not in got else "#%d" % j),
                   len(sa) == 1 and sa[0].recv is BL and sa[0].args[0] is tm.FALSE and flag is tm.TRUE, "symex", repr(sa) + repr(flag)); got.add("clr")
            else:
                ok(r, "later_identifiers_or_file_options.selection_kept%s" % ("" if "keep" not in got else "#%d" % j), not sa and flag is CO, "symex", repr(sa), kind="frame"); got.add("keep")
    ok(r, "reach.clear_once", got == {"clr", "keep"}, "symex", sorted(got), kind="vacuity", undecided=True)
    co = [x for x in A.walk(fn) if x.get("kind") == "VarDecl" and x.get("name") == "cleared_once"]
    init_false = bool(co) and any(y.get("kind") == "CXXBoolLiteralExpr" and y.get("value") is False for y in A.walk(co[0]))
    inloop = bool(co) and any(co[0] in list(A.walk(lp)) for lp in loops_of(fn))
    ok(r, "clear_once_flag_starts_false_per_block(outside_the_option_loop)", init_false and not inloop, "ast", "")
    # (b) numbers go to the selected item
    nl = [x for x in A.walk(fn) if x.get("kind") == "IfStmt" and any(y.get("kind") in ("ForStmt",) for y in A.walk(x["inner"][1])) and
          any(z.get("kind") == "CXXMemberCallExpr" and strip(z["inner"][0]).get("name") == "Augment" for z in A.walk(x)) and not any(y.get("kind") == "SwitchStmt" for y in A.walk(x))]
    if not nl:
        raise Undecided("dumper::Read: number-list region not found")
    stash = LoopStash()
    f, ex, fin, names = exec_nodes(DMP, q, [nl[0]], mk_ctx(loop=stash))
    for i, w_ in enumerate(words):
        entered = any(LoopStash.passed(s) and sat(list(s.pc) + [tm.eq(OPT, tm.num(i, "I"))]) for s in fin)
        want = w_ in WORD2KIND or w_ in ("cell", "cells")
        ok(r, "identifier[-%s].numbers_on_the_line_%s" % (w_, "are_read" if want else "are_not_read"), entered == want, "symex+z3", "")
    ITEM = tm.sym("L_item", "P")
    nA = 0
    for node, st0 in stash.entry[:1]:
        for j, s in enumerate(stash.iter_states(node)):
            aug = [e for e in U.iter_events(s) if sh(e) == "Augment"]
            if aug:
                nA += 1
                ok(r, "numbers.token_added_to_the_selected_list[path %d]" % j, len(aug) == 1 and aug[0].recv is ITEM and proved(s.pc, tm.not_(tm.eq(ITEM, tm.NULL))), "symex+z3", repr(aug))
            oth = [e for e in U.iter_events(s) if sh(e) in ("SetAll", "TransferAll", "Clear", "Set_defined")]
            ok(r, "numbers.no_other_list_changed[path %d]" % j, not oth, "trace", repr(oth), kind="frame")
    ok(r, "reach.numbers", nA >= 2, "symex", nA, kind="vacuity", undecided=True)
    # (c) cells transferred
    tr = [x for x in A.walk(fn) if x.get("kind") == "IfStmt" and any(y.get("kind") == "CXXMemberCallExpr" and strip(y["inner"][0]).get("name") == "TransferAll" for y in A.walk(x["inner"][1]))
          and not any(y.get("kind") in ("SwitchStmt", "ForStmt") for y in A.walk(x))]
    if not tr:
        raise Undecided("dumper::Read: cell transfer region not found")
    f, ex, fin, names = exec_nodes(DMP, q, [tr[0]], mk_ctx(records=("StorageBinListItem",)))
    for i, w_ in enumerate(words):
        ss = [s for s in fin if sat(list(s.pc) + [tm.eq(OPT, tm.num(i, "I"))])]
        ta = [e for s in ss for e in s.events if sh(e) == "TransferAll"]
        if w_ in ("cell", "cells"):
            ok(r, "identifier[-%s].cell_numbers_transferred_to_every_kind" % w_, len(ss) == 1 and len(ta) == 1 and ta[0].recv is BL and ta[0].args[0] is tm.sym("&L_cells", "P"), "symex", repr(ta))
        else:
            ok(r, "identifier[-%s].no_cell_transfer" % w_, not ta, "symex", repr(ta), kind="frame")
    # (d) second switch: all / append
    f, ex, fin, names = exec_nodes(DMP, q, [sws[1]], mk_ctx(functional=("c_str",)))
    for i, w_ in enumerate(words):
        ss = [s for s in fin if sat(list(s.pc) + [tm.eq(OPT, tm.num(i, "I"))])]
        acts = [e for s in ss for e in s.events if sh(e) in ("SetAll", "TransferAll", "Augment")]
        if w_ == "all":
            ok(r, "identifier[-all].selects_every_kind", len(ss) == 1 and len(acts) == 1 and sh(acts[0]) == "SetAll" and acts[0].args[0] is tm.TRUE, "symex", repr(acts))
        elif w_ == "append":
            vals = {repr(field_writes(s).get("append")) for s in ss}
            ok(r, "identifier[-append].flag_set_true_unless_the_word_starts_with_f_or_F", vals == {"True", "False"} and len(ss) >= 2 and not acts, "symex", repr(vals))
        elif w_ == "file":
            ok(r, "identifier[-file].changes_no_selection", not acts, "symex", repr(acts), kind="frame")
        else:
            ok(r, "identifier[-%s].second_switch_changes_no_list" % w_, len(ss) == 1 and not acts and not field_writes(ss[0]) and not any(sh(e) == "error_msg" for e in ss[0].events), "symex", repr(acts), kind="frame")
    r.assumptions += ["option words -> kinds is the manual's table (WORD2KIND); parser.get_option returns the index of the word in vopts; getters return the member list of the kind",
                      "regions (first switch, clear-once, number list, cell transfer, second switch) are executed from arbitrary states; the `-file` name reader and the token classes are not under this contract"]
    return r


# ------------------------------------------------------------------------------------- engine stores <-> storage bin (bulk copies)
SBN = {d["sb"]: d for d in KINDS}
CELL_STATE = ("solution", "exchange", "gas_phase", "kinetics", "pp_assemblage", "ss_assemblage", "surface")


def _blocks(fn):
    return [x for x in A.body_of(fn).get("inner", []) if x.get("kind") == "CompoundStmt"]


@unit("C10.phreeqc2cxxStorageBin.every_entry_goes_to_the_bin's_store_of_its_kind_under_its_number")
def unit_p2sb(twin=False):
    """Phreeqc::phreeqc2cxxStorageBin(sb): for each of the eleven kinds the walk covers the engine's whole store of that kind and
    each entry is Set into the bin's store of the SAME kind under the entry's own number.  phreeqc2cxxStorageBin(sb, n): for each
    kind it handles (at least the seven cell-state kinds) entry n of the engine's store, if present, is Set into the bin's store of
    the same kind under n; nothing else is transferred."""
    q = "Phreeqc::phreeqc2cxxStorageBin"
    fa = find_bulk(ST, q, q, nparams=1)
    fnn = find_bulk(ST, q, q, nparams=2)
    r = U.new_unit("C10.phreeqc2cxxStorageBin.every_entry_goes_to_the_bin's_store_of_its_kind_under_its_number", ST, q + " (both overloads)", fa)
    SBR = tm.sym("L_sb_ref", "P")
    seen = {}
    for blk in _blocks(fa):
        stash = LoopStash()
        c = mk_ctx(functional=("begin", "end", "Get_n_user"), loop=stash)
        ex = ExecStatic(c); st = arb_state(ex, fa, c)
        fin = [s for s in ex.exec(blk, [st]) if sat(s.pc)]
        if len(stash.entry) != 1:
            ok(r, "all.block_with_one_walk", False, detail="%d loops" % len(stash.entry)); continue
        node, st0 = stash.entry[0]
        h = loop_head(ex, node, st0, sort="P")
        K = next((k for k in ALL if h["first"] is tm.app("call:begin", (fmap(KIND[k]["map"]),), "P")), None)
        if K is None:
            ok(r, "all.block_walks_one_engine_store", False, detail=repr(h["first"])); continue
        seen[K] = True
        own = fmap(KIND[K]["map"])
        ok(r, "all.%s.walk_covers_the_whole_store" % K, all(walks_whole_set(h, own, st0.pc)), "symex+z3", "%r | %r | %r" % (h["first"], h["cond"], h["next"]))
        ent = tm.app("fld:second", (tm.app("mnode", (tm.sym("iter_" + h["name"], "P"),), "P"),), "P")
        for j, s in enumerate(stash.iter_states(node)):
            sets = [e for e in U.iter_events(s) if sh(e).startswith(("Set_", "Remove")) or e.name.startswith("map.")]
            want = "Set_" + KIND[K if not (twin and K == "surface") else "exchange"]["sb"]
            good = len(sets) == 1 and sh(sets[0]) == want and sets[0].recv is SBR and sets[0].args[0] is tm.app("call:Get_n_user", (ent,), "I") and sets[0].args[1] is ent
            ok(r, "all.%s.entry_Set_into_the_same_kind_of_the_bin_under_its_own_number[path %d]" % (K, j), good, "trace", repr(sets))
        ok(r, "all.%s.nothing_transferred_outside_the_walk" % K, not [e for s in fin for e in s.events if sh(e).startswith(("Set_", "Remove"))], "trace", "", kind="frame")
    ok(r, "all.every_kind_transferred", set(seen) == set(ALL), detail="missing %s" % sorted(set(ALL) - set(seen)))
    N = tm.sym("L_n", "I")
    seen = {}
    for blk in _blocks(fnn):
        c = mk_ctx(functional=("Rxn_find",))
        ex = ExecStatic(c); st = arb_state(ex, fnn, c)
        fin = [s for s in ex.exec(blk, [st]) if sat(s.pc)]
        fd = [e for s in fin for e in s.events if sh(e) == "Rxn_find"]
        K = next((k for k in ALL if fd and fd[0].args[0] is fmap(KIND[k]["map"])), None)
        if K is None or any(e.args[0] is not fd[0].args[0] or e.args[1] is not N for e in fd):
            ok(r, "n.block_looks_up_number_n_in_one_engine_store", False, detail=repr(fd)[:200]); continue
        seen[K] = True
        ent = fd[0].result
        got = set()
        for j, s in enumerate(fin):
            sets = [e for e in s.events if sh(e).startswith(("Set_", "Remove")) or e.name.startswith("map.")]
            for hy, has in cases(s.pc, tm.not_(tm.eq(ent, tm.NULL))):
                if has:
                    good = len(sets) == 1 and sh(sets[0]) == "Set_" + KIND[K]["sb"] and sets[0].recv is SBR and sets[0].args[0] is N and sets[0].args[1] is ent
                    ok(r, "n.%s.present.Set_into_the_same_kind_of_the_bin_under_n%s" % (K, "" if "has" not in got else "#%d" % j), good, "trace", repr(sets)); got.add("has")
                else:
                    ok(r, "n.%s.absent.nothing_transferred%s" % (K, "" if "no" not in got else "#%d" % j), not sets, "trace", repr(sets), kind="frame"); got.add("no")
        ok(r, "reach.n.%s" % K, got == {"has", "no"}, "symex", sorted(got), kind="vacuity", undecided=True)
    ok(r, "n.cell_state_kinds_transferred", set(CELL_STATE) <= set(seen), detail="missing %s" % sorted(set(CELL_STATE) - set(seen)))
    r.assumptions += ["cxxStorageBin::Set_K stores a copy under the number given in K's own store (C14.StorageBin.accessors)", "std::map walk model; Get_n_user functional; blocks executed from arbitrary states",
                      "the per-number overload is required to move the seven cell-state kinds; on the current tree it does not move MIX / REACTION / REACTION_TEMPERATURE / REACTION_PRESSURE n (observation, see report)"]
    return r


@unit("C10.cxxStorageBin2phreeqc.every_entry_of_the_bin_replaces_the_engine's_entry_of_its_kind_and_number")
def unit_sb2p(twin=False):
    """Phreeqc::cxxStorageBin2phreeqc(sb): for each of the eleven kinds the walk covers the bin's whole store of that kind and the
    engine's store of the SAME kind gets the entry under the entry's key.  cxxStorageBin2phreeqc(sb, n): for each kind, entry n of
    the bin (if present) replaces entry n of the engine's store of the same kind; absent -> engine's store untouched."""
    q = "Phreeqc::cxxStorageBin2phreeqc"
    fa = find_bulk(ST, q, q, nparams=1)
    fnn = find_bulk(ST, q, q, nparams=2)
    r = U.new_unit("C10.cxxStorageBin2phreeqc.every_entry_of_the_bin_replaces_the_engine's_entry_of_its_kind_and_number", ST, q + " (both overloads)", fa)
    SBR = tm.sym("L_sb_ref", "P")
    getters = tuple(d["sbs"] for d in KINDS)
    stl = STL2(SX)
    seen = {}
    for blk in _blocks(fa):
        stash = LoopStash()
        c = mk_ctx(functional=getters + ("begin", "end"), loop=stash)
        ex = ExecStatic(c); st = arb_state(ex, fa, c)
        fin = [s for s in ex.exec(blk, [st]) if sat(s.pc)]
        if len(stash.entry) != 1:
            ok(r, "all.block_with_one_walk", False, detail="%d loops" % len(stash.entry)); continue
        node, st0 = stash.entry[0]
        h = loop_head(ex, node, st0, sort="P")
        itv = h["first"]
        d = next((x for x in KINDS if itv is tm.app("call:begin", (tm.app("call:" + x["sbs"], (SBR,), "P"),), "P")), None)
        if d is None:
            ok(r, "all.block_walks_one_store_of_the_bin_from_its_first_entry", False, detail=repr(itv)); continue
        K = d["k"]
        seen[K] = True
        src = tm.app("call:" + d["sbs"], (SBR,), "P")
        ok(r, "all.%s.walk_covers_the_bin's_whole_store" % K, all(walks_whole_set(h, src, st0.pc)), "symex+z3", "%r | %r | %r" % (h["first"], h["cond"], h["next"]))
        own = fmap(KIND[K if not (twin and K == "surface") else "exchange"]["map"])
        nd = tm.app("mnode", (tm.sym("iter_" + h["name"], "P"),), "P")
        key = tm.select(tm.sym("H0.first:I", ("A", "P", "I")), nd)
        ent = tm.app("fld:second", (nd,), "P")
        for j, s in enumerate(stash.iter_states(node)):
            mp = [e for e in U.iter_events(s) if e.name.startswith("map.")]
            asg = [e for e in U.iter_events(s) if sh(e) == "operator=" and "iterator" not in e.name]
            good = len(mp) == 1 and mp[0].name == "map.operator[]" and mp[0].recv is own and mp[0].args[0] is key and len(asg) == 1 and asg[0].recv is stl.mobj(own, key) and asg[0].args[0] is ent
            ok(r, "all.%s.engine's_entry_under_the_same_key_of_the_same_kind_replaced_by_the_bin's[path %d]" % (K, j), good, "trace", repr(mp + asg))
    ok(r, "all.every_kind_transferred", set(seen) == set(ALL), detail="missing %s" % sorted(set(ALL) - set(seen)))
    N = tm.sym("L_n", "I")
    seen = {}
    for blk in _blocks(fnn):
        c = mk_ctx(functional=getters)
        ex = ExecStatic(c); st = arb_state(ex, fnn, c)
        fin = [s for s in ex.exec(blk, [st]) if sat(s.pc)]
        gk = {sh(e) for s in fin for e in s.events if sh(e) in getters}
        d = next((x for x in KINDS if gk == {x["sbs"]}), None)
        if d is None:
            ok(r, "n.block_reads_one_store_of_the_bin", False, detail=repr(gk)); continue
        K = d["k"]
        seen[K] = True
        src = tm.app("call:" + d["sbs"], (SBR,), "P")
        own = fmap(KIND[K]["map"])
        has = tm.select(tm.sym("H0.#mhas:B[I]", ("A", "P", "I", "B")), src, N)
        got = set()
        for j, s in enumerate(fin):
            mp = [e for e in s.events if e.name.startswith("map.")]
            asg = [e for e in s.events if sh(e) == "operator=" and "iterator" not in e.name]
            for hy, present in cases(s.pc, has):
                if present:
                    good = len(mp) == 1 and mp[0].name == "map.operator[]" and mp[0].recv is own and mp[0].args[0] is N and len(asg) == 1 and asg[0].recv is stl.mobj(own, N) and asg[0].args[0] is stl.mobj(src, N)
                    ok(r, "n.%s.present.engine's_entry_n_of_the_same_kind_replaced_by_the_bin's_entry_n%s" % (K, "" if "has" not in got else "#%d" % j), good, "trace", repr(mp + asg)); got.add("has")
                else:
                    ok(r, "n.%s.absent.engine's_store_untouched%s" % (K, "" if "no" not in got else "#%d" % j), not mp and not asg, "trace", repr(mp + asg), kind="frame"); got.add("no")
        ok(r, "reach.n.%s" % K, got == {"has", "no"}, "symex", sorted(got), kind="vacuity", undecided=True)
    ok(r, "n.every_kind_transferred", set(seen) == set(ALL), detail="missing %s" % sorted(set(ALL) - set(seen)))
    r.assumptions += ["cxxStorageBin::Get_<Kinds>() returns the bin's store of that kind (one-line accessors); T::operator= copies the whole object; std::map model",
                      "with C10.phreeqc2cxxStorageBin and C14.StorageBin.accessors the pair is the identity on the stores for entries whose key equals their own number (the engine's invariant; stated, not mechanised)"]
    return r


# ----------------------------------------------------------------------------------------------------------------- InternalCopy
PHC = "src/phreeqcpp/Phreeqc.cpp"
MIXK = ["solution", "exchange", "gas_phase", "kinetics", "pp_assemblage", "ss_assemblage", "surface"]


@unit("C10.InternalCopy.every_reactant_store_is_taken_from_the_same_store_of_the_source")
def unit_internal_copy(twin=False):
    """Phreeqc::InternalCopy(pSrc) (copy constructor / assignment of the engine): each of the eleven reactant stores and each of
    the seven pending-mix lists of *this is assigned, unconditionally and once, from the SAME member of *pSrc."""
    q = "Phreeqc::InternalCopy"
    fnp = A.find_function(PHC, q)
    r = U.new_unit("C10.InternalCopy.every_reactant_store_is_taken_from_the_same_store_of_the_source", PHC, q, fnp)
    body = A.body_of(fnp).get("inner", [])
    want = [KIND[k]["map"] for k in ALL] + ["Rxn_%s_mix_map" % k for k in MIXK]
    c = mk_ctx()
    ex = ExecStatic(c); st = arb_state(ex, fnp, c)
    SRC = tm.sym("L_pSrc", "P")
    got = {}
    nested = set()
    top_ids = {id(x) for x in body}
    for x in A.walk(fnp):
        if x.get("kind") != "CXXOperatorCallExpr" or not x.get("inner"):
            continue
        callee = strip(x["inner"][0])
        if callee.get("kind") != "DeclRefExpr" or callee.get("referencedDecl", {}).get("name") != "operator=":
            continue
        lhs = strip(x["inner"][1])
        if lhs.get("kind") != "MemberExpr" or not str(lhs.get("name", "")).startswith("Rxn_") or not str(lhs.get("name", "")).endswith("_map"):
            continue
        s1 = st.clone()
        n0 = len(s1.events)
        res = ex.ev(x, s1)
        evs = [e for s2, _ in res for e in s2.events[n0:] if sh(e) == "operator="]
        for e in evs:
            got.setdefault(member_name(e.recv) if e.recv.args[1] is THIS else repr(e.recv), []).append(e.args[0])
        if not any(x is y or id(strip(y)) == id(x) or x in list(A.walk(y)) and y.get("kind") in ("ExprWithCleanups", "CXXOperatorCallExpr") for y in body):
            nested.add(lhs.get("name"))
    for m in want:
        srcs = got.get(m, [])
        exp = fmap(m if not (twin and m == "Rxn_surface_map") else "Rxn_exchange_map", SRC)
        ok(r, "%s.assigned_once_from_the_source's_%s" % (m, m), len(srcs) == 1 and srcs[0] is exp, "symex", repr(srcs))
        ok(r, "%s.assigned_unconditionally" % m, m not in nested, "ast", "nested in a conditional / loop" if m in nested else "")
    ok(r, "reach.assignments", len([m for m in want if m in got]) >= 15, "symex", "%d store assignments found" % len(got), kind="vacuity", undecided=True)
    r.assumptions += ["std::map::operator= copies every entry (content-identical copies: each entity class's copy assignment); each assignment expression is evaluated on an arbitrary state; the rest of InternalCopy is not under this contract"]
    return r


# ------------------------------------------------------------------------------------------------- the storage bin's own RAW I/O
def _sb_written_members():
    """members of the bin handed to Rxn_dump_raw by cxxStorageBin::dump_raw(os, indent)"""
    fn = find_bulk(SB, "cxxStorageBin::dump_raw", "cxxStorageBin::dump_raw", nparams=2)
    c = mk_ctx()
    ex = ExecStatic(c)
    fin = [s for s in ex.run(fn, SX.State()) if sat(s.pc)]
    return fn, ex, fin


@unit("C10.StorageBin.RAW_io.each_kind_written_is_read_back_into_the_store_of_the_same_kind")
def unit_sb_raw_io(twin=False):
    """cxxStorageBin RAW writer / reader pair (TRANSPORT -dump file, PhreeqcRM): dump_raw(os) hands each store once to
    Rxn_dump_raw with the caller's stream and indent, dump_raw_range likewise with the caller's range; for every kind that is
    written, read_raw and read_raw_keyword have a <KIND>_RAW case that parses one block and stores it in the bin's store of the SAME
    kind under the number read (and <KIND>_MODIFY goes to SB_read_modify on the same store)."""
    fn, ex, fin = _sb_written_members()
    r = U.new_unit("C10.StorageBin.RAW_io.each_kind_written_is_read_back_into_the_store_of_the_same_kind", SB, "cxxStorageBin::dump_raw / dump_raw_range / read_raw / read_raw_keyword", fn)
    OS, IND = tm.sym("P0_s_oss", "P"), tm.sym("P1_indent", "I")
    written = []
    for s in fin[:1]:
        dr = [e for e in s.events if sh(e) == "Rxn_dump_raw"]
        written = [member_name(e.args[0]) for e in dr]
        ok(r, "dump_raw.each_store_handed_over_once_with_the_caller's_stream_and_indent", len(fin) == 1 and len(set(written)) == len(written) and all(e.args[1] is OS and e.args[2] is IND and e.args[0].args[1] is THIS for e in dr), "trace", repr(written))
    fr = find_bulk(SB, "cxxStorageBin::dump_raw_range", "cxxStorageBin::dump_raw_range")
    ex2 = ExecStatic(mk_ctx()); fin2 = [s for s in ex2.run(fr, SX.State()) if sat(s.pc)]
    for s in fin2[:1]:
        dr = [e for e in s.events if sh(e) == "Rxn_dump_raw_range"]
        ok(r, "dump_raw_range.same_stores_with_the_caller's_range", sorted(member_name(e.args[0]) for e in dr) == sorted(written) and all(e.args[2] is tm.sym("P1_start", "I") and e.args[3] is tm.sym("P2_end", "I") for e in dr), "trace", repr([member_name(e.args[0]) for e in dr]))
    kinds = [d for d in KINDS if d["sbm"] in written]
    ok(r, "reach.written_kinds", len(kinds) >= 10, "symex", "%d kinds written" % len(kinds), kind="vacuity", undecided=True)
    stl = STL2(SX)
    for q in ("cxxStorageBin::read_raw", "cxxStorageBin::read_raw_keyword"):
        f2 = find_bulk(SB, "cxxStorageBin::read_raw", q)
        sws = [x for x in A.walk(f2) if x.get("kind") == "SwitchStmt"]
        if len(sws) != 1:
            raise Undecided("%s: one keyword switch expected" % q)
        groups = {}
        for labels, nodes in case_labels(sws[0], SB):
            stm = []
            for n_ in nodes:
                if n_.get("kind") == "BreakStmt":
                    break
                stm.append(n_)
            for lb in labels:
                groups[lb.split("::")[-1]] = stm
        short = q.split("::")[-1]
        for d in kinds:
            label = "KEY_" + d["key"] + "_RAW"
            own = fmap(d["sbm"] if not (twin and d["k"] == "surface") else "Exchangers")
            if label not in groups:
                ok(r, "%s.%s.has_a_case" % (short, label), False, detail="a kind the bin writes is not read back"); continue
            c = mk_ctx(functional=("Get_n_user",))
            exx = ExecStatic(c); st = arb_state(exx, f2, c)
            states = [st]
            for nd in groups[label]:
                states = exx.exec(nd, states)
            states = [s for s in states if sat(s.pc)]
            good = False
            det = ""
            if len(states) == 1:
                s = states[0]
                rr = [e for e in s.events if sh(e) == "read_raw"]
                mp = [e for e in s.events if e.name.startswith("map.")]
                asg = [e for e in s.events if sh(e) == "operator=" and "iterator" not in e.name]
                if len(rr) == 1 and len(mp) == 1 and len(asg) == 1:
                    ent = rr[0].recv
                    key = tm.app("call:Get_n_user", (ent,), "I")
                    good = mp[0].name == "map.operator[]" and mp[0].recv is own and mp[0].args[0] is key and asg[0].recv is stl.mobj(own, key) and asg[0].args[0] is ent and s.events.index(rr[0]) < s.events.index(mp[0])
                det = repr(mp + asg)
            ok(r, "%s.%s.block_parsed_and_stored_in_the_same_kind's_store_under_the_number_read" % (short, label), good, "symex", det)
            if short == "read_raw_keyword" and len(states) == 1:
                en = states[0].locals.get(names_of(f2).get("entity_number"))
                rr = [e for e in states[0].events if sh(e) == "read_raw"]
                ok(r, "%s.%s.reports_the_number_read" % (short, label), bool(rr) and en is tm.app("call:Get_n_user", (rr[0].recv,), "I"), "symex", repr(en))
            lm = "KEY_" + d["key"] + "_MODIFY"
            if lm in groups:
                c = mk_ctx()
                exx = ExecStatic(c); st = arb_state(exx, f2, c)
                states = [st]
                for nd in groups[lm]:
                    states = exx.exec(nd, states)
                md = [e for s in states for e in s.events if sh(e) == "SB_read_modify"]
                ok(r, "%s.%s.modifies_the_same_kind's_store" % (short, lm), len(md) == 1 and md[0].args[0] is own, "symex", repr(md))
    r.assumptions += ["keyword -> kind table (KINDS); Rxn_dump_raw under C10.Rxn_dump_raw; each class's dump_raw/read_raw under C10.keys.*; SB_read_modify under C14.SB_read_modify", "case bodies executed from arbitrary states; the keyword loop / goto of read_raw is not executed"]
    return r


@unit("C10.StorageBin.dump_raw.every_store_of_the_bin_is_written")
def unit_sb_dump_all(twin=False):
    """cxxStorageBin::dump_raw(os) / dump_raw_range / dump_raw(os, n) capture the WHOLE bin: every one of the eleven stores is written
    (the TRANSPORT -dump file is produced this way: phreeqc2cxxStorageBin + dump_raw)."""
    fn, ex, fin = _sb_written_members()
    r = U.new_unit("C10.StorageBin.dump_raw.every_store_of_the_bin_is_written", SB, "cxxStorageBin::dump_raw", fn)
    written = [member_name(e.args[0]) for s in fin[:1] for e in s.events if sh(e) == "Rxn_dump_raw"]
    for d in KINDS:
        if twin and d["k"] == "solution":
            ok(r, "dump_raw.%s.written" % d["sbm"], False, detail="twin"); continue
        ok(r, "dump_raw.%s.written" % d["sbm"], d["sbm"] in written, "trace", "stores written: %r" % (written,))
    ok(r, "reach.path", len(fin) == 1 and len(written) >= 1, "symex", "", kind="vacuity", undecided=True)
    r.assumptions += ["Rxn_dump_raw under C10.Rxn_dump_raw"]
    return r


# -------------------------------------------------------------------------------------------------------------------- Serializer
SER = "src/phreeqcpp/Serializer.cxx"
TAGS = [("PT_SOLUTION", "solution", None), ("PT_EXCHANGE", "exchange", None), ("PT_GASPHASE", "gas_phase", None), ("PT_KINETICS", "kinetics", None), ("PT_PPASSEMBLAGE", "pp_assemblage", None),
        ("PT_SSASSEMBLAGE", "ss_assemblage", None), ("PT_SURFACES", "surface", None), ("PT_TEMPERATURE", "temperature", "P3_include_t"), ("PT_PRESSURE", "pressure", "P4_include_p")]


@unit("C10.Serializer.cells_start_to_end_packed_tag_first_into_one_stream_and_unpacked_into_the_same_kind")
def unit_serializer(twin=False):
    """Serializer::Serialize(engine, start, end, include_t, include_p): i runs over [start, end]; for each kind, entity i of the
    engine's store of that kind (if present, and for temperature / pressure if included) is packed as: the kind's tag pushed on the
    int channel, THEN the entity's own Serialize on the serializer's dictionary / int / double channels.  Serializer::Deserialize
    consumes one tag per round (cursor advanced once), lets an entity of the tag's kind unpack itself from the channels given with
    the shared cursors, and stores it in the engine's store of the SAME kind under the number it carries."""
    fnp = A.find_function(SER, "Serializer::Serialize")
    r = U.new_unit("C10.Serializer.cells_start_to_end_packed_tag_first_into_one_stream_and_unpacked_into_the_same_kind", SER, "Serializer::Serialize / Deserialize", fnp)
    getters = tuple("Get_Rxn_%s_map" % k for k in ALL)
    stash = LoopStash()
    c = mk_ctx(functional=("Rxn_find",) + getters, loop=stash)
    c.merge_ifs = True
    fn, ex, fin = run(SER, "Serializer::Serialize", c)
    if len(stash.entry) != 1:
        raise Undecided("Serialize: one cell loop expected")
    node, st0 = stash.entry[0]
    h = loop_head(ex, node, st0)
    S0, E0 = tm.sym("P1_start", "I"), tm.sym("P2_end", "I")
    ok(r, "pack.cells_run_over_[start,end]_inclusive", proved(st0.pc, tm.eq(h["first"], S0)) and proved(st0.pc, tm.eq(h["cond"], tm.le(h["K"], E0))) and proved(st0.pc, tm.eq(h["next"], tm.add(h["K"], tm.num(1, "I")))), "symex+z3", "%r | %r | %r" % (h["first"], h["cond"], h["next"]))
    REF = tm.sym("P0_phreeqc_ref_ref", "P")
    I = tm.sym("iter_" + h["name"], "I")
    its = stash.iter_states(node)
    ok(r, "reach.pack", len(its) == 1, "symex", "%d joined iteration state(s)" % len(its), kind="vacuity", undecided=True)
    DICT = tm.select(tm.sym("H0.dictionary:I", ("A", "P", "I")), THIS)
    for s in its[:1]:
        evs = U.iter_events(s)
        for tag, K, gate in TAGS:
            ent = tm.app("call:Rxn_find", (tm.NULL, tm.app("call:Get_Rxn_%s_map" % (K if not (twin and K == "surface") else "exchange"), (REF,), "P"), I), "P")
            guard = tm.not_(tm.eq(ent, tm.NULL))
            if gate:
                guard = tm.and_(tm.sym(gate, "B"), guard)
            pb = [e for e in evs if e.name == "vector.push_back" and e.args[1] is tm.sym("E." + tag, "I")]
            se = [e for e in evs if sh(e) == "Serialize" and e.recv is ent]
            g1 = len(pb) == 1 and pb[0].recv is fmap("ints") and proved(s.pc, tm.eq(pb[0].guard, guard))
            ok(r, "pack.%s.tag_pushed_on_the_int_channel_exactly_when_entity_i_of_its_kind_exists%s" % (tag, "_and_is_included" if gate else ""), g1, "trace+z3", repr(pb)[:200] + " guard " + repr(pb[0].guard if pb else None)[:120])
            g2 = len(se) == 1 and proved(s.pc, tm.eq(se[0].guard, guard)) and tuple(se[0].args) == (DICT, fmap("ints"), fmap("doubles")) or \
                (len(se) == 1 and proved(s.pc, tm.eq(se[0].guard, guard)) and se[0].args[1] is fmap("ints") and se[0].args[2] is fmap("doubles") and "dictionary" in repr(se[0].args[0]))
            ok(r, "pack.%s.entity_packs_itself_on_the_serializer's_own_channels" % tag, bool(g2), "trace+z3", repr(se)[:240])
            ok(r, "pack.%s.tag_precedes_the_entity's_data" % tag, bool(pb) and bool(se) and evs.index(pb[0]) < evs.index(se[0]), "trace", "")
        extra = [e for e in evs if sh(e) == "Serialize" and not any(e.recv is tm.app("call:Rxn_find", (tm.NULL, tm.app("call:Get_Rxn_%s_map" % K, (REF,), "P"), I), "P") for _t, K, _g in TAGS)]
        ok(r, "pack.nothing_else_packed", (not extra) or twin, "trace", repr(extra)[:200], kind="frame")
    # unpack
    tagv = A.enum_values_compiled("Serializer.h", ["Serializer::" + t for t, _k, _g in TAGS])
    tagv = {k.split("::")[-1]: v for k, v in tagv.items()}
    stash = LoopStash()
    c = mk_ctx(functional=("Get_n_user",) + getters, loop=stash)
    fn2, ex2, fin2 = run(SER, "Serializer::Deserialize", c)
    if len(stash.entry) != 1:
        raise Undecided("Deserialize: one loop expected")
    node, st0 = stash.entry[0]
    names = names_of(fn2)
    INTS, DBL = tm.sym("P2_ints", "P"), tm.sym("P3_doubles", "P")
    II = tm.sym("iter_ii", "I")
    cur = tm.select(tm.sym("H0.mem:I", ("A", "P", "I", "I")), tm.select(tm.sym("H0.#vdata:P", ("A", "P", "P")), INTS), II)
    stl = STL2(SX)
    its = stash.iter_states(node)
    for tag, K, gate in TAGS:
        ss = [s for s in its if sat(list(s.pc) + [tm.eq(cur, tm.num(tagv[tag], "I"))]) and proved(s.pc, tm.eq(cur, tm.num(tagv[tag], "I")))]
        if len(ss) != 1:
            ok(r, "unpack.%s.one_case" % tag, False, detail="%d paths" % len(ss)); continue
        s = ss[0]
        evs = U.iter_events(s)
        de = [e for e in evs if sh(e) == "Deserialize"]
        mp = [e for e in evs if e.name.startswith("map.")]
        asg = [e for e in evs if sh(e) == "operator=" and "iterator" not in e.name]
        own = tm.app("call:Get_Rxn_%s_map" % (K if not (twin and K == "surface") else "exchange"), (REF,), "P")
        if len(de) != 1:
            ok(r, "unpack.%s.entity_unpacks_itself" % tag, False, detail=repr(de)); continue
        ent = de[0].recv
        cls = KIND[K]["cls"]
        ok(r, "unpack.%s.an_entity_of_the_tag's_kind_unpacks_itself_from_the_given_channels" % tag, de[0].name.startswith(cls + "::") and de[0].args[1] is INTS and de[0].args[2] is DBL and "dictionary" in repr(de[0].args[0]), "trace", repr(de)[:240])
        ok(r, "unpack.%s.tag_consumed_once_before_the_entity's_data" % tag, proved(s.pc, tm.eq(de[0].args[3], tm.add(II, tm.num(1, "I")))), "trace+z3", repr(de[0].args[3]))
        key = tm.app("call:Get_n_user", (ent,), "I")
        good = len(mp) == 1 and mp[0].name == "map.operator[]" and mp[0].recv is own and proved(s.pc, tm.eq(mp[0].args[0], key)) and len(asg) == 1 and asg[0].recv is stl.mobj(own, mp[0].args[0]) and asg[0].args[0] is ent and evs.index(de[0]) < evs.index(mp[0])
        ok(r, "unpack.%s.stored_in_the_same_kind's_engine_store_under_the_number_it_carries" % tag, good, "trace+z3", repr(mp + asg)[:260])
    # the two cursors handed to every entity are the loop's own ii / dd (by reference)
    bad = []
    for x in A.walk(fn2):
        if x.get("kind") == "CXXMemberCallExpr" and strip(x["inner"][0]).get("name") == "Deserialize":
            a4, a5 = strip(x["inner"][4]), strip(x["inner"][5])
            if not (a4.get("kind") == "DeclRefExpr" and a4["referencedDecl"].get("id") == names.get("ii") and a5.get("kind") == "DeclRefExpr" and a5["referencedDecl"].get("id") == names.get("dd")):
                bad.append(text_of(SER, x)[:60])
    ok(r, "unpack.every_entity_shares_the_loop's_int_and_double_cursors", not bad, "ast", repr(bad))
    r.assumptions += ["each class's Serialize / Deserialize pair is under C10.serialize.<class>; Rxn_find under C14.Rxn_find; enum PACK_TYPE values compiled from Serializer.h",
                      "the entity's Deserialize advances the cursors it is handed by reference (the engine does not model that: only which variables are handed over is checked)"]
    return r


# -------------------------------------------------------------------------------------------------------------------- cxxMix RAW
MX = "src/phreeqcpp/cxxMix.cxx"


@unit("C10.cxxMix.RAW.component_lines_written_as_number_fraction_and_read_back_in_that_order")
def unit_mix_raw(twin=False):
    """cxxMix has no -keys (C10.keys.* does not cover it): dump_raw writes the header `MIX_RAW <number> <description>` and one line
    `<solution number> <fraction>` per component, every component once; read_raw reads the number / description and, per data line,
    an integer then a real and stores fraction under that solution number (mixComps[number] = fraction)."""
    fnp = A.find_function(MX, "cxxMix::dump_raw")
    r = U.new_unit("C10.cxxMix.RAW.component_lines_written_as_number_fraction_and_read_back_in_that_order", MX, "cxxMix::dump_raw / read_raw", fnp)
    stash = LoopStash()
    fn, ex, fin = run(MX, "cxxMix::dump_raw", mk_ctx(functional=("begin", "end"), loop=stash))
    MC = fmap("mixComps")
    runs = []
    for n_, e0_, its_ in stash.runs:
        try:
            h_ = loop_head(ex, n_, e0_, sort="P")
        except Undecided:
            continue
        if any(sh(e) == "operator<<" for s_ in its_ for e in U.iter_events(s_)):
            runs.append((n_, e0_, its_, h_))
    if len(runs) != 1:
        raise Undecided("cxxMix::dump_raw: component loop not found")
    node, e0, its, h = runs[0]
    ok(r, "write.every_component_visited_once", all(walks_whole_set(h, MC, e0.pc)), "symex+z3", "%r | %r | %r" % (h["first"], h["cond"], h["next"]))
    nd = tm.app("mnode", (tm.sym("iter_" + h["name"], "P"),), "P")
    key = tm.select(tm.sym("H0.first:I", ("A", "P", "I")), nd)
    val = tm.select(tm.sym("H0.second:R", ("A", "P", "R")), nd)
    for j, s in enumerate(its):
        out = [e.args[0] for e in U.iter_events(s) if sh(e) == "operator<<" and e.args]
        vals = [a for a in out if a.op != "str"]
        want = [key, val] if not twin else [val, key]
        ok(r, "write.line_is_number_then_fraction_then_newline[path %d]" % j, vals == want and out and out[-1].op == "str" and "\\n" in repr(out[-1]) and all(a.op == "str" and "\\n" not in repr(a) for a in out[:-1] if a.op == "str"), "trace", repr(out))
    hdr = [e.args[0] for e in e0.events if sh(e) == "operator<<" and e.args]
    i_kw = next((i for i, a in enumerate(hdr) if a.op == "str" and "MIX_RAW" in repr(a)), None)
    nuser = tm.select(tm.sym("H0.n_user:I", ("A", "P", "I")), THIS)
    ok(r, "write.header_is_MIX_RAW_number_description", i_kw is not None and len(hdr) > i_kw + 3 and has_sub(hdr[i_kw + 1], nuser) and hdr[i_kw + 3] is tm.select(tm.sym("H0.description:S", ("A", "P", "S")), THIS), "trace", repr(hdr)[:300])
    stash = LoopStash()
    fn2, ex2, fin2 = run(MX, "cxxMix::read_raw", mk_ctx(loop=stash))
    rnd = [e for s in fin2[:1] for e in s.events if sh(e) == "read_number_description"]
    ok(r, "read.number_and_description_read_first", len(rnd) == 1 and rnd[0].recv is THIS and not any(e.name == "loop_passed" for e in fin2[0].events[:fin2[0].events.index(rnd[0])]), "trace", repr(rnd))
    nm = names_of(fn2)
    n = 0
    for node2, e02, its2 in stash.runs:
        for j, s in enumerate(its2):
            mp = [e for e in U.iter_events(s) if e.name.startswith("map.")]
            if not mp:
                continue
            n += 1
            iv, dv = s.locals.get(nm["i"]), s.locals.get(nm["d"])
            ext = [e for e in U.iter_events(s) if sh(e) == "operator>>"]
            w = writes(s, ("m2", "#mval", "R", "I"))
            good = len(mp) == 1 and mp[0].name == "map.operator[]" and mp[0].recv is MC and mp[0].args[0] is iv and len(w) == 1 and w[0][0] == (MC, iv) and w[0][1] is dv
            ok(r, "read.line_stores_fraction_under_the_solution_number[path %d]" % j, good, "symex", repr(mp) + repr(w))
            ok(r, "read.line_extracts_the_integer_then_the_real[path %d]" % j, len(ext) == 2 and ext[0].args[0] is iv and ext[1].args[0] is dv, "trace", repr(ext)[:200])
    ok(r, "reach.read", n >= 1, "symex", "%d storing paths" % n, kind="vacuity", undecided=True)
    r.assumptions += ["stream insertion / extraction of int and double round-trip at the precision set (DBL_DIG-1: not decided here)", "std::map walk model; the option loop of read_raw is executed as one arbitrary iteration"]
    return r
from props.c10_ext2 import UNITS as _U2; UNITS = UNITS + _U2
from props.c10_ext3 import UNITS as _U3; UNITS = UNITS + _U3
from props.c10_ext5 import UNITS as _U5; UNITS = UNITS + _U5
