"""C02 extension units, third batch.  Helper modules:
props/c02_ext3_mb.py   (prep.cpp mb_for_species_aq / _ex / _surf: which balances a species enters, under which condition, with which amount;
                        the diffuse-layer charge terms; the plane charges of surface species - these units also run under C20 and C01 through the alias rules),
props/c02_ext3_step.py (step.cpp add_exchange / add_surface / add_kinetics / add_ss_assemblage / add_gas_phase: every reactant's elements added exactly once)."""
from props import c02_ext3_mb as _MB
from props import c02_ext3_step as _ST

UNITS = list(_MB.UNITS) + list(_ST.UNITS)
