"""C10 extension units, third batch: UNDER WHICH CONDITION the RAW writer of each entity class writes a member, and what one key read changes.

C10.written_when.<class>   cxx<Class>::dump_raw is executed symbolically from an arbitrary object; every path is a sequence of output events
                           (key literal, values, nested dump_raw calls, value / key loops).  Every member that read_raw can set must be written on
                           every path on which it can differ from the value an absent key leaves: the only paths allowed to omit it are those whose
                           path condition says that THIS member is empty (or, for the pairs listed in PAIRS, that the member it depends on is off).
C10.read_frame.<class>     one arbitrary pass of read_raw's option switch: reading a key the writer writes touches only the member(s) the writer
                           prints under that key; the `missing identifier` errors of the completeness check cannot fire after a dump was read
                           (each of them is switched off by a key that dump_raw writes on every path); top-level classes read number and description.
C10.StorageBin.*           the one-number writer of the storage bin and the collection getters.
"""
import re, json, threading
from props.c14_ext_lib import *
from props import C10 as P

D = P.D
UNITS = []


def unit(uid):
    def deco(f):
        UNITS.append((uid, f))
        return f
    return deco


# ------------------------------------------------------------------------------------------------------------------- executor set-up
class STL3(STL2):
    """STL2 plus std::vector iterators: an iterator value IS the address of its element (so *it reads mem[it, 0]); ++ moves to inext(it)"""
    @staticmethod
    def _vec_iter(objt):
        return "__normal_iterator" in objt or ("vector<" in objt and "iterator" in objt)

    def map_empty(self, ex, st, n, name, recv, args):
        return [(st, tm.eq(tm.select(ex.heap_arr(st, ("f", "#msize", "I")), recv), tm.num(0, "I")))]

    def iter_self(self, ex, st, n, name, arg_nodes):
        if arg_nodes[0].get("valueCategory") == "lvalue":
            return [(s1, ex.load(s1, l, "P")) for s1, l in ex.lv(arg_nodes[0], st)]
        return ex.ev(arg_nodes[0], st)

    def operator_handler(self, objt, opname):
        if self._vec_iter(objt):
            if opname in ("operator*", "operator->"):
                return self.iter_self
            if opname in ("operator++", "operator--"):
                return STL2.operator_handler(self, "std::_Rb_tree_const_iterator<x>", opname)
            if opname == "operator==":
                return lambda ex, st, n, name, an: self.iter_eq(ex, st, n, name, an, False)
            if opname == "operator!=":
                return lambda ex, st, n, name, an: self.iter_eq(ex, st, n, name, an, True)
            if opname == "operator=":
                return self.iter_assign
        return STL2.operator_handler(self, objt, opname)


class Stash3(object):
    """ctx.loop callback: every loop reached is run as an iteration contract from the state in which it is reached (kept with the event
    `loop_passed` the path gets), then havocked.  A loop the executor cannot iterate is recorded as such (its = None)."""
    def __init__(self):
        self.by_event = {}

    def __call__(self, ex, st, n, o):
        e0 = st.clone()
        try:
            its = [s for s in ex.iterate_loop(n, st.clone()) if s.status in ("run", "cont", "brk", "ret", "throw") and sat(s.pc)]
            err = None
        except Undecided as e:
            its, err = None, str(e)
        res = ex.havoc_loop(n, st)
        for s in res:
            ev = SX.Event("loop_passed", None, [tm.num(o, "I")], tm.num(0, "I"), n)
            s.events.append(ev)
            self.by_event[id(ev)] = dict(ev=ev, node=n, entry=e0, its=its, err=err, ordinal=o)
        return res

    def info(self, ev):
        return self.by_event.get(id(ev))


def mk3(functional=(), stash=None):
    c = mk_ctx(functional=functional, loop=stash)
    c.stl = STL3(SX); c.stl.check_bounds = False
    return c


_FLD = re.compile(r"H\w*\.([A-Za-z_]\w*):")


def _elem(base, idx):
    """'X[k]' for element k (a literal) of the array member X of *this, else None"""
    if isinstance(base, tm.T) and base.op == "app" and isinstance(base.args[0], str) and base.args[0].startswith("fld:") and len(base.args) > 1 and base.args[1] is THIS and tm.isnum(idx):
        return "%s[%d]" % (base.args[0][4:], int(idx.args[0]))
    return None


def members_in(t, out=None):
    """names of the data members of *this a term reads or addresses: select(H.<m>, (this)) and fld:<m>(this); element k of an array member
    (capacitance[0], capacitance[1]) is a member of its own"""
    out = set() if out is None else out
    if not isinstance(t, tm.T):
        return out
    used = set()
    subs = list(tm.subterms(t))
    for x in subs:
        if x.op == "select" and isinstance(x.args[0], tm.T) and len(x.args) >= 2:
            idx = x.args[1] if isinstance(x.args[1], tuple) else x.args[1:]
            if len(idx) == 2:
                en = _elem(idx[0], idx[1])
                if en:
                    out.add(en); used.add(idx[0])
    for x in subs:
        if x.op == "select" and isinstance(x.args[0], tm.T) and x.args[0].op == "sym" and len(x.args) >= 2:
            m = _FLD.match(x.args[0].args[0])
            idx = x.args[1] if isinstance(x.args[1], tuple) else x.args[1:]
            if m and any(i is THIS for i in idx):
                out.add(m.group(1))
        elif x.op == "app" and isinstance(x.args[0], str) and x.args[0].startswith("fld:") and len(x.args) > 1 and x.args[1] is THIS and x not in used:
            out.add(x.args[0][4:])
    return out


def syms_in(t, out=None):
    out = set() if out is None else out
    if isinstance(t, tm.T):
        for x in tm.subterms(t):
            if x.op == "sym" and isinstance(x.args[0], str):
                out.add(x.args[0])
    return out


def str_text(a):
    if isinstance(a, tm.T) and a.op == "str" and isinstance(a.args[0], str):
        v = a.args[0]
        try:
            return json.loads(v)
        except Exception:
            return v.strip('"')
    return None


def class_file(cls):
    return D + dict((c, r) for r, c in P.CLASSES)[cls]


# --------------------------------------------------------------------------------------------------------------------- writer model
def _var_type(fn, did):
    for x in A.walk(fn):
        if x.get("kind") == "VarDecl" and x.get("id") == did:
            return x.get("type", {}).get("desugaredQualType") or x.get("type", {}).get("qualType", "")
    return ""


def _loop_walk(fn, ex, info):
    """(container member the loop walks, does it visit every element exactly once, induction symbol, detail)"""
    node, e0 = info["node"], info["entry"]
    try:
        did, name = loop_var(ex, node)
    except Undecided as e:
        return None, False, None, str(e)
    sort = "P" if "iterator" in _var_type(fn, did) else "I"
    try:
        h = loop_head(ex, node, e0, sort=sort)
    except Undecided as e:
        return None, False, "iter_" + str(name), str(e)
    det = "%r | %r | %r" % (h["first"], h["cond"], h["next"])
    isym = "iter_" + str(name)
    if h["first"] is None or h["cond"] is None or h["next"] is None:
        return None, False, isym, det
    if sort == "P":
        f = h["first"]
        if not (f.op == "app" and f.args[0] == "call:begin" and len(f.args) == 2):
            return None, False, isym, det
        ms = members_in(f.args[1])
        if len(ms) != 1 or f.args[1] is not fmap(list(ms)[0]):
            return None, False, isym, det
        return list(ms)[0], all(walks_whole_set(h, f.args[1], e0.pc)), isym, det
    ms = members_in(h["cond"])
    if len(ms) != 1:
        return None, False, isym, det
    m = list(ms)[0]
    size = tm.select(ex.heap_arr(e0, ("f", "#vsize", "I")), fmap(m))
    K = h["K"]
    okc = proved(e0.pc, tm.eq(h["cond"], tm.lt(K, size))) or proved(e0.pc, tm.eq(h["cond"], tm.not_(tm.eq(K, size))))
    ok_ = tm.isnum(h["first"]) and h["first"].args[0] == 0 and okc and proved(e0.pc, tm.eq(h["next"], tm.add(K, tm.num(1, "I"))))
    return m, bool(ok_), isym, det


def _scan(fn, ex, events, stash, vopts, heading0=""):
    """events of one path (or of one loop iteration) -> (segments, loops passed).  A segment is opened by a literal `-key` and collects
    what is written until the next key / `#` heading / key loop: members printed directly (values of the << chain, receivers of nested
    dump_raw / getters), and value loops (loops that print elements without a key of their own)."""
    segs, loops, cur = [], [], None
    heading = heading0
    for e in events:
        if e.name == "loop_passed":
            info = stash.info(e)
            if info is None:
                continue
            L = dict(info)
            L["container"], L["walk_ok"], L["isym"], L["walk_detail"] = _loop_walk(fn, ex, info)
            its = info["its"] or []
            L["live"] = [s for s in its if s.status in ("run", "cont")]
            L["early"] = [s for s in its if s.status in ("brk", "ret", "throw")]
            L["iters"] = []
            for s in L["live"]:
                sg, lp = _scan(fn, ex, U.iter_events(s), stash, vopts, heading)
                vals, vsyms, each = set(), set(), []
                for ev in U.iter_events(s):
                    if sh(ev) == "operator<<" and ev.args and str_text(ev.args[0]) is None and not tm.isnum(ev.args[0]):
                        members_in(ev.args[0], vals); syms_in(ev.args[0], vsyms); each.append((syms_in(ev.args[0]), members_in(ev.args[0]), repr(ev.args[0])[:60]))
                    elif sh(ev) == "dump_raw" and ev.recv is not None:
                        members_in(ev.recv, vals); syms_in(ev.recv, vsyms); each.append((syms_in(ev.recv), members_in(ev.recv), repr(ev.recv)[:60]))
                L["iters"].append(dict(state=s, segs=sg, loops=lp, vals=vals, syms=vsyms, each=each))
            L["keyed"] = any(it["segs"] for it in L["iters"])
            loops.append(L)
            if L["keyed"]:
                cur = None
            elif cur is not None:
                cur["loopvals"].append(L)
            continue
        nm = sh(e)
        if nm == "operator<<" and e.args:
            txt = str_text(e.args[0])
            if txt is not None:
                m = re.match(r"\s*-([A-Za-z_]\w*)", txt)
                if m:
                    key = m.group(1)
                    cur = dict(key=key, idx=P.resolve(key, vopts), direct=set(), syms=set(), loopvals=[], consts=[], heading=heading)
                    segs.append(cur)
                elif txt.lstrip().startswith("#"):
                    cur = None
                    heading = txt.strip()
                elif re.match(r"\s*[A-Z][A-Z_]*_RAW\b", txt):
                    cur = dict(key="<header>", idx=None, direct=set(), syms=set(), loopvals=[], consts=[], heading=heading)
                    segs.append(cur)
                continue
            if cur is not None:
                members_in(e.args[0], cur["direct"]); syms_in(e.args[0], cur["syms"])
                if tm.isnum(e.args[0]):
                    cur["consts"].append(e.args[0].args[0])
            continue
        if cur is not None and e.recv is not None and nm not in ("precision", "operator<<", "setf", "width", "flags", "begin", "end", "size", "empty", "find", "c_str", "length", "rbegin", "rend", "iter_begin"):
            members_in(e.recv, cur["direct"]); syms_in(e.recv, cur["syms"])
    return segs, loops


def inline_own_methods(c, rel, cls, fn, prefixes=("Get_",)):
    """Get_X() called by the writer on *this is executed from its real body (e.g. Get_countTemps: countTemps or temps.size())"""
    names = set()
    for x in A.walk(fn):
        if x.get("kind") == "CXXMemberCallExpr" and x.get("inner"):
            me = P.strip(x["inner"][0])
            if me.get("kind") == "MemberExpr" and str(me.get("name", "")).startswith(tuple(prefixes)) and me.get("inner") and P.strip(me["inner"][0]).get("kind") == "CXXThisExpr":
                names.add(me["name"])
    for nm in sorted(names):
        try:
            g = A.find_function(rel, cls + "::" + nm)
        except Undecided:
            continue
        if any(x.get("kind") in ("ForStmt", "WhileStmt", "DoStmt") for x in A.walk(A.body_of(g))):
            continue
        def h(ex, st, n, name, recv, args, g=g):
            if recv is not THIS:
                raise Undecided("getter %s on another object" % name)
            sub = type(ex)(ex.ctx)
            out = []
            for s2 in sub.run(g, st, params=list(args)):
                if s2.status == "ret" and s2.ret is not None:
                    v = s2.ret; s2.status = "run"; s2.ret = None
                    out.append((s2, v))
                elif s2.status in ("ret", "run"):
                    s2.status = "run"; s2.ret = None
                    out.append((s2, tm.num(0, "I")))
                else:
                    raise Undecided("getter %s ends with status %s" % (name, s2.status))
            return out
        c.handlers[cls + "::" + nm] = h


_WM = {}
_LOCK = threading.RLock()


def writer_model(cls):
    with _LOCK:
        return _writer_model(cls)


def _writer_model(cls):
    if cls in _WM:
        return _WM[cls]
    rel = class_file(cls)
    stash = Stash3()
    c = mk3(functional=("begin", "end", "size"), stash=stash)
    inline_own_methods(c, rel, cls, A.find_function(rel, cls + "::dump_raw"))
    fn, ex, fin = run(rel, cls + "::dump_raw", c)
    vopts = P.vopts_list(rel, cls)
    paths = []
    for s in fin:
        segs, loops = _scan(fn, ex, s.events, stash, vopts)
        paths.append(dict(state=s, segs=segs, loops=loops))
    top = any(p_.get("name") == "n_out" for p_ in A.params_of(fn))
    _WM[cls] = dict(fn=fn, ex=ex, paths=paths, vopts=vopts, rel=rel, top=top)
    return _WM[cls]


def _elem_loop_ok(L, M, keyed, keys_ok=None):
    """loop L writes every element of container M: it walks M completely, never leaves early, and every iteration prints something that is
    addressed through the loop's own induction variable (or through M itself) - under a key of its own when `keyed`"""
    if L["its"] is None or L["container"] != M or not L["walk_ok"] or L["early"] or not L["live"]:
        return False
    for it in L["iters"]:
        # every value printed / nested writer called in the iteration belongs to the element of THIS round (not element 0, not a neighbour's)
        if any(L["isym"] not in sy and not any(str(y).startswith(("ret_", "retref_")) for y in sy) for sy, ms, txt in it["each"]):
            return False
        if keyed:
            good = [sg for sg in it["segs"] if sg["idx"] is not None and sg["idx"] >= 0 and (keys_ok is None or keys_ok(sg)) and (L["isym"] in sg["syms"] or M in sg["direct"])]
            if not good:
                return False
        elif not (L["isym"] in it["syms"] or M in it["vals"]):
            return False
    return True


def covered(path, M, keys_ok):
    """is member M written on this path?  -> (bool, how)"""
    for sg in path["segs"]:
        if sg["key"] == "<header>" or not keys_ok(sg):
            continue
        if M in sg["direct"]:
            return True, "-%s" % sg["key"]
        for L in sg["loopvals"]:
            if _elem_loop_ok(L, M, keyed=False):
                return True, "-%s + value loop" % sg["key"]
    for L in path["loops"]:
        if L["keyed"] and _elem_loop_ok(L, M, keyed=True, keys_ok=keys_ok):
            return True, "key loop over %s" % M
    return False, ""


def empty_terms(ex, s, M):
    """the forms `member M is empty` can take, depending on its type (string / map / vector)"""
    return [tm.eq(tm.app("strlen", (tm.select(ex.heap_arr(s, ("f", M, "S")), THIS),), "I"), tm.num(0, "I")),
            tm.eq(tm.select(ex.heap_arr(s, ("f", "#msize", "I")), fmap(M)), tm.num(0, "I")),
            tm.eq(tm.select(ex.heap_arr(s, ("f", "#vsize", "I")), fmap(M)), tm.num(0, "I"))]


def nonneg(ex, s, M):
    return [tm.le(tm.num(0, "I"), tm.app("strlen", (tm.select(ex.heap_arr(s, ("f", M, "S")), THIS),), "I")),
            tm.le(tm.num(0, "I"), tm.select(ex.heap_arr(s, ("f", "#msize", "I")), fmap(M))),
            tm.le(tm.num(0, "I"), tm.select(ex.heap_arr(s, ("f", "#vsize", "I")), fmap(M)))]


# --------------------------------------------------------------------------------------------------------------------- reader model
_RM = {}


def _touched(s, evs, stash, fn, ex, depth=0):
    """members of *this and local objects a path (or iteration) of read_raw stores into / extracts into / calls a method on"""
    mem, loc = set(), set()
    def note(t):
        members_in(t, mem)
        for y in syms_in(t):
            if y.startswith("&L_"):
                loc.add(y[3:])
    for e in evs:
        if e.name == "loop_passed":
            info = stash.info(e) if stash is not None else None
            for s2 in (info["its"] or []) if info else []:
                if s2.status in ("run", "cont", "brk") and depth < 3:
                    m2, l2 = _touched(s2, U.iter_events(s2), stash, fn, ex, depth + 1)
                    mem |= m2; loc |= l2
            continue
        nm = sh(e)
        if nm in ("get_iss", "operator!", "error_msg", "incr_input_error", "warning_msg", "iter_begin", "peek_token", "copy_token", "get_option", "getOptionFromLastLine", "Get_io", "c_str", "size", "eof", "good", "fail"):
            if nm == "copy_token":
                for a in e.args:
                    note(a)
            continue
        if e.recv is not None:
            note(e.recv)
        if nm == "operator>>":
            for a in e.args:
                note(a)
    for key in s.heap:
        for ix, val in writes(s, key):
            ixs = ix if isinstance(ix, tuple) else (ix,)
            if key[0] == "f" and not key[1].startswith("#") and any(i is THIS for i in ixs):
                mem.add(key[1])
            en = _elem(ixs[0], ixs[1]) if key[0] == "m" and len(ixs) == 2 else None
            if en:
                mem.add(en); continue
            for i in ixs:
                note(i)
    return {m for m in mem if not m.startswith("#")}, loc


def reader_model(cls):
    with _LOCK:
        return _reader_model(cls)


def _reader_model(cls):
    if cls in _RM:
        return _RM[cls]
    rel = class_file(cls)
    q = cls + "::read_raw"
    fn = A.find_function(rel, q)
    body = A.body_of(fn).get("inner", [])
    sws = [x for x in A.walk(fn) if x.get("kind") == "SwitchStmt"]
    if not sws:
        raise Undecided("%s: no option switch" % q)
    sw = sws[0]
    li = [i for i, x in enumerate(body) if x.get("kind") in ("ForStmt", "WhileStmt", "DoStmt") and any(y is sw for y in A.walk(x))]
    if len(li) != 1:
        raise Undecided("%s: option loop not found" % q)
    vopts = P.vopts_list(rel, cls)
    stash = Stash3()
    c = mk3(functional=("get_iss",), stash=stash)
    inline_own_methods(c, rel, cls, fn, prefixes=("Set_",))
    f, ex, fin, names = exec_nodes(rel, q, [sw], c)
    OPT = tm.sym("L_opt", "I")
    flags = {n: i for n, i in names.items() if n.endswith("_defined") and _var_type(fn, i).replace("const ", "").strip() in ("bool", "_Bool")}
    cases_ = {}
    def opt_of(s):
        for c_ in s.pc:
            if c_.op == "==" and c_.args[0] is OPT and tm.isnum(c_.args[1]):
                return int(c_.args[1].args[0])
        return None
    optv = [opt_of(s) for s in fin]
    for k in range(len(vopts)):
        ps = []
        for s, ov in zip(fin, optv):
            if ov != k and (ov is not None or not proved(s.pc, tm.eq(OPT, tm.num(k, "I")))):
                continue
            err = any(sh(e) in ("error_msg", "incr_input_error") for e in s.events)
            mem, loc = _touched(s, s.events, stash, fn, ex)
            ps.append(dict(state=s, err=err, mem=mem, loc=loc, flags={n for n, i in flags.items() if s.locals.get(i) is tm.TRUE},
                           msgs=[str_text(e.args[0]) or "" for e in s.events if sh(e) in ("error_msg", "warning_msg") and e.args]))
        if ps:
            cases_[k] = ps
    # tail: what follows the option loop (temporaries copied into members; completeness check)
    tail = body[li[0] + 1:]
    links, errs, link_guards = {}, [], {}
    for stmt in tail:
        # each statement after the option loop from an arbitrary state; branches joined where the executor can (2^n `not defined` tests)
        fin2 = None
        for merge in (True, False):
            c2 = mk3(functional=("get_iss", "size"))
            c2.merge_ifs = merge
            try:
                f2, ex2, fin2, names2 = exec_nodes(rel, q, [stmt], c2)
                break
            except Undecided:
                if not merge:
                    raise
        for s in fin2:
            for e in s.events:
                if sh(e) == "operator=" and e.recv is not None and members_in(e.recv):
                    for a in e.args:
                        for y in syms_in(a):
                            if y.startswith("&L_"):
                                for m in members_in(e.recv):
                                    links.setdefault(y[3:], set()).add(m)
                                    link_guards.setdefault((y[3:], m), []).append(tm.and_(*(list(s.pc) + [e.guard])))
                if sh(e) == "error_msg":
                    errs.append((tm.and_(*(list(s.pc) + [e.guard])), str_text(e.args[0]) if e.args else ""))
    pre = body[:li[0]]
    fills = []         # (temporary, flags true at the end of a pass that appended to it)
    def collect(s_, evs, depth=0):
        for e in evs:
            if e.name == "loop_passed":
                info = stash.info(e)
                for s2 in (info["its"] or []) if info else []:
                    if s2.status in ("run", "cont", "brk") and depth < 3:
                        collect(s2, U.iter_events(s2), depth + 1)
            elif e.name in ("vector.push_back", "map.operator[]", "map.insert") and isinstance(e.recv, tm.T):
                for y in syms_in(e.recv):
                    if y.startswith("&L_"):
                        fills.append((y[3:], {n for n, i in flags.items() if s_.locals.get(i) is tm.TRUE}))
    for s in fin:
        collect(s, s.events)
    _RM[cls] = dict(fn=fn, vopts=vopts, cases=cases_, links=links, errs=errs, flags=flags, pre=pre, rel=rel, q=q, link_guards=link_guards, fills=fills)
    return _RM[cls]


def case_is_error_arm(ps):
    return all(p["err"] or any(re.search(r"obsolete|Unknown input|not used|no longer|ignored", m or "", re.I) for m in p["msgs"]) for p in ps)


def readable_members(R):
    """member -> option indices whose case (success paths) sets it, directly or through a temporary the tail copies into it"""
    out = {}
    for k, ps in R["cases"].items():
        for p in ps:
            if p["err"]:
                continue
            for m in p["mem"]:
                out.setdefault(m, set()).add(k)
            for t in p["loc"]:
                for m in R["links"].get(t, ()):
                    out.setdefault(m, set()).add(k)
    return out


# A written only when B says so, because A means nothing without B (read from the code that USES A)
PAIRS = {
    "cxxSolutionIsotope": {"ratio_uncertainty": ("ratio_uncertainty_defined", "B",
        "read.cpp (isotopes of an initial solution -> struct isotope): `if (Get_ratio_uncertainty_defined()) iso_ptr->ratio_uncertainty = Get_ratio_uncertainty(); else NAN`; "
        "an undefined uncertainty is stored as NAN (read.cpp / spread.cpp Set_ratio_uncertainty(NAN)), which operator>> could not read back")},
    "cxxTemperature": {"countTemps": ("equalIncrements", "B",
        "Temperature.cxx: Temperature_for_step and Get_countTemps read countTemps only under `if (equalIncrements)`; otherwise the number of steps is temps.size() "
        "(which is what the writer prints under -count_temps then)")},
}

# written as a literal constant instead of the member: the member is a request flag that the engine has lowered before any state can be dumped
CONSTANTS = {
    "cxxExchange": {"new_def": (0, "request for the initial exchange calculation: Phreeqc::initial_exchangers (mainsubs.cpp) skips entries with new_def == false and lowers it first thing; "
                                    "DUMP is served at the end of the simulation, after the initial calculations"),
                    "solution_equilibria": (0, "read only by initial_exchangers, for entries whose new_def is (still) true")},
    "cxxPPassemblage": {"new_def": (0, "Phreeqc::tidy_pp_assemblage (tidy.cpp) lowers new_def of every assemblage of the simulation before any calculation; nothing reads it afterwards")},
}


def unit_written_when(cls, twin=False):
    W = writer_model(cls)
    R = reader_model(cls)
    fn, ex = W["fn"], W["ex"]
    r = U.new_unit("C10.written_when." + cls, W["rel"], "%s::dump_raw (against what %s::read_raw can set)" % (cls, cls), fn)
    rd = readable_members(R)
    if twin:
        rd = dict(rd); rd["verif_twin_member"] = {0}
    paths = W["paths"]
    n_paths = len(paths)
    n_key = 0
    for M in sorted(rd):
        ks = rd[M]
        def keys_ok(sg, ks=ks):
            return sg["idx"] is not None and sg["idx"] in ks
        how, bad, exempt = set(), [], []
        pair = PAIRS.get(cls, {}).get(M)
        for j, p in enumerate(paths):
            s = p["state"]
            cov, h = covered(p, M, keys_ok)
            if cov:
                how.add(h); continue
            const = CONSTANTS.get(cls, {}).get(M)
            if const is not None:
                sg_ = [sg for sg in p["segs"] if keys_ok(sg)]
                if len(sg_) == 1 and sg_[0]["consts"] == [const[0]] and not sg_[0]["direct"] and not sg_[0]["loopvals"]:
                    how.add("written as the constant %r (CONSTANTS)" % (const[0],)); continue
            hy = list(s.pc) + nonneg(ex, s, M)
            if any(proved(hy, t) for t in empty_terms(ex, s, M)):
                how.add("omitted only when %s itself is empty" % M); continue
            if pair is not None:
                off = tm.not_(tm.to_bool(tm.select(ex.heap_arr(s, ("f", pair[0], pair[1])), THIS)))
                if proved(hy, off):
                    how.add("omitted only when %s is off (PAIRS)" % pair[0]); continue
            anyk = covered(p, M, lambda sg: True)[0]
            scratch = [sg for sg in p["segs"] if M in sg["direct"] and "workspace" in sg["heading"].lower()]
            if anyk and scratch:
                exempt.append("-%s (resolves to option %r)" % (scratch[0]["key"], W["vopts"][scratch[0]["idx"]] if scratch[0]["idx"] is not None and scratch[0]["idx"] >= 0 else None)); continue
            bad.append("path %d [%s]%s" % (j, " & ".join(repr(x) for x in s.pc)[:160] or "true", " (printed, but under a key whose case does not store it)" if anyk else ""))
        if any(h.startswith(("-", "key loop")) for h in how):
            n_key += 1
        if exempt and not bad:
            r.add("member[%s].scratch_value_printed_under_a_key_that_is_not_read_back" % M, DISCHARGED, "exemption", 0,
                  "EXEMPT (assumption): %s stands under the writer's own `workspace variables` heading - recomputed by the next calculation, the property does not ask that scratch values survive (DESIGN 3.3); printed as %s" % (M, exempt[0]), kind="exempt")
            continue
        ok(r, "member[%s].written_on_every_path_where_it_can_differ_from_what_an_absent_key_leaves" % M, not bad, "symex+z3", "; ".join(bad) if bad else "; ".join(sorted(how)))
        if pair is not None:
            # the dependence is exactly the stated one: written whenever B is on
            miss = []
            for j, p in enumerate(paths):
                s = p["state"]
                on = tm.to_bool(tm.select(ex.heap_arr(s, ("f", pair[0], pair[1])), THIS))
                if sat(list(s.pc) + [on]) and not covered(p, M, keys_ok)[0]:
                    miss.append(j)
            ok(r, "member[%s].written_whenever_%s_is_on" % (M, pair[0]), not miss, "symex+z3", "paths %s" % miss if miss else pair[2][:200])
    full = max((len(p["segs"]) for p in paths), default=0)
    ok(r, "reach.paths", n_paths >= 1 and len(rd) >= 1 and n_key >= 1, "symex", "%d path(s), up to %d keys at top level, %d readable members, %d of them written under a key of their own" % (n_paths, full, len(rd), n_key), kind="vacuity", undecided=True)
    if W["top"]:
        bad = []
        for j, p in enumerate(paths):
            hd = [sg for sg in p["segs"] if sg["key"] == "<header>"]
            first = p["segs"][0] if p["segs"] else None
            good = len(hd) == 1 and first is hd[0] and {"n_user", "description"} <= hd[0]["direct"] and any("n_out" in y for y in hd[0]["syms"])
            if twin and j == 0:
                good = good and "verif_twin" in hd[0]["direct"]
            if not good:
                bad.append("path %d: %s" % (j, [(sg["key"], sorted(sg["direct"])) for sg in hd]))
        ok(r, "header.keyword_number(n_out_or_own)_description_written_first_on_every_path", not bad, "symex", "; ".join(bad)[:300])
    r.assumptions += ["which members read_raw can set and under which option: one arbitrary pass of its option switch plus the statements after the option loop (unit C10.read_frame.%s)" % cls,
                      "key -> option as CParser::find_option resolves it (C10.keys.%s); the text of each value and the nested writers are under C10.keys.* / C10.cxxNameDouble.RAW" % cls,
                      "std::map / std::vector walk model (begin, != end, ++ visit every element once); a std::vector iterator is the address of its element",
                      "an empty string / container is what read_raw leaves when the key is absent from a dump written for a new object (the *_RAW reader starts from a default-constructed object); "
                      "for *_MODIFY an omitted empty member keeps its previous value (not decided here)"]
    if PAIRS.get(cls):
        r.assumptions += ["%s is written only when %s is on: %s" % (m, v[0], v[2]) for m, v in PAIRS[cls].items()]
    if CONSTANTS.get(cls):
        r.assumptions += ["%s is written as the constant %r: %s" % (m, v[0], v[1]) for m, v in CONSTANTS[cls].items()]
    return r


# ---------------------------------------------------------------------------------------------------------------------- read frame
def writer_own(W):
    """option index -> members the writer prints under the key(s) resolving to it (on any path), and the set of options written on EVERY path"""
    own, always = {}, None
    for p in W["paths"]:
        here = set()
        def take(sg, extra=()):
            if sg["idx"] is None or sg["idx"] < 0:
                return
            o = own.setdefault(sg["idx"], set())
            o |= sg["direct"]; o |= set(extra)
            for L in sg["loopvals"]:
                if L["container"]:
                    o.add(L["container"])
                for it in L["iters"]:
                    o |= it["vals"]
        for sg in p["segs"]:
            take(sg)
            if sg["idx"] is not None and sg["idx"] >= 0:
                here.add(sg["idx"])
        for L in p["loops"]:
            for it in L["iters"]:
                for sg in it["segs"]:
                    take(sg, [L["container"]] if L["container"] else [])
        always = here if always is None else (always & here)
    return own, (always or set())


# reading key K may also change member M (beyond what is written under K), with the reason read from the code
ALLOWED_EXTRA = {
    "cxxPPassemblageComp": {"dissolve_only": {"precipitate_only": "the two options exclude each other: reading dissolve_only = true lowers precipitate_only (a dump never carries both as true)"},
                            "precipitate_only": {"dissolve_only": "the two options exclude each other: reading precipitate_only = true lowers dissolve_only"}},
    "cxxSolutionIsotope": {"ratio_uncertainty": {"ratio_uncertainty_defined": "PAIRS partner: the value is written only when it is defined; reading it marks it defined"}},
}


def unit_read_frame(cls, twin=False):
    W = writer_model(cls)
    R = reader_model(cls)
    r = U.new_unit("C10.read_frame." + cls, R["rel"], "%s::read_raw (against what %s::dump_raw writes)" % (cls, cls), R["fn"])
    own, always = writer_own(W)
    vopts = R["vopts"]
    rd = readable_members(R)
    for m, (cv, why) in CONSTANTS.get(cls, {}).items():
        for k in rd.get(m, ()):
            if k in own:
                own[k].add(m)          # the key is written with a constant in place of the member (C10.written_when.%s)
    scratch_keys = {sg["idx"] for p in W["paths"] for sg in p["segs"] if "workspace" in sg["heading"].lower()}
    n = 0
    first = True
    for k in sorted(own):
        ps = [p for p in R["cases"].get(k, []) if not p["err"]]
        if not ps:
            continue        # a key without a readable case: reported by C10.keys.<class>
        mine = set(own[k])
        if twin and first:
            mine = {"verif_twin_member"}
        first = False
        n += 1
        foreign, hit = [], False
        for p in ps:
            linked = set()
            for t in p["loc"]:
                linked |= R["links"].get(t, set())
            extra = sorted(m for m in p["mem"] if m not in mine and m not in ALLOWED_EXTRA.get(cls, {}).get(vopts[k], {}))
            if extra:
                foreign.append("%s [%s]" % (extra, " & ".join(repr(x) for x in p["state"].pc[1:])[:100]))
            if (p["mem"] | linked) & mine:
                hit = True
        ok(r, "key[-%s].reading_it_changes_only_the_member_written_under_it" % vopts[k], not foreign, "symex", "written under it: %s; also touched: %s" % (sorted(mine), "; ".join(foreign)) if foreign else "touches %s" % sorted(set().union(*[p["mem"] for p in ps])), kind="frame")
        if mine and not hit and k in scratch_keys:
            r.add("key[-%s].scratch_value_not_read_back" % vopts[k], DISCHARGED, "exemption", 0, "EXEMPT (assumption): written %s under the writer's `workspace variables` heading; the key resolves to option '%s' which does not store it (DESIGN 3.3: scratch values need not survive)" % (sorted(mine), vopts[k]), kind="exempt")
        elif mine:
            ok(r, "key[-%s].its_case_stores_into_the_member_written_under_it" % vopts[k], hit, "symex", "written %s; case touches %s, temporaries %s" % (sorted(mine), sorted(set().union(*[p["mem"] for p in ps])), sorted(set().union(*[p["loc"] for p in ps]))))
    # values collected in a temporary reach the member: the copy after the loop happens whenever a value was appended
    for (T, M), gs in sorted(R["link_guards"].items()):
        fl = [f for t, f in R["fills"] if t == T]
        if not fl:
            continue
        good = all(any(proved([tm.sym("L_" + x, "B") for x in sorted(f)], g) for g in gs) for f in fl)
        if twin:
            good = good and all(any(proved([], g) for g in gs) for f in fl)
        ok(r, "list[%s].values_collected_in_%s_are_copied_into_the_member_whenever_one_was_read" % (M, T), good, "symex+z3", "appended with flags %s; copied when %s" % ([sorted(f) for f in fl][:3], [repr(g)[:80] for g in gs][:2]))
    # completeness check: no `not defined` error after a dump was read
    est = set()
    for k in always:
        ps = [p for p in R["cases"].get(k, []) if not p["err"] and (p["mem"] or any(R["links"].get(t) for t in p["loc"]))]
        if ps:
            est |= set.intersection(*[p["flags"] for p in ps])
    hyp = [tm.sym("L_" + f, "B") for f in sorted(est)]
    if twin and R["errs"]:
        hyp = hyp[1:] if hyp else hyp
    seen = set()
    for g, msg in R["errs"]:
        if msg is None or (msg, repr(g)) in seen:
            continue
        seen.add((msg, repr(g)))
        fl = sorted(y[2:] for y in syms_in(g) if y.startswith("L_") and y.endswith("_defined"))
        silent = not sat(hyp + [g])
        ok(r, "check[%s].cannot_fire_after_a_dump_was_read" % (re.sub(r"\W+", "_", (msg or "?").strip())[:50]), silent, "symex+z3",
           "fires when %s; keys written on every path establish %s" % (fl or repr(g)[:120], sorted(est)))
    if W["top"]:
        c = mk3(functional=("get_iss",))
        f, ex, fin, names = exec_nodes(R["rel"], R["q"], R["pre"], c) if R["pre"] else (None, None, [], {})
        good = bool(fin)
        for s in fin:
            rn = [e for e in s.events if sh(e) == "read_number_description"]
            good = good and len(rn) == 1 and rn[0].recv is THIS
        ok(r, "number_and_description_read_once_before_the_options", good, "symex", "%d path(s)" % len(fin))
    ok(r, "reach.keys", n >= 1, "symex", "%d written keys with a readable case; %d completeness errors; keys on every path: %s" % (n, len(seen), sorted(vopts[k] for k in always)), kind="vacuity", undecided=True)
    r.assumptions += ["one arbitrary pass of the option switch (opt arbitrary) and the statements after the option loop, each from an arbitrary state; the dispatch loop itself (opt_save / continuation lines) is under C10.nested_reader_protocol / C10.read_raw.list_options_*",
                      "frame and `cannot fire` are demanded on the paths that report no input error (a dump is well-formed text: C10.keys.*); what the error arms of a case reset is not under this contract",
                      "a key line of a dump carries its value (numbers always print; strings written as values are not empty, e.g. cxxReaction::units is `Mol` unless set): the paths of a case that find no token and store nothing are not counted when the flags a key establishes are collected",
                      "only keys that dump_raw writes are constrained (aliases and obsolete options never occur in a dump)",
                      "operator>> extracts into exactly the object named; nested read_raw / STL calls touch only their receiver"]
    for kw, d in ALLOWED_EXTRA.get(cls, {}).items():
        r.assumptions += ["-%s may also change %s: %s" % (kw, m, why) for m, why in d.items()]
    return r


for _rel, _cls in P.CLASSES:
    UNITS.append(("C10.written_when." + _cls, (lambda cls: (lambda twin=False: unit_written_when(cls, twin)))(_cls)))
for _rel, _cls in P.CLASSES:
    UNITS.append(("C10.read_frame." + _cls, (lambda cls: (lambda twin=False: unit_read_frame(cls, twin)))(_cls)))


# --------------------------------------------------------------------------------------------------------------------- storage bin
SB = "src/phreeqcpp/StorageBin.cxx"


@unit("C10.StorageBin.dump_raw(n).every_kind_present_under_n_is_written_once_to_the_caller's_stream_under_the_number_asked")
def unit_sb_dump_one(twin=False):
    """cxxStorageBin::dump_raw(os, n, indent, n_out) (one cell of the bin, optionally renumbered): for each of the eleven kinds K, when the bin
    holds K number n (Get_K(n) != NULL) that entity is written exactly once - its own dump_raw, to the caller's stream, with the caller's indent,
    under the number *n_out when n_out is given and n otherwise; when it does not hold one nothing of K is written."""
    fn = find_bulk(SB, "cxxStorageBin::dump_raw", "cxxStorageBin::dump_raw", nparams=4)
    r = U.new_unit("C10.StorageBin.dump_raw(n).every_kind_present_under_n_is_written_once_to_the_caller's_stream_under_the_number_asked", SB, "cxxStorageBin::dump_raw(std::ostream &, int n, unsigned int indent, int *n_out)", fn)
    body = A.body_of(fn).get("inner", [])
    getters = tuple("Get_" + d["sb"] for d in KINDS)
    # the number the entities are written under
    pre = [x for x in body if x.get("kind") != "IfStmt"]
    c = mk_ctx(functional=getters)
    ex = SX.Exec(c); st = arb_state(ex, fn, c)
    states = [st]
    for x in pre:
        states = ex.exec(x, states)
    states = [s for s in states if sat(s.pc)]
    N, NOUT = tm.sym("L_n", "I"), tm.sym("L_n_out", "P")
    want = tm.ite(tm.not_(tm.eq(NOUT, tm.NULL)), tm.select(tm.sym("H0.mem:I", ("A", "P", "I", "I")), NOUT, tm.num(0, "I")), N)
    num_addrs = None
    for s in states:
        here = set()
        for did, v in s.locals.items():
            if isinstance(v, tuple) and v[0] == "obj" and isinstance(v[1], tm.T):
                val = tm.select(ex.heap_arr(s, ("m", "I")), v[1], tm.num(0, "I"))
                if proved(s.pc, tm.eq(val, want)):
                    here.add(did)
        num_addrs = here if num_addrs is None else (num_addrs & here)
    num_addrs = num_addrs or set()
    num_ids = num_addrs
    ok(r, "a_local_holds_the_number_to_write:*n_out_when_given_else_n", len(states) >= 1 and len(num_ids) >= 1, "symex+z3", "%d path(s); %d local(s)" % (len(states), len(num_ids)))
    seen = {}
    OS, IND = tm.sym("L_s_oss_ref", "P"), tm.sym("L_indent", "I")
    for node in body:
        if node.get("kind") != "IfStmt":
            continue
        c = mk_ctx(functional=getters)
        ex = SX.Exec(c); st = arb_state(ex, fn, c)
        num_addrs = {st.locals[did][1] for did in num_ids if isinstance(st.locals.get(did), tuple)}
        fin = [s for s in ex.exec(node, [st]) if sat(s.pc)]
        wr = [e for s in fin for e in s.events if sh(e) == "dump_raw"]
        ks = {d["k"] for d in KINDS for e in wr if e.recv is tm.app("call:Get_" + d["sb"], (THIS, N), "P")}
        if len(ks) != 1:
            ok(r, "block_writes_entity_n_of_one_kind", False, detail=repr(wr)[:200]); continue
        K = ks.pop()
        d = KIND[K]
        if K in seen:
            ok(r, "%s.one_block" % K, False, detail="second block"); continue
        seen[K] = True
        ent = tm.app("call:Get_" + (d["sb"] if not (twin and K == "surface") else "Exchange"), (THIS, N), "P")
        got = set()
        for j, s in enumerate(fin):
            w = [e for e in s.events if sh(e) == "dump_raw"]
            for hy, has in cases(s.pc, tm.not_(tm.eq(ent, tm.NULL))):
                if has:
                    g = len(w) == 1 and w[0].recv is ent and len(w[0].args) >= 3 and w[0].args[0] is OS and w[0].args[1] is IND and w[0].args[2] in num_addrs
                    ok(r, "%s.present_under_n.written_once_to_the_caller's_stream_with_its_indent_and_the_number_asked%s" % (K, "" if "has" not in got else "#%d" % j), g, "trace", repr(w)[:240]); got.add("has")
                else:
                    ok(r, "%s.absent.nothing_written%s" % (K, "" if "no" not in got else "#%d" % j), not w, "trace", repr(w)[:200], kind="frame"); got.add("no")
        ok(r, "reach.%s" % K, got == {"has", "no"}, "symex", sorted(got), kind="vacuity", undecided=True)
    ok(r, "every_kind_has_a_block", set(seen) == set(ALL), detail="missing %s" % sorted(set(ALL) - set(seen)))
    r.assumptions += ["Get_K(n) returns entry n of K's own store or NULL (C10.StorageBin.accessors); each class's dump_raw writes its header under *n_out (C10.written_when.<class> header)",
                      "blocks executed from arbitrary states (independent of their order)"]
    return r


@unit("C10.StorageBin.collection_getters.each_returns_the_store_of_its_own_kind")
def unit_sb_collections(twin=False):
    """cxxStorageBin::Get_Solutions() ... Get_Pressures(): each returns a reference to the bin's store of that kind and changes nothing (the bulk
    transfer cxxStorageBin2phreeqc and PhreeqcRM walk the bin through these)."""
    fn0 = find_bulk(SB, "cxxStorageBin::Get_", "cxxStorageBin::Get_Solutions", nparams=0)
    r = U.new_unit("C10.StorageBin.collection_getters.each_returns_the_store_of_its_own_kind", SB, "cxxStorageBin::Get_Solutions ... Get_Pressures", fn0)
    n = 0
    for d in KINDS:
        try:
            fn, ex, fin = run(SB, "cxxStorageBin::" + d["sbs"], mk_ctx(), {"nparams": 0}, bulk="cxxStorageBin::Get_")
        except Undecided as e:
            ok(r, "%s.found" % d["sbs"], False, detail=str(e)); continue
        own = fmap(d["sbm"] if not (twin and d["k"] == "surface") else "Exchangers")
        wr = [k for s in fin for k, v in s.heap.items() if v is not None and v.op == "store"] + [e for s in fin for e in s.events if e.name.startswith("map.")]
        ok(r, "%s.returns_%s_and_writes_nothing" % (d["sbs"], d["sbm"]), len(fin) == 1 and fin[0].ret is own and not wr, "symex", "ret %r" % (fin[0].ret if fin else None,))
        n += 1
    ok(r, "reach.getters", n == len(KINDS), "symex", "%d getters" % n, kind="vacuity", undecided=True)
    r.assumptions += ["kind -> (collection getter, member) is the table KINDS of props/c14_ext_lib.py (specification, written from the class declaration)"]
    return r


# ------------------------------------------------------------------------------------------- the two writers without keys (plain lists)
def unit_plain_list(cls, rel, member, twin=False):
    """cxxMix / cxxNameDouble write no keys: one line per entry of the map (cxxMix::mixComps, resp. the cxxNameDouble itself).  On every path the
    writer reaches the entry loop, the loop visits every entry exactly once (begin, != end, ++), is never left early, and every pass prints the
    entry's key and its value (both addressed through the loop's own iterator); cxxMix writes its MIX_RAW header first."""
    stash = Stash3()
    c = mk3(functional=("begin", "end", "size", "pad_right"), stash=stash)
    fn, ex, fin = run(rel, cls + "::dump_raw", c)
    r = U.new_unit("C10.written_when." + cls, rel, cls + "::dump_raw", fn)
    SET = fmap(member) if member else THIS
    if twin:
        SET = fmap("verif_twin_member")
    n = 0
    for j, s in enumerate(fin):
        segs, loops = _scan(fn, ex, s.events, stash, [])
        outl = [L for L in loops if any(it["each"] for it in L["iters"])]
        if len(outl) != 1:
            ok(r, "entries.one_loop_prints_them[path %d]" % j, False, detail="%d printing loops" % len(outl)); continue
        L = outl[0]
        n += 1
        node, e0 = L["node"], L["entry"]
        try:
            h = loop_head(ex, node, e0, sort="P")
            walk = all(walks_whole_set(h, SET, e0.pc))
            det = "%r | %r | %r" % (h["first"], h["cond"], h["next"])
        except Undecided as e:
            walk, det = False, str(e)
        ok(r, "entries.every_entry_visited_once[path %d]" % j, walk, "symex+z3", det)
        ok(r, "entries.loop_never_left_early[path %d]" % j, not L["early"] and bool(L["live"]), "symex", "%d early exits" % len(L["early"]))
        for k, it in enumerate(L["iters"]):
            nd = tm.app("mnode", (tm.sym(L["isym"], "P"),), "P")
            keyt = [t for sy, ms, t in it["each"] if "first" in t and L["isym"] in sy]
            valt = [t for sy, ms, t in it["each"] if "second" in t and L["isym"] in sy]
            stray = [t for sy, ms, t in it["each"] if L["isym"] not in sy and not any(str(y).startswith(("ret_", "retref_")) for y in sy)]
            ok(r, "entries.each_pass_prints_the_key_and_the_value_of_its_own_entry[path %d.%d]" % (j, k), bool(keyt) and bool(valt) and not stray, "trace", repr([t for sy, ms, t in it["each"]])[:200])
        if member:
            hd = [sg for sg in segs if sg["key"] == "<header>"]
            ok(r, "header.keyword_number(n_out_or_own)_description_written_first[path %d]" % j, len(hd) == 1 and {"n_user", "description"} <= hd[0]["direct"] and any("n_out" in y for y in hd[0]["syms"]), "symex", repr([(sg["key"], sorted(sg["direct"])) for sg in segs])[:200])
    ok(r, "reach.paths", n >= 1 and n == len(fin), "symex", "%d path(s)" % len(fin), kind="vacuity", undecided=True)
    r.assumptions += ["std::map walk model; Utilities::pad_right(s, w) returns s padded (its first argument is the text printed)", "the text of a line and the reader: C10.cxxMix.RAW.* / C10.cxxNameDouble.RAW.*"]
    return r


UNITS.append(("C10.written_when.cxxMix", lambda twin=False: unit_plain_list("cxxMix", D + "cxxMix.cxx", "mixComps", twin)))
UNITS.append(("C10.written_when.cxxNameDouble", lambda twin=False: unit_plain_list("cxxNameDouble", D + "NameDouble.cxx", None, twin)))
