"""C19 extension units: fixed-volume gas phase (calc_fixed_volume_gas_pressures: equilibrium partial pressures from fugacity / phi, moles from the
equation of state in use), the gas rows built by build_fixed_volume_gas / build_gas_phase, the GAS_MOLES residual, mb_gases (existence of a
fixed-pressure gas phase), the defaults of read_gas_phase, and the cubic solve of calc_PR."""
from props.common import *
from vf.core import FAILED, DISCHARGED, UNDECIDED
from vf.astvc import symex as SX, hdr
from props.c16_ext import case_split, decide, norm_key, base_arr, fabs_t, log10_t, same_real, loc, error_stop, loop_doing, loop_bound_list, innermost_ifs_doing, if_without_else

GASES = "src/phreeqcpp/gases.cpp"
MODEL = "src/phreeqcpp/model.cpp"
PREP = "src/phreeqcpp/prep.cpp"
READ = "src/phreeqcpp/read.cpp"
ENUMS = ["TRUE", "FALSE", "OK", "ERROR", "STOP", "cxxGasPhase::GP_PRESSURE", "cxxGasPhase::GP_VOLUME", "GAS_MOLES"]


def accessor_handlers(c, cls, names, sort="R"):
    """cxxGasPhase::Set_x / Get_x are the inline accessors of member x: modelled as a field gp_x of the receiver"""
    for nm in names:
        def setter(ex_, st, n, name, recv, args, nm=nm):
            k = ("f", "gp_" + nm, sort)
            st.heap[k] = tm.store(ex_.heap_arr(st, k), (recv,), ex_.coerce(args[0], sort))
            st.events.append(SX.Event(name, recv, args, tm.num(0, "I"), n))
            return [(st, tm.num(0, "I"))]
        def getter(ex_, st, n, name, recv, args, nm=nm):
            return [(st, tm.select(ex_.heap_arr(st, ("f", "gp_" + nm, sort)), recv))]
        c.handlers[cls + "::Set_" + nm] = setter
        c.handlers[cls + "::Get_" + nm] = getter


def enum_vals():
    ev = A.enum_values_compiled("Phreeqc.h", ENUMS)
    return {k.split("::")[-1]: v for k, v in ev.items()}


def R_gas():
    return tm.num(hdr.define_value("src/phreeqcpp/global_structures.h", "R_LITER_ATM"))


def unit_fixed_volume_pressures(twin=False):
    """calc_fixed_volume_gas_pressures (fixed-volume gas phase): for every gas component in the model the equilibrium partial pressure is
    p_i = 10^(log IAP - log K - log phi_i) = fugacity / phi with fugacity = 10^SI (log IAP = sum coef*la over the dissolution reaction);
    moles follow the equation of state in use at the FIXED volume V: ideal n_i = p_i V / (R T) and P = sum p_i; Peng-Robinson (some component
    has critical constants and the phase holds gas) n_i = (p_i / P) * V / V_m with P, V_m from calc_PR; total moles = sum n_i; components not
    in the model get 0 moles and 0 mole fraction."""
    q = "Phreeqc::calc_fixed_volume_gas_pressures"
    c = ctx(functional=("Get_gas_phase_ptr",), enums_from="Phreeqc.h", enums=ENUMS, pure_all=False)
    accessor_handlers(c, "cxxGasPhase", ["total_moles", "total_p", "volume", "v_m"])
    c.pure.update({"Get_gas_phase_ptr"})
    def pr(ex_, st, n, name, recv, args):
        st.events.append(SX.Event(name, recv, args, tm.num(0, "I"), n)); ex_.havoc_heap(st, "calc_PR")
        return [(st, SX.fresh("ret_calc_PR", "R"))]
    c.handlers["Phreeqc::calc_PR"] = pr
    fn = A.find_function(GASES, q)
    loops = [x for x in A.walk(fn) if x.get("kind") in ("ForStmt", "WhileStmt", "DoStmt")]
    top = [k for k, lp in enumerate(loops) if lp in A.body_of(fn)["inner"]]
    inner = [k for k in range(len(loops)) if k not in top]
    if len(top) != 2 or len(inner) != 1:
        raise Undecided("expected two component loops and the reaction-token loop, found %d/%d" % (len(top), len(inner)))
    fn, ex, fin, info = U.run_function(GASES, q, modes={top[0]: "iter", top[1]: "iter", inner[0]: "iter"}, ctx=c)
    r = U.new_unit("C19.calc_fixed_volume_gas_pressures.partial_pressures_from_fugacity_and_moles_from_the_EOS_at_fixed_V", GASES, q, fn)
    ev = enum_vals()
    n = {}
    GP = lambda s: [e.result for e in s.events if e.name.endswith("Get_gas_phase_ptr")][-1]
    gpf = lambda s, nm, entry=False: tm.select(base_arr(ex, s, ("f", "gp_" + nm, "R")) if entry else ex.heap_arr(s, ("f", "gp_" + nm, "R")), GP(s))
    unk = lambda s: tm.select(base_arr(ex, s, ("m", "P")), tm.select(base_arr(ex, s, ("f", "#vdata", "P")), tm.app("fld:gas_unknowns", (THIS,), "P")), loc(info, s, "i"))
    # no gas phase: nothing happens
    for s in live(fin, ("ret",)):
        g = [e.result for e in s.events if e.name.endswith("Get_gas_phase_ptr")]
        if g and decide(s, tm.eq(g[0], tm.num(0, "P"))):
            r.add("no_gas_phase.nothing_written", DISCHARGED if not U.iter_writes(s) else FAILED, "symex", 0, "", kind="frame"); n["none"] = 1
    # first loop: moles in the gas phase before the step, and whether an EOS with critical constants applies
    for s in info["entry"].get(top[0], []):
        r.add("count.total_moles_starts_at_0", DISCHARGED if tm.isnum(gpf(s, "total_moles")) and gpf(s, "total_moles").args[0] == 0 else FAILED, "symex", 0, repr(gpf(s, "total_moles"))[:100], kind="establishment")
        ids0, _ = ex.assigned_locals(loops[top[0]])
        fl = [s.locals.get(d) for d, (nm, qq) in ids0.items() if SX.sort_of(qq) == "B"]
        r.add("count.PR_flag_starts_false", DISCHARGED if len(fl) == 1 and fl[0] is tm.FALSE else FAILED, "symex", 0, repr(fl), kind="establishment")
    seen = set()
    for s in live(info["iter"].get(top[0], []), ("run", "cont")):
        u = unk(s); ph = tm.select(base_arr(ex, s, ("f", "phase", "P")), u)
        new = gpf(s, "total_moles"); old = gpf(s, "total_moles", True)
        k0 = norm_key(new, s.pc[-3:])
        if k0 in seen: continue
        seen.add(k0)
        U.discharge_eq_real(r, "count.total_moles+=moles_of_unknown_i#%d" % len(r.obligations), list(s.pc), new, old + tm.select(base_arr(ex, s, ("f", "moles", "R")), u))
        ids0, _ = ex.assigned_locals(loops[top[0]])
        flags = [d for d, (nm, qq) in ids0.items() if SX.sort_of(qq) == "B"]
        if len(flags) != 1:
            r.add("count.one_flag_for_'an_EOS_with_critical_constants_applies'", UNDECIDED, "symex", 0, repr(ids0)[:100]); continue
        F = lambda nm, so="R": tm.select(base_arr(ex, s, ("f", nm, so)), ph)
        crit = tm.and_(tm.eq(F("in", "I"), tm.num(ev["TRUE"], "I")), tm.lt(tm.num(0), F("t_c")), tm.lt(tm.num(0), F("p_c" if not twin else "t_c")))
        old_f = tm.sym("iter_" + ids0[flags[0]][0], "B")
        newf = tm.to_bool(s.locals[flags[0]])
        U.discharge_valid(r, "count.PR_flag'<=>PR_flag_or(component_in_model_with_T_c>0_and_P_c>0)#%d" % len(r.obligations), list(s.pc), tm.and_(tm.implies(newf, tm.or_(old_f, crit)), tm.implies(tm.or_(old_f, crit), newf)))
        n["count"] = 1
    # the branch: calc_PR exactly when PR and gas present; totals restart
    for s in info["entry"].get(top[1], []):
        if B.z3_sat(list(s.pc)) == "unsat": continue
        prc = [e for e in s.events if e.name.endswith("calc_PR")]
        tag = "PR" if prc else "ideal"
        okz = tm.isnum(gpf(s, "total_moles")) and gpf(s, "total_moles").args[0] == 0
        r.add("%s.total_moles_restarts_at_0" % tag, DISCHARGED if okz else FAILED, "symex", 0, "", kind="establishment")
        if not prc:
            okp = tm.isnum(gpf(s, "total_p")) and gpf(s, "total_p").args[0] == 0
            r.add("ideal.total_pressure_restarts_at_0", DISCHARGED if okp else FAILED, "symex", 0, "", kind="establishment")
        else:
            # calc_PR only with gas in the phase
            pos = [c_ for c_ in s.pc if c_.op == "<" and tm.isnum(c_.args[0]) and c_.args[0].args[0] == 0 and "gp_total_moles" in repr(c_.args[1])]
            r.add("PR.only_when_the_phase_holds_gas(total_moles>0)", DISCHARGED if pos and len(prc) == 1 else FAILED, "symex", 0, repr(s.pc[-2:])[:200])
        n[tag + "_entry"] = 1
    # second loop
    R = R_gas()
    seen = set()
    for s in live(info["iter"].get(top[1], []), ("run", "cont")):
        pre = s.events[:max(i_ for i_, e in enumerate(s.events) if e.name == "iter_begin")]
        prdone = any(e.name.endswith("calc_PR") for e in pre)
        u = unk(s); ph = tm.select(base_arr(ex, s, ("f", "phase", "P")), u)
        F = lambda nm, so="R": tm.select(base_arr(ex, s, ("f", nm, so)), ph)
        w = {}
        for k, ix, v in U.iter_writes(s):
            w.setdefault((k[1], ix[0]), v)
        k0 = norm_key(prdone, sorted(map(repr, w.items())))
        if k0 in seen: continue
        seen.add(k0)
        inm = tm.eq(F("in", "I"), tm.num(ev["TRUE"], "I"))
        def body(dec, hyps, s=s, ph=ph, F=F, w=w, prdone=prdone):
            tag = "PR" if prdone else "ideal"
            if not dec(inm):
                ok = set(w) == {("moles_x", ph), ("fraction_x", ph)} and all(tm.isnum(v) and v.args[0] == 0 for v in w.values())
                r.add("%s.component_not_in_model:moles_x=0,fraction_x=0,totals_untouched" % tag, DISCHARGED if ok else FAILED, "symex", 0, repr(sorted(map(str, w)))[:200]); n[tag + "_out"] = 1; return
            p = w.get(("p_soln_x", ph))
            lps = [t for t in tm.subterms(p) if t.op == "sym" and t.args[0].startswith("havoc_")] if p is not None else []
            if p is None or len(lps) != 1:
                r.add("%s.p_soln_x_written_from_the_token_sum" % tag, FAILED, "symex", 0, repr(p)[:200]); return
            lp = lps[0]
            ln10 = tm.select(base_arr(ex, s, ("f", "LOG_10", "R")), THIS)
            spec_p = tm.app("exp", (ln10 * (lp - F("pr_si_f")),), "R") if not twin else tm.app("exp", (ln10 * (lp + F("pr_si_f")),), "R")
            U.discharge_eq_real(r, "%s.p_i==10^(logIAP-logK-log_phi_i)" % tag, hyps, p, spec_p)
            V = gpf(s, "volume", True)
            if prdone:
                spec_n = p / gpf(s, "total_p", True) * V / gpf(s, "v_m", True)
                r.add("PR.total_pressure_is_calc_PR's(not_accumulated)", DISCHARGED if ("gp_total_p", GP(s)) not in w else FAILED, "symex", 0, "", kind="frame")
            else:
                spec_n = p * V / (R * tm.select(base_arr(ex, s, ("f", "tk_x", "R")), THIS))
                U.discharge_eq_real(r, "ideal.P_total+=p_i", hyps, w.get(("gp_total_p", GP(s)), tm.num(0)), gpf(s, "total_p", True) + p)
            U.discharge_eq_real(r, "%s.n_i==%s" % (tag, "(p_i/P)*V/V_m" if prdone else "p_i*V/(R*T)"), hyps, w.get(("moles_x", ph), tm.num(0)), spec_n)
            U.discharge_eq_real(r, "%s.total_moles+=n_i" % tag, hyps, w.get(("gp_total_moles", GP(s)), tm.num(0)), gpf(s, "total_moles", True) + spec_n)
            extra = set(w) - {("p_soln_x", ph), ("moles_x", ph), ("gp_total_moles", GP(s)), ("gp_total_p", GP(s))}
            r.add("%s.frame_only_p_soln_x,moles_x_of_the_component_and_the_totals" % tag, DISCHARGED if not extra else FAILED, "symex", 0, repr(sorted(map(str, extra)))[:200], kind="frame")
            n[tag + "_in"] = 1
        case_split(list(s.pc), body)
    # log IAP - log K: the token loop
    for s in info["entry"].get(inner[0], []):
        if B.z3_sat(list(s.pc)) == "unsat": continue
        u = unk(s); ph = tm.select(ex.heap_arr(s, ("f", "phase", "P")), u)
        lk = tm.select(ex.heap_arr(s, ("f", "lk", "R")), ph)
        init, cond, inc, body_ = ex.loop_parts(loops[inner[0]])
        st2 = ex.exec(init, [s.clone()])[0]
        ptr_ids = [d for d in ex.assigned_locals(init)[0]]
        start = st2.locals[ptr_ids[0]] if ptr_ids else None
        tok0 = tm.select(ex.heap_arr(s, ("f", "#vdata", "P")), tm.app("fld:token", (tm.app("fld:rxn_x", (ph,), "P"),), "P"))
        ok1 = start is not None and start == tm.add(tok0, tm.num(1, "I"))
        r.add("logIAP.starts_at_the_second_token_of_the_dissolution_reaction(first_is_the_gas)", DISCHARGED if ok1 else FAILED, "symex", 0, repr(start)[:200])
        acc = [v for d, v in s.locals.items() if not isinstance(v, tuple) and v is tm.neg(lk)]
        r.add("logIAP.sum_starts_at_-logK(lk_of_the_component)", DISCHARGED if acc else FAILED, "symex", 0, "")
        n["tok_entry"] = 1
        break
    for s in live(info["iter"].get(inner[0], []), ("run", "cont"))[:1]:
        ids, _ = ex.assigned_locals(loops[inner[0]])
        ptrs = [d for d, (nm, qq) in ids.items() if SX.sort_of(qq) == "P"]; accs = [d for d, (nm, qq) in ids.items() if SX.sort_of(qq) == "R"]
        if len(ptrs) != 1 or len(accs) != 1:
            r.add("logIAP.loop_shape(one_pointer,one_accumulator)", UNDECIDED, "symex", 0, ""); continue
        pnm, anm = ids[ptrs[0]][0], ids[accs[0]][0]
        p0 = tm.sym("iter_" + pnm, "P"); a0 = tm.sym("iter_" + anm, "R")
        sp = tm.select(ex.heap_arr(s, ("f", "s", "P")), p0)
        U.discharge_eq_real(r, "logIAP.sum+=coef*la(species_of_the_token)", list(s.pc), s.locals[accs[0]], a0 + tm.select(ex.heap_arr(s, ("f", "la", "R")), sp) * tm.select(ex.heap_arr(s, ("f", "coef", "R")), p0))
        r.add("logIAP.token_loop_writes_no_memory", DISCHARGED if not U.iter_writes(s) else FAILED, "symex", 0, "", kind="frame")
        n["tok_iter"] = 1
    Rv = hdr.define_value("src/phreeqcpp/global_structures.h", "R_LITER_ATM")
    from fractions import Fraction as Fr
    r.add("const.R_LITER_ATM~0.082057(rel 1e-4)", DISCHARGED if abs(Rv - Fr("0.0820574")) / Fr("0.0820574") < Fr(1, 10000) else FAILED, "exact-rational", 0, str(float(Rv)), kind="const")
    need = {"none", "count", "PR_entry", "ideal_entry", "PR_in", "PR_out", "ideal_in", "ideal_out", "tok_entry", "tok_iter"}
    r.add("reach.cases", DISCHARGED if need <= set(n) else UNDECIDED, "symex", 0, "missing %r" % sorted(need - set(n)), kind="vacuity")
    r.assumptions += ["calc_PR sets total_p, v_m and every pr_si_f (= log10 phi) of the gas phase (units C19.calc_PR*)", "Set_x / Get_x of cxxGasPhase are plain accessors of member x",
                      "pr_si_f of a component without critical constants is 0 (phi = 1)", "iterations over components are independent except through the totals",
                      "doubles as reals; exp uninterpreted (10^x = exp(ln10 x))"]
    return r


def check_token_loop(r, n, ex, entries, iters, loopnode, phase_of):
    """log IAP - log K of a gas: the sum starts at -lk of the component, runs over the reaction tokens after the first (the gas itself),
    and adds coef * la of the token's species"""
    for s in entries:
        if B.z3_sat(list(s.pc)) == "unsat": continue
        ph = phase_of(s)
        lk = tm.select(ex.heap_arr(s, ("f", "lk", "R")), ph)
        init, cond, inc, body_ = ex.loop_parts(loopnode)
        st2 = ex.exec(init, [s.clone()])[0]
        ptr_ids = [d for d in ex.assigned_locals(init)[0]]
        start = st2.locals[ptr_ids[0]] if ptr_ids else None
        tok0 = tm.select(ex.heap_arr(s, ("f", "#vdata", "P")), tm.app("fld:token", (tm.app("fld:rxn_x", (ph,), "P"),), "P"))
        ok1 = start is not None and start == tm.add(tok0, tm.num(1, "I"))
        r.add("logIAP.starts_at_the_second_token_of_the_dissolution_reaction(first_is_the_gas)", DISCHARGED if ok1 else FAILED, "symex", 0, repr(start)[:200])
        acc = [v for d, v in s.locals.items() if not isinstance(v, tuple) and v is tm.neg(lk)]
        r.add("logIAP.sum_starts_at_-logK(lk_of_the_component)", DISCHARGED if acc else FAILED, "symex", 0, "")
        n["tok_entry"] = 1
        break
    for s in live(iters, ("run", "cont"))[:1]:
        ids, _ = ex.assigned_locals(loopnode)
        ptrs = [d for d, (nm, qq) in ids.items() if SX.sort_of(qq) == "P"]; accs = [d for d, (nm, qq) in ids.items() if SX.sort_of(qq) == "R"]
        if len(ptrs) != 1 or len(accs) != 1:
            r.add("logIAP.loop_shape(one_pointer,one_accumulator)", UNDECIDED, "symex", 0, ""); continue
        pnm, anm = ids[ptrs[0]][0], ids[accs[0]][0]
        p0 = tm.sym("iter_" + pnm, "P"); a0 = tm.sym("iter_" + anm, "R")
        sp = tm.select(ex.heap_arr(s, ("f", "s", "P")), p0)
        U.discharge_eq_real(r, "logIAP.sum+=coef*la(species_of_the_token)", list(s.pc), s.locals[accs[0]], a0 + tm.select(ex.heap_arr(s, ("f", "la", "R")), sp) * tm.select(ex.heap_arr(s, ("f", "coef", "R")), p0))
        r.add("logIAP.token_loop_writes_no_memory", DISCHARGED if not U.iter_writes(s) else FAILED, "symex", 0, "", kind="frame")
        n["tok_iter"] = 1


def unit_gas_pressures_components(twin=False):
    """calc_gas_pressures, component loop (analytical method).  p_i = 10^(log IAP - log K - log phi_i) for every component in the model.
    Fixed pressure: n_i = p_i * N / P with N the gas-phase moles unknown and P the fixed total pressure, mole fraction x_i = n_i / N = p_i / P
    (partial pressures are mole-fraction shares of the total).  Fixed volume: ideal n_i = p_i V / (R T), P += p_i; Peng-Robinson
    n_i = (p_i / P) V / V_m (kept only when positive); total moles += n_i.  Components not in the model: n_i = 0, x_i = 0."""
    q = "Phreeqc::calc_gas_pressures"
    fn = A.find_function(MODEL, q)
    r = U.new_unit("C19.calc_gas_pressures.partial_pressures_are_mole_fraction_shares_and_moles_follow_the_EOS", MODEL, q, fn)
    loops = [x for x in A.walk(fn) if x.get("kind") in ("ForStmt", "WhileStmt", "DoStmt")]
    os_ = [k for k, lp in enumerate(loops) if lp.get("kind") == "ForStmt" and any(
        y.get("kind") == "MemberExpr" and y.get("name") == "p_soln_x" for y in A.walk(lp["inner"][-1])) and any(y.get("kind") == "ForStmt" for y in A.walk(lp["inner"][-1]))]
    if len(os_) != 1:
        raise Undecided("component loop that computes the partial pressures not found (%d)" % len(os_))
    o = os_[0]
    r.add("lists.component_loop_runs_over_all_gas_components", DISCHARGED if loop_bound_list(fn, MODEL, o).endswith("<gas_phase_ptr->Get_gas_comps().size()") else FAILED, "syntactic", 0, loop_bound_list(fn, MODEL, o), kind="structural")
    c = ctx(functional=("Get_gas_phase_ptr", "Get_gas_comps", "Get_phase_name", "c_str", "phase_bsearch", "Get_type"), enums_from="Phreeqc.h", enums=ENUMS)
    accessor_handlers(c, "cxxGasPhase", ["total_moles", "total_p", "volume", "v_m"])
    f, ex, its, info = U.run_loop_isolated(MODEL, q, o, ctx=c, prepare=free_induction(loops[o]), inner_modes={"*": "iter"})
    ev = enum_vals(); n = {}
    R = R_gas()
    seen = set()
    for s in live(its, ("run", "cont")):
        pb = [e for e in U.iter_events(s) if e.name.endswith("phase_bsearch")]
        if len(pb) != 1 or "Get_phase_name" not in repr(pb[0].args[0]) or "iter_i" not in repr(pb[0].args[0]):
            r.add("component.phase_looked_up_by_the_name_of_component_i", FAILED, "symex", 0, repr(pb)[:200]); continue
        ph = pb[0].result
        gts = [e for e in U.iter_events(s) if e.name.endswith("Get_type")]
        gp = gts[0].recv if gts else tm.sym("L_gas_phase_ptr", "P")
        F = lambda nm, so="R", ob=None: tm.select(entry_arr(ex, s, ("f", nm, so)), ph if ob is None else ob)
        w = {}
        for k, ix, v in U.iter_writes(s):
            if not (v.op == "sym" and v.args[0].startswith("iter_")):
                w[(k[1], ix[0])] = v
        k0 = norm_key(sorted(map(repr, w.items())), [c_ for c_ in s.pc if "iterations" not in repr(c_)])
        if k0 in seen: continue
        seen.add(k0)
        flags = sorted({t for c_ in s.pc for t in tm.subterms(c_) if t.op == "sym" and t.sort == "B" and t.args[0].startswith("L_")}, key=repr)
        gpf = lambda nm: tm.select(entry_arr(ex, s, ("f", "gp_" + nm, "R")), gp)
        def body(dec, hyps, s=s, ph=ph, F=F, w=w, gts=gts, gp=gp, flags=flags, gpf=gpf):
            if not dec(tm.eq(F("in", "I"), tm.num(ev["TRUE"], "I"))):
                ok = set(w) == {("moles_x", ph), ("fraction_x", ph)} and all(tm.isnum(v) and v.args[0] == 0 for v in w.values())
                r.add("component_not_in_model:moles_x=0,fraction_x=0", DISCHARGED if ok else FAILED, "symex", 0, repr(sorted(map(str, w)))[:200]); n["out"] = 1; return
            p = w.get(("p_soln_x", ph))
            lps = [t for t in tm.subterms(p) if t.op == "sym" and t.args[0].startswith("havoc_")] if p is not None else []
            if p is None or len(lps) != 1 or not gts:
                r.add("p_soln_x_written_from_the_token_sum_and_type_asked", FAILED, "symex", 0, repr(p)[:200]); return
            ln10 = F("LOG_10", "R", THIS)
            U.discharge_eq_real(r, "p_i==10^(logIAP-logK-log_phi_i)#%d" % len(r.obligations), hyps, p, tm.app("exp", (ln10 * (lps[0] - F("pr_si_f")),), "R"))
            if dec(tm.eq(gts[0].result, tm.num(ev["GP_PRESSURE"], "I"))):
                N = F("moles", "R", F("gas_unknown", "P", THIS)); P = gpf("total_p")
                U.discharge_eq_real(r, "fixed_pressure.n_i==p_i*N/P", hyps, w.get(("moles_x", ph), tm.num(0)), p * N / P if not twin else p * P / N)
                U.discharge_eq_real(r, "fixed_pressure.x_i==n_i/N(=p_i/P)", hyps, w.get(("fraction_x", ph), tm.num(0)), p / P)
                extra = set(w) - {("p_soln_x", ph), ("moles_x", ph), ("fraction_x", ph)}
                r.add("fixed_pressure.frame_only_this_component(total_pressure_untouched)", DISCHARGED if not extra else FAILED, "symex", 0, repr(sorted(map(str, extra)))[:200], kind="frame")
                n["P"] = 1; return
            if len(flags) != 1:
                r.add("fixed_volume.one_flag_says_whether_Peng_Robinson_was_evaluated", UNDECIDED, "symex", 0, repr(flags)); return
            V = gpf("volume")
            if dec(flags[0]):
                cand = [t for c_ in list(s.pc) + list(w.values()) for t in tm.subterms(c_) if t.op == "sym" and t.sort == "R" and t.args[0].startswith("L_")]
                cand = sorted(set(cand), key=repr)
                if len(cand) != 1:
                    r.add("fixed_volume.PR.one_molar_volume_local", UNDECIDED, "symex", 0, repr(cand)); return
                nn = p / gpf("total_p") * V / cand[0]
                old = F("moles_x")
                pos = dec(tm.lt(tm.num(0), nn))
                mx = w.get(("moles_x", ph), old)
                U.discharge_eq_real(r, "fixed_volume.PR.n_i==(p_i/P)*V/V_m%s#%d" % ("" if pos else "(not_positive:previous_value_kept)", len(r.obligations)), hyps, mx, nn if pos else old)
                U.discharge_eq_real(r, "fixed_volume.PR.total_moles+=n_i#%d" % len(r.obligations), hyps, w.get(("gp_total_moles", gp), tm.num(0)), gpf("total_moles") + mx)
                r.add("fixed_volume.PR.total_pressure_not_accumulated#%d" % len(r.obligations), DISCHARGED if ("gp_total_p", gp) not in w else FAILED, "symex", 0, "", kind="frame")
                n["VPR"] = 1
            else:
                nn = p * V / (R * F("tk_x", "R", THIS))
                U.discharge_eq_real(r, "fixed_volume.ideal.n_i==p_i*V/(R*T)", hyps, w.get(("moles_x", ph), tm.num(0)), nn)
                U.discharge_eq_real(r, "fixed_volume.ideal.P_total+=p_i", hyps, w.get(("gp_total_p", gp), tm.num(0)), gpf("total_p") + p)
                U.discharge_eq_real(r, "fixed_volume.ideal.total_moles+=n_i", hyps, w.get(("gp_total_moles", gp), tm.num(0)), gpf("total_moles") + nn)
                n["Vid"] = 1
        case_split(list(s.pc), body)
    inner = sorted(info["inner_iters"])
    if len(inner) == 1:
        def phase_of(s):
            pb = [e for e in s.events if e.name.endswith("phase_bsearch")]
            return pb[-1].result
        check_token_loop(r, n, ex, info["inner_entries"][inner[0]], info["inner_iters"][inner[0]], loops[inner[0]], phase_of)
    # the totals start at zero for this evaluation
    t = text_of(MODEL, fn)
    lp = loops[o]
    pre = [x for x in A.body_of(fn)["inner"]]
    idx = pre.index(lp) if lp in pre else -1
    resets = [text_of(MODEL, x) for x in pre[:idx] if x.get("kind") == "CXXMemberCallExpr"]
    r.add("totals.total_moles_restarts_at_0_before_the_component_loop", DISCHARGED if idx > 0 and "gas_phase_ptr->Set_total_moles(0)" in resets else FAILED, "syntactic", 0, repr(resets)[-200:], kind="establishment")
    need = {"out", "P", "VPR", "Vid", "tok_entry", "tok_iter"}
    r.add("reach.cases", DISCHARGED if need <= set(n) else UNDECIDED, "symex", 0, "missing %r" % sorted(need - set(n)), kind="vacuity")
    r.assumptions += ["N = gas_unknown->moles and P = the gas phase's fixed total pressure; the EOS call that sets pr_si_f precedes the loop (unit C19.calc_gas_pressures.EOS_at_gas_phase_pressure)",
                      "the damping of V_m and the switch to the numerical method before the loop are not under this contract", "the reset of total_moles before the loop is a text anchor",
                      "Set_x / Get_x are accessors; phase_bsearch functional", "doubles as reals; exp uninterpreted"]
    return r


def unit_gas_rows(twin=False):
    """The gas rows of the solver.  mb_gases: a fixed-pressure gas phase is in the model (gas_in) only if the sum of the equilibrium partial
    pressures f exceeds the fixed pressure or gas is already present (moles above the numerical floor), and it is in the model when
    f > P + 1e-6; without a gas unknown or gas phase it is not.  residuals(), GAS_MOLES row: fixed pressure: residual = P_total - f
    (f = sum of p_i, built by build_gas_phase); numerical fixed-volume method: residual = moles of the component's unknown - moles the
    equation of state gives at the equilibrium partial pressure (phase->moles_x); the iteration is not converged while |residual| exceeds
    the tolerance and the gas phase is in the model."""
    q = "Phreeqc::mb_gases"
    fn = A.find_function(MODEL, q)
    r = U.new_unit("C19.gas_rows.fixed_pressure_phase_exists_iff_sum_p_i_reaches_P_and_GAS_MOLES_residuals", MODEL, q, fn)
    ev = enum_vals(); n = {}
    c = ctx(functional=("Get_gas_phase_ptr", "Get_type", "Get_pr_in"), enums_from="Phreeqc.h", enums=ENUMS)
    accessor_handlers(c, "cxxGasPhase", ["total_p"])
    f, ex, fin, info = U.run_function(MODEL, q, ctx=c)
    H0 = lambda nm, so="R", ob=THIS: tm.select(tm.sym("H0.%s:%s" % (nm, so), ("A", "P", so)), ob)
    for s in live(fin, ("ret",)):
        gi = [v for k, ix, v in U.iter_writes(s) if k == ("f", "gas_in", "I")]
        if not gi or not tm.isnum(gi[0]):
            r.add("mb_gases.gas_in_decided", FAILED, "symex", 0, repr(gi)); continue
        inn = gi[0].args[0] == ev["TRUE"]
        gu = H0("gas_unknown", "P")
        gp = tm.app("call:Get_gas_phase_ptr", (tm.app("fld:use", (THIS,), "P"),), "P")
        have = tm.and_(tm.not_(tm.eq(gu, tm.num(0, "P"))), tm.not_(tm.eq(gp, tm.num(0, "P"))))
        ty = tm.app("call:Get_type", (gp,), "I")
        fsum, P, mol = H0("f", "R", gu), H0("gp_total_p", "R", gp), H0("moles", "R", gu)
        mt = H0("MIN_TOTAL")
        def body(dec, hyps, s=s, inn=inn):
            if not dec(have):
                r.add("mb_gases.no_gas_unknown_or_no_gas_phase:not_in_model#%d" % len(r.obligations), DISCHARGED if not inn else FAILED, "symex", 0, ""); n["none"] = 1; return
            if dec(tm.eq(ty, tm.num(ev["GP_PRESSURE"], "I"))):
                if inn:
                    U.discharge_valid(r, "mb_gases.fixed_pressure.in_model_only_if_sum_p_i>P_or_gas_present#%d" % len(r.obligations), hyps, tm.or_(tm.lt(P, fsum), tm.lt(mt, mol)) if not twin else tm.lt(fsum, P)); n["in"] = 1
                else:
                    U.discharge_valid(r, "mb_gases.fixed_pressure.left_out_only_if_sum_p_i<=P+1e-6_and_no_gas#%d" % len(r.obligations), hyps, tm.and_(tm.le(fsum, P + tm.Q("0.000001")), tm.le(mol, mt))); n["out"] = 1
            else:
                num = tm.and_(tm.not_(tm.eq(H0("numerical_fixed_volume", "B"), tm.FALSE)), tm.or_(tm.to_bool(tm.app("call:Get_pr_in", (gp,), "B")), tm.not_(tm.eq(H0("force_numerical_fixed_volume", "B"), tm.FALSE))))
                n["vol"] = 1
                nn = dec(num)
                r.add("mb_gases.fixed_volume.rows_solved_only_by_the_numerical_method#%d" % len(r.obligations), DISCHARGED if inn == nn else FAILED, "symex", 0, "%r %r" % (inn, nn))
        case_split(list(s.pc), body)
        other = [(k, ix) for k, ix, v in U.iter_writes(s) if k != ("f", "gas_in", "I")]
        r.add("mb_gases.frame_only_gas_in#%d" % len(r.obligations), DISCHARGED if not other else FAILED, "symex", 0, repr(other)[:100], kind="frame")
    # residual row
    q2 = "Phreeqc::residuals"
    f2 = A.find_function(MODEL, q2)
    ifs = innermost_ifs_doing(f2, MODEL, "->Get_total_p()-x[i]->f")
    if len(ifs) != 1:
        raise Undecided("the branch of residuals() that computes P_total - f was not found (%d)" % len(ifs))
    c2 = ctx(functional=("Get_gas_phase_ptr", "Get_type", "Get_pr_in", "sformatf"), enums_from="Phreeqc.h", enums=ENUMS)
    accessor_handlers(c2, "cxxGasPhase", ["total_p"])
    fx, ex, fin, info = region(MODEL, q2, [if_without_else(ifs[0])], c2)
    gm = A.enum_values_compiled("Phreeqc.h", ["GAS_MOLES"])["GAS_MOLES"]
    seen = set()
    for s in live(fin, ("run", "cont")):
        i = tm.sym("L_i", "I")
        un = tm.select(entry_arr(ex, s, ("m", "P")), tm.select(entry_arr(ex, s, ("f", "#vdata", "P")), tm.app("fld:x", (THIS,), "P")), i)
        resid = [v for k, ix, v in U.iter_writes(s) if k == ("m", "R") and ix[0] is tm.select(entry_arr(ex, s, ("f", "#vdata", "P")), tm.app("fld:residual", (THIS,), "P")) and ix[1] is i]
        conv = loc(info, s, "converge")
        k0 = norm_key(resid, conv, [c_ for c_ in s.pc if "print_fail" not in repr(c_) and "patm" not in repr(c_)])
        if k0 in seen: continue
        seen.add(k0)
        gp = tm.app("call:Get_gas_phase_ptr", (tm.app("fld:use", (THIS,), "P"),), "P")
        ty = tm.app("call:Get_type", (gp,), "I")
        F0 = lambda nm, so="R", ob=THIS: fld0(ex, s, nm, so, ob)
        def body(dec, hyps, s=s, un=un, resid=resid, conv=conv):
            if not dec(tm.eq(F0("type", "I", un), tm.num(gm, "I"))):
                r.add("residuals.branch_taken_only_for_GAS_MOLES_unknowns#%d" % len(r.obligations), DISCHARGED if not resid and conv is tm.sym("L_converge", "I") else FAILED, "symex", 0, "", kind="frame"); n["other"] = 1; return
            if len(resid) != 1:
                r.add("residuals.residual[i]_written_once", FAILED, "symex", 0, repr(resid)[:100]); return
            num = tm.and_(tm.eq(ty, tm.num(ev["GP_VOLUME"], "I")), tm.not_(tm.eq(F0("numerical_fixed_volume", "B"), tm.FALSE)),
                          tm.or_(tm.to_bool(tm.app("call:Get_pr_in", (gp,), "B")), tm.not_(tm.eq(F0("force_numerical_fixed_volume", "B"), tm.FALSE))))
            if dec(num):
                spec = F0("moles", "R", un) - F0("moles_x", "R", F0("phase", "P", un)); tag = "numerical_fixed_volume:moles_of_unknown-EOS_moles"; n["rnum"] = 1
            else:
                spec = F0("gp_total_p", "R", gp) - F0("f", "R", un); tag = "fixed_pressure(and_analytical):P_total-sum_p_i"; n["rp"] = 1
                if twin: spec = F0("f", "R", un) - F0("gp_total_p", "R", gp)
            U.discharge_eq_real(r, "residuals.%s#%d" % (tag, len(r.obligations)), hyps, resid[0], spec)
            over = dec(tm.and_(tm.lt(tm.sym("L_l_toler", "R"), fabs_t(spec)), tm.eq(F0("gas_in", "I"), tm.num(ev["TRUE"], "I"))))
            if over:
                r.add("residuals.not_converged_while_|residual|>tolerance_and_gas_in_model#%d" % len(r.obligations), DISCHARGED if tm.isnum(conv) and conv.args[0] == ev["FALSE"] else FAILED, "symex", 0, repr(conv)); n["over"] = 1
            else:
                n["within"] = 1     # for fixed-volume phases converge may still be cleared by the last-pressure test (not under this contract)
                if dec(tm.eq(ty, tm.num(ev["GP_PRESSURE"], "I"))):
                    r.add("residuals.fixed_pressure:otherwise_converge_untouched#%d" % len(r.obligations), DISCHARGED if conv is tm.sym("L_converge", "I") else FAILED, "symex", 0, repr(conv))
        case_split(list(s.pc), body)
    need = {"none", "in", "out", "vol", "other", "rnum", "rp", "over", "within"}
    r.add("reach.cases", DISCHARGED if need <= set(n) else UNDECIDED, "symex", 0, "missing %r" % sorted(need - set(n)), kind="vacuity")
    r.assumptions += ["gas_unknown->f is the sum of the equilibrium partial pressures (mb_sums over the terms of unit C19.build_gas_phase)", "MIN_TOTAL is the numerical floor below which the gas phase counts as absent",
                      "the slack 1e-6 (code: 1e-7) is a numerical tolerance of the existence test", "the last-pressure test of fixed-volume phases in residuals() is not under this contract",
                      "statement contract on the GAS_MOLES branch of residuals() (located by what it computes); Get_type / Get_pr_in functional; locals converge, l_toler, i read by name"]
    return r


GASPHASE = "src/phreeqcpp/GasPhase.cxx"


def scanf_handler(ex_, st, n, name, recv, args):
    """sscanf(text, "%lf", &x): x := the number read (arbitrary), returns the conversion count"""
    fr = SX.fresh("scanned", "R")
    if len(args) >= 3 and args[2].op == "app" and args[2].args[0].startswith("fld:"):
        k = ("f", args[2].args[0][4:], "R")
        st.heap[k] = tm.store(ex_.heap_arr(st, k), (args[2].args[1],), fr)
    e = SX.Event(name, recv, args, SX.fresh("nconv", "I"), n)
    e.snap = {"value": fr}
    st.events.append(e)
    return [(st, e.result)]


def unit_read_gas_phase(twin=False):
    """GAS_PHASE input.  A new gas phase starts as a fixed-pressure phase at 1 atm, 1 L, 25 C (298.15 K) with no moles and no cached
    Peng-Robinson state; -pressure / -volume set total pressure / volume to the number read, -temp(erature) stores the number + 273.15 K (only
    when a number was read), -fixed_pressure / -fixed_volume select the type; a component line `name p` adds a component with that initial
    partial pressure, a line with only a name adds it with an undefined (NaN) partial pressure."""
    from fractions import Fraction as Fr
    qc = "cxxGasPhase::cxxGasPhase"
    fnc = A.find_function(GASPHASE, qc, nparams=1)
    r = U.new_unit("C19.read_gas_phase.defaults_and_option_table", READ, "Phreeqc::read_gas_phase", A.find_function(READ, "Phreeqc::read_gas_phase"))
    ev = enum_vals(); n = {}
    f, ex, fin, info = U.run_function(GASPHASE, qc, ctx=ctx(enums_from="Phreeqc.h", enums=ENUMS), find_kw={"nparams": 1})
    want = {"type": ev["GP_PRESSURE"], "total_p": Fr(1), "volume": Fr(1), "temperature": Fr("298.15") if not twin else Fr("273.15"), "total_moles": Fr(0), "v_m": Fr(0)}
    for s in live(fin, ("run", "ret")):
        w = {k[1]: v for k, ix, v in U.iter_writes(s) if ix[0] is THIS}
        for nm, val in sorted(want.items()):
            got = w.get(nm)
            r.add("new_gas_phase.%s==%s" % (nm, {"type": "fixed_pressure"}.get(nm, str(float(val)))), DISCHARGED if got is not None and tm.isnum(got) and got.args[0] == val else FAILED, "symex", 0, repr(got))
        pi = w.get("pr_in")
        r.add("new_gas_phase.no_cached_Peng_Robinson_state(pr_in=false)", DISCHARGED if pi is tm.FALSE else FAILED, "symex", 0, repr(pi))
        n["ctor"] = 1
    q = "Phreeqc::read_gas_phase"
    fn = A.find_function(READ, q)
    allsw = [x for x in A.walk(fn) if x.get("kind") == "SwitchStmt"]
    sws = [x for x in allsw if not any(y is not x and any(z is x for z in A.walk(y)) for y in allsw)]
    if len(sws) != 1:
        raise Undecided("option switch of read_gas_phase not found")
    names = None
    for x in A.walk(fn):
        if x.get("kind") == "VarDecl" and x.get("name") == "opt_list":
            names = [y.get("value", "").strip('"') for y in A.walk(x) if y.get("kind") == "StringLiteral"]
    if not names:
        raise Undecided("option table of read_gas_phase not found")
    c = ctx(enums_from="Phreeqc.h", enums=ENUMS + ["OPTION_EOF", "OPTION_KEYWORD", "OPTION_ERROR", "OPTION_DEFAULT", "EOF", "KEYWORD", "DIGIT", "EMPTY", "UNKNOWN", "CONTINUE"])
    c.handlers["sscanf"] = scanf_handler
    c.loop = lambda ex_, st, nd, o: ex_.havoc_loop(nd, st)
    f, ex, fin, info = region(READ, q, [sws[0]], c)
    opt = tm.sym("L_opt", "I")
    gp = tm.sym("&L_temp_gas_phase", "P")
    optd = A.enum_values_compiled("Phreeqc.h", ["OPTION_DEFAULT"])["OPTION_DEFAULT"]
    table = {"pressure": "Set_total_p", "volume": "Set_volume", "temp": "Set_temperature", "temperature": "Set_temperature", "fixed_pressure": "Set_type", "fixed_volume": "Set_type"}
    for s in live(fin, ("run",)):
        ks = [int(c_.args[1].args[0]) for c_ in s.pc if c_.op == "==" and c_.args[0] is opt and tm.isnum(c_.args[1])]
        if len(ks) != 1:
            continue
        k = ks[0]
        sets = [e for e in s.events if e.name.startswith("cxxGasPhase::Set_") and e.recv is gp]
        scans = [e for e in s.events if e.name.endswith("sscanf")]
        if 0 <= k < len(names):
            nm = names[k]
            if nm not in table:
                r.add("option.-%s.sets_no_pressure_volume_temperature_or_type" % nm, DISCHARGED if not [e for e in sets if e.name.split("::")[-1] in set(table.values())] else FAILED, "symex", 0, "", kind="frame"); continue
            setter = table[nm]
            if nm in ("fixed_pressure", "fixed_volume"):
                val = ev["GP_PRESSURE" if nm == "fixed_pressure" else "GP_VOLUME"]
                ok = len(sets) == 1 and sets[0].name.endswith(setter) and tm.isnum(sets[0].args[0]) and sets[0].args[0].args[0] == val
                r.add("option.-%s.selects_the_type" % nm, DISCHARGED if ok else FAILED, "symex", 0, repr(sets)[:200]); n[nm] = 1
            else:
                if len(scans) != 1:
                    r.add("option.-%s.reads_one_number" % nm, FAILED, "symex", 0, ""); continue
                num = scans[0].snap["value"]
                expect = num + tm.Q("273.15") if setter == "Set_temperature" else num
                if setter == "Set_temperature":
                    got1 = decide(s, tm.eq(scans[0].result, tm.num(1, "I")))
                    if got1 is not True:
                        r.add("option.-%s.without_a_number_the_temperature_is_kept#%d" % (nm, len(r.obligations)), DISCHARGED if not sets and got1 is False else FAILED, "symex", 0, ""); continue
                ok = len(sets) == 1 and sets[0].name.endswith(setter) and same_real(sets[0].args[0], expect)
                r.add("option.-%s.%s(%s)#%d" % (nm, setter, "number+273.15" if setter == "Set_temperature" else "number", len(r.obligations)), DISCHARGED if ok else FAILED, "symex", 0, repr(sets)[:200]); n[nm] = 1
        elif k == optd:
            pr = [e for e in s.events if e.name.endswith("Set_p_read")]
            pn = [e for e in s.events if e.name.endswith("Set_phase_name")]
            pushed = [e for e in s.events if e.name.endswith("push_back")]
            if pr and scans:
                ok = len(pr) == 1 and pr[0].args[0] is scans[-1].snap["value"] and decide(s, tm.eq(scans[-1].result, tm.num(1, "I"))) is True and len(pn) == 1 and pr[0].recv is pn[0].recv
                r.add("component_line.name_and_number:initial_partial_pressure_is_the_number_read", DISCHARGED if ok else FAILED, "symex", 0, repr(pr)[:200]); n["comp"] = 1
            elif pr:
                ok = "nan" in repr(pr[0].args[0]).lower() and len(pn) == 1 and pr[0].recv is pn[0].recv
                r.add("component_line.name_only:partial_pressure_undefined(NaN)", DISCHARGED if ok else FAILED, "symex", 0, repr(pr)[:200]); n["nan"] = 1
            else:
                r.add("component_line.unreadable_number:no_component_value_set", DISCHARGED if scans and decide(s, tm.eq(scans[-1].result, tm.num(1, "I"))) is False else FAILED, "symex", 0, ""); n["bad"] = 1
    need = {"ctor", "pressure", "volume", "temp", "temperature", "fixed_pressure", "fixed_volume", "comp", "nan"}
    r.add("reach.cases", DISCHARGED if need <= set(n) else UNDECIDED, "symex", 0, "missing %r" % sorted(need - set(n)), kind="vacuity")
    r.assumptions += ["get_option returns the index of the matching entry of opt_list (the option names are read from the table, so reordering it together with the cases is harmless)",
                      "sscanf(text, \"%lf\", &x) stores the number read in x and returns the number of conversions", "tidy_gas_phase (initial moles from the partial pressures) is under its own unit",
                      "statement contract on the option switch; the sort of the components by name after the loop is not checked"]
    return r


def unit_cubic(twin=False):
    """calc_PR(phases, P, T, V_m) in prep.cpp, the solve between the mixing rule and the fugacity loop.  Given P (V_m = 0): the molar volume
    returned is a root of the Peng-Robinson cubic  V^3 + (b - RT/P) V^2 + (-3 b^2 + (a - 2 RT b)/P) V + (b^3 + (RT b^2 - a b)/P) = 0, which is
    P = RT/(V - b) - a/(V^2 + 2 b V - b^2) cleared of denominators; in the three-real-root case it is the largest root (the gas root,
    2 sqrt(-p/3) cos(acos(.)/3) with no phase shift).  Given V_m: P is the EOS pressure at V_m, or at the volume v1 found by the spinodal search
    when the cubic has three real roots and V_m lies on the liquid side; a non-positive pressure is replaced by 1."""
    import sympy
    from fractions import Fraction as Fr
    q = "Phreeqc::calc_PR"
    fn = A.find_function(PREP, q, nparams=4)
    r = U.new_unit("C19.calc_PR[prep].molar_volume_is_the_gas_root_of_the_cubic_and_P_is_the_EOS_pressure", PREP, q, fn)
    ifs = [x for x in A.body_of(fn)["inner"] if x.get("kind") == "IfStmt" and any(y.get("kind") == "CallExpr" and text_of(PREP, y).startswith("acos(") for y in A.walk(x))]
    b2s = [x for x in A.body_of(fn)["inner"] if x.get("kind") == "BinaryOperator" and x.get("opcode") == "=" and text_of(PREP, x["inner"][0]) == "b2"]
    if len(ifs) != 1 or len(b2s) != 1:
        raise Undecided("the statement that solves the cubic (or b2 = ...) was not found (%d/%d)" % (len(ifs), len(b2s)))
    third = None
    for x in A.walk(fn):
        if x.get("kind") == "VarDecl" and x.get("name") == "one_3":
            lits = [y.get("value") for y in A.walk(x) if y.get("kind") == "FloatingLiteral"]
            third = Fr(lits[0]) if lits else None
    r.add("const.exponent_of_the_cube_root~1/3(rel 1e-12)", DISCHARGED if third is not None and abs(third - Fr(1, 3)) * 3 < Fr(1, 10**12) else FAILED, "exact-rational", 0, str(third), kind="const")
    c = ctx(functional=("f_Vm", "halve", "acos", "cos"), enums_from="Phreeqc.h", enums=ENUMS, pure_all=True)
    c.loop = lambda ex_, st, nd, o: ex_.havoc_loop(nd, st)
    # acos / cos are library calls without receiver: keep them uninterpreted applications
    f, ex, fin, info = region(PREP, q, [b2s[0], ifs[0]], c)
    RT, bb, aa = (fld0(ex, fin[0], nm, "R") for nm in ("R_TK", "b_sum", "a_aa_sum"))
    V0, P0 = tm.sym("L_V_m", "R"), tm.sym("L_P", "R")
    eos = lambda V: RT / (V - bb) - aa / (V * V + tm.num(2) * bb * V - bb * bb)
    n = {}
    for s in [s_ for s_ in fin if s_.status == "run"]:      # (no feasibility query: the path conditions are non-linear with roots)
        V, P = loc(info, s, "V_m"), loc(info, s, "P")
        given_V = tm.not_(tm.eq(V0, tm.num(0))) in s.pc
        if given_V:
            if V is not V0:
                r.add("given_V.molar_volume_kept", FAILED, "symex", 0, repr(V)[:100]); continue
            if tm.isnum(P):
                guards = [c_ for c_ in s.pc if c_.op == "<=" and tm.isnum(c_.args[1]) and c_.args[1].args[0] == 0 and c_.args[0].sort == "R"]
                ok = P.args[0] == 1 and any(same_real(g.args[0], eos(Vx)) for g in guards for Vx in [V0] + [t for t in tm.subterms(g.args[0]) if t.op == "sym" and t.args[0].startswith("havoc_v1")])
                r.add("given_V.P=1_only_when_the_EOS_pressure_is_not_positive#%d" % len(r.obligations), DISCHARGED if ok else FAILED, "sympy", 0, repr(guards)[:200]); n["p1"] = 1; continue
            alt = sorted({t for t in tm.subterms(P) if t.op == "sym" and t.args[0].startswith("havoc_")}, key=repr)
            Vx = alt[0] if len(alt) == 1 else V0
            ok = same_real(P, eos(Vx))
            r.add("given_V.P==RT/(V-b)-a/(V^2+2bV-b^2)_at_%s#%d" % ("V_m" if Vx is V0 else "the_spinodal_volume_v1", len(r.obligations)), DISCHARGED if ok else FAILED, "sympy", 0, repr(P)[:200])
            n["pv" if Vx is V0 else "pv1"] = 1
            if Vx is not V0:
                # replaced only on the liquid side of v1 and with three real roots: the path condition holds 0 < discriminant
                d = [c_ for c_ in s.pc if c_.op == "<" and tm.isnum(c_.args[0]) and c_.args[0].args[0] == 0 and "27" in repr(c_.args[1])]
                okd = False
                if d:
                    cv = B.SymConv(); X = sympy.Symbol("X")
                    Pv = cv.conv(eos(V0)); rt, b_, a_ = cv.conv(RT), cv.conv(bb), cv.conv(aa)
                    poly = X**3 + (b_ - rt / Pv) * X**2 + (-3 * b_**2 + (a_ - 2 * rt * b_) / Pv) * X + (b_**3 + (rt * b_**2 - b_ * a_) / Pv)
                    okd = sympy.simplify(cv.conv(d[0].args[1]) - sympy.discriminant(poly, X)) == 0
                r.add("given_V.spinodal_volume_used_only_with_three_real_roots(discriminant_of_the_cubic>0)", DISCHARGED if okd else FAILED, "sympy", 0, "")
                r.add("given_V.spinodal_volume_used_only_on_the_liquid_side(V_m<v1)", DISCHARGED if tm.lt(V0, Vx) in s.pc else FAILED, "symex", 0, "")
            continue
        # given P: the root
        okP = (P is P0) or (tm.isnum(P) and 0 < P.args[0] <= Fr(1, 10**9) and tm.lt(P0, P) in s.pc)
        r.add("given_P.pressure_kept(floored_at_a_tiny_positive_value)#%d" % len(r.obligations), DISCHARGED if okP else FAILED, "symex", 0, repr(P)[:60])
        # the coefficients the code stored in its work array
        cw = {}
        for ix, v in writes(s, ("m", "R")):
            if tm.isnum(ix[1]) and "r3" in repr(ix[0]):
                cw[int(ix[1].args[0])] = v
        if set(cw) != {1, 2, 3}:
            r.add("given_P.three_coefficients_of_the_cubic_computed", FAILED, "symex", 0, repr(sorted(cw))); continue
        spec_c = {1: bb - RT / P, 2: tm.num(-3) * bb * bb + (aa - tm.num(2) * RT * bb) / P, 3: bb * bb * bb + (RT * bb * bb - aa * bb) / P}
        if twin:
            spec_c[3] = bb * bb * bb + (RT * bb * bb + aa * bb) / P
        key_c = norm_key([cw[k] for k in (1, 2, 3)])
        if key_c not in n:
            n[key_c] = 1
            for k in (1, 2, 3):
                U.discharge_eq_real(r, "given_P.coefficient_%d_of_the_cubic_is_the_EOS_cleared_of_denominators#%d" % (k, len(r.obligations)), list(s.pc), cw[k], spec_c[k])
        Rs = {k: tm.sym("R%d" % k, "R") for k in (1, 2, 3)}
        Vt = V
        for k in sorted(cw, key=lambda k: -len(repr(cw[k]))):
            Vt = tm.substitute(Vt, {cw[k]: Rs[k]})
        leftovers = [t for t in tm.subterms(Vt) if t.op == "select" or (t.op == "sym" and t.args[0] in ("L_P",))]
        if leftovers:
            r.add("given_P.V_m_is_computed_from_the_three_coefficients_only", FAILED, "symex", 0, repr(leftovers[:2])[:200]); continue
        m = {}
        for x in tm.subterms(Vt):
            if x.op == "app" and x.args[0] == "pow" and len(x.args) == 3 and x.args[2] is tm.sym("L_one_3", "R"):
                m[x] = ("cbrt", x.args[1])
            elif x.op == "app" and x.args[0] == "sqrt":
                m[x] = ("sqrt", x.args[1])
            elif x.op == "app" and x.args[0] == "call:cos":
                m[x] = ("cos", x.args[-1])
        names = {}
        for k_, (x, (kind, arg)) in enumerate(sorted(m.items(), key=lambda kv: len(repr(kv[0])))):
            names[x] = tm.sym("%s_%d" % (kind, k_), "R")
        # substitute innermost first so that nested roots are replaced inside their parents' arguments
        order = sorted(names, key=lambda x: len(repr(x)))
        def sub(t):
            for x in order:
                t = tm.substitute(t, {tm.substitute(x, {y: names[y] for y in order if y is not x and len(repr(y)) < len(repr(x))}): names[x]})
            return t
        cv = B.SymConv()
        rels, gens = [], []
        okshape = True; kinds = sorted(kind for kind, arg in m.values())
        val = {}
        for x in order:
            kind, arg = m[x]
            g = cv.conv(names[x]); gens.append(g)
            if kind == "cos":
                ok3 = arg.op == "/" and tm.isnum(arg.args[1]) and arg.args[1].args[0] == 3 and arg.args[0].op == "app" and arg.args[0].args[0] == "call:acos"
                okshape = okshape and ok3
                if ok3:
                    X = cv.conv(sub(arg.args[0].args[-1]))
                    rels.append(sympy.numer(sympy.together(4 * g**3 - 3 * g - X)))
                continue
            a_ = cv.conv(sub(arg)); val[g] = (kind, a_)
            rels.append(sympy.numer(sympy.together((g**3 if kind == "cbrt" else g**2) - a_)))
        R1, R2, R3 = (cv.conv(Rs[k]) for k in (1, 2, 3))
        Vs = cv.conv(sub(Vt))
        F = sympy.numer(sympy.together(Vs**3 + R1 * Vs**2 + R2 * Vs + R3))
        pp = R2 - R1**2 / 3
        sq = {g: a for g, (kind, a) in val.items() if kind == "sqrt"}
        red = lambda e: sympy.simplify(sympy.expand(e).subs({g**2: a for g, a in sq.items()}))
        cb = [(g, a) for g, (kind, a) in val.items() if kind == "cbrt"]
        tag = "three_real_roots.trigonometric" if "cos" in kinds else ("one_real_root.two_cube_roots" if len(cb) == 2 else "one_real_root.one_cube_root")
        if tag.endswith("two_cube_roots"):
            (u, A_), (v, B_) = cb
            if red(sympy.expand(A_ * B_) + pp**3 / 27) == 0:
                rels.append(sympy.numer(sympy.together(u * v + pp / 3)))        # product of the two real cube roots = cube root of the product = -p/3
        if "cos" in kinds and len(cb) == 1 and len(sq) == 1:
            (mm, M_), = cb
            (sg, sa), = sq.items()
            if sympy.simplify(M_ - sg) == 0 and sympy.simplify(sa + pp**3 / 27) == 0:
                rels.append(sympy.numer(sympy.together(mm**2 + pp / 3)))           # (s^(1/3))^2 = (s^2)^(1/3) = -p/3
        try:
            G = sympy.groebner(rels, *gens, order="grevlex")
            rem = sympy.reduced(F, list(G.exprs), *gens, order="grevlex")[1] if rels else F
            ok = sympy.simplify(rem) == 0
        except Exception as e:
            ok, rem = False, "groebner: %s" % e
        r.add("given_P.%s:V_m_is_a_root_of_the_cubic#%d" % (tag, len(r.obligations)), DISCHARGED if ok and okshape else FAILED, "sympy.groebner", 0, "" if ok else str(rem)[:200])
        if "cos" in kinds:
            r.add("given_P.three_real_roots:the_largest(gas)_root_is_taken(cos(acos(x)/3),no_phase_shift)#%d" % len(r.obligations), DISCHARGED if okshape else FAILED, "term-inspection", 0, "")
        n[tag] = 1
    need = {"pv", "pv1", "p1", "one_real_root.two_cube_roots", "one_real_root.one_cube_root", "three_real_roots.trigonometric"}
    r.add("reach.cases", DISCHARGED if need <= set(n) else UNDECIDED, "symex", 0, "missing %r" % sorted(need - set(n)), kind="vacuity")
    r.assumptions += ["real cube roots: pow(x, 1/3)^3 = x, pow(x,1/3)*pow(y,1/3) = pow(x*y,1/3) and pow(w^3,1/3) = w for the non-negative arguments of these branches; sqrt(x)^2 = x; cos(3t) = 4cos^3 t - 3cos t and cos(acos x) = x",
                      "b_sum, a_aa_sum, R_TK are the mixture parameters left by the mixing-rule loops (units C19.calc_PR[prep].*)", "the spinodal search (Newton / bisection on f_Vm) that yields v1 is not under contract: only where its result may be used",
                      "gases.cpp calc_PR(void) has the same formulas; its given-P branch is dead code (assert(false)) and its P(V_m) is under C19.calc_PR[gases].P_of_Vm",
                      "locals read by name: V_m, P, one_3", "doubles as reals"]
    return r


def unit_setup_fixed_volume(twin=False):
    """setup_fixed_volume_gas: one GAS_MOLES unknown per gas component, in component order (so gas_unknowns[i] belongs to component i, as
    build_fixed_volume_gas and calc_fixed_volume_gas_pressures assume): its phase is the phase named by the component, its moles are the
    component's moles (the numerical floor MIN_TOTAL when none), ln_moles = ln(moles); the phase's moles_x and the gas phase's total moles
    start from the same numbers; the list starts empty and the first entry becomes the representative gas unknown."""
    q = "Phreeqc::setup_fixed_volume_gas"
    c = ctx(functional=("Get_gas_phase_ptr", "Get_gas_comps", "Get_phase_name", "c_str", "phase_bsearch", "Get_moles"), enums_from="Phreeqc.h", enums=ENUMS)
    accessor_handlers(c, "cxxGasPhase", ["total_moles"])
    fn, ex, fin, info = U.run_function(GASES, q, modes={0: "iter"}, ctx=c)
    r = U.new_unit("C19.setup_fixed_volume_gas.one_unknown_per_component_in_component_order", GASES, q, fn)
    gm = A.enum_values_compiled("Phreeqc.h", ["GAS_MOLES"])["GAS_MOLES"]
    n = {}
    gu = tm.app("fld:gas_unknowns", (THIS,), "P")
    for s in info["entry"].get(0, []):
        size = tm.select(ex.heap_arr(s, ("f", "#vsize", "I")), gu)
        tmole = [v for k, ix, v in U.iter_writes(s) if k == ("f", "gp_total_moles", "R")]
        r.add("list_of_gas_unknowns_starts_empty_and_total_moles_at_0", DISCHARGED if tm.isnum(size) and size.args[0] == 0 and tmole and tm.isnum(tmole[-1]) and tmole[-1].args[0] == 0 else FAILED, "symex", 0, repr(size), kind="establishment")
        n["entry"] = 1
    for s in live(info["iter"].get(0, []), ("run", "cont")):
        cu = tm.select(base_arr(ex, s, ("f", "count_unknowns", "I")), THIS)
        un = tm.select(base_arr(ex, s, ("m", "P")), tm.select(base_arr(ex, s, ("f", "#vdata", "P")), tm.app("fld:x", (THIS,), "P")), cu)
        pb = [e for e in U.iter_events(s) if e.name.endswith("phase_bsearch")]
        gmv = [e for e in U.iter_events(s) if e.name.endswith("Get_moles")]
        if len(pb) != 1 or "Get_phase_name" not in repr(pb[0].args[0]) or "iter_i" not in repr(pb[0].args[0]) or not gmv or "iter_i" not in repr(gmv[0].recv):
            r.add("component.phase_and_moles_of_component_i_are_read", FAILED, "symex", 0, ""); continue
        ph = pb[0].result; cm = gmv[0].result
        w = {(k[1], ix[0] if len(ix) == 1 else ix): v for k, ix, v in U.iter_writes(s)}
        floor_ = tm.select(base_arr(ex, s, ("f", "MIN_TOTAL", "R")), THIS)
        def body(dec, hyps, s=s, un=un, ph=ph, cm=cm, w=w, cu=cu):
            mol = cm if dec(tm.lt(tm.num(0), cm)) else floor_
            if twin: mol = cm
            tag = "moles>0" if mol is cm else "no_moles"
            U.discharge_eq_real(r, "%s.unknown_moles==%s" % (tag, "component_moles" if mol is cm else "MIN_TOTAL"), hyps, w.get(("moles", un), tm.num(0)), mol)
            U.discharge_eq_real(r, "%s.ln_moles==ln(moles)" % tag, hyps, w.get(("ln_moles", un), tm.num(0)), tm.app("log", (mol,), "R"))
            U.discharge_eq_real(r, "%s.phase_moles_x==moles" % tag, hyps, w.get(("moles_x", ph), tm.num(0)), mol)
            gp = [k for k in w if k[0] == "gp_total_moles"]
            U.discharge_eq_real(r, "%s.total_moles+=moles" % tag, hyps, w[gp[0]] if gp else tm.num(0), tm.select(base_arr(ex, s, ("f", "gp_total_moles", "R")), gp[0][1]) + mol if gp else tm.num(1))
            ok = w.get(("phase", un)) is ph and tm.isnum(w.get(("type", un), tm.TRUE)) and w[("type", un)].args[0] == gm
            r.add("%s.unknown_is_a_GAS_MOLES_row_of_the_component's_phase" % tag, DISCHARGED if ok else FAILED, "symex", 0, "")
            size0 = tm.select(base_arr(ex, s, ("f", "#vsize", "I")), gu)
            data = tm.select(base_arr(ex, s, ("f", "#vdata", "P")), gu)
            pushed = [e for e in U.iter_events(s) if e.name == "vector.push_back" and e.recv is gu]
            okp = w.get(("#vsize", gu)) is tm.add(size0, tm.num(1, "I")) and len(pushed) == 1 and pushed[0].args[0] is size0 and (pushed[0].args[1] is un or pushed[0].args[1] == tm.add(tm.select(base_arr(ex, s, ("f", "#vdata", "P")), tm.app("fld:x", (THIS,), "P")), cu))
            r.add("%s.unknown_appended_to_gas_unknowns(component_order)" % tag, DISCHARGED if okp else FAILED, "symex", 0, repr(pushed)[:100])
            r.add("%s.next_component_gets_the_next_unknown(count_unknowns+1)" % tag, DISCHARGED if w.get(("count_unknowns", THIS)) is tm.add(cu, tm.num(1, "I")) else FAILED, "symex", 0, "")
            n[tag] = 1
        case_split(list(s.pc), body)
    lp0 = [x for x in A.walk(fn) if x.get("kind") == "ForStmt"][0]
    r.add("lists.loop_runs_over_all_gas_components", DISCHARGED if text_of(GASES, lp0["inner"][2]).endswith("<gas_phase_ptr->Get_gas_comps().size()") and text_of(GASES, lp0["inner"][0]).endswith("i=0;") else FAILED, "syntactic", 0, "", kind="structural")
    for s in live(fin, ("ret",)):
        g = [v for k, ix, v in U.iter_writes(s) if k == ("f", "gas_unknown", "P")]
        size = tm.select(ex.heap_arr(s, ("f", "#vsize", "I")), gu)
        some = decide(s, tm.lt(tm.num(0, "I"), size))
        if some:
            first = tm.select(ex.heap_arr(s, ("m", "P")), tm.select(ex.heap_arr(s, ("f", "#vdata", "P")), gu), tm.num(0, "I"))
            r.add("representative_gas_unknown_is_the_first_component's", DISCHARGED if g and g[-1] is first else FAILED, "symex", 0, repr(g)[:100]); n["first"] = 1
    need = {"entry", "moles>0", "no_moles", "first"}
    r.add("reach.cases", DISCHARGED if need <= set(n) else UNDECIDED, "symex", 0, "missing %r" % sorted(need - set(n)), kind="vacuity")
    r.assumptions += ["x[count_unknowns] are distinct pre-allocated unknown records", "accessors / phase_bsearch functional", "std::vector model (push_back appends at index size)", "doubles as reals; log uninterpreted"]
    return r


def free_induction(fn_loop_node):
    """prepare hook: an induction variable whose address is taken lives in memory; make it arbitrary for the iteration contract"""
    def prep(ex_, s_, info_):
        ids, _ = ex_.assigned_locals(fn_loop_node["inner"][3]) if fn_loop_node.get("kind") == "ForStmt" else ({}, False)
        for x in A.walk(fn_loop_node["inner"][3]):
            if x.get("kind") == "DeclRefExpr" and x["referencedDecl"].get("kind") == "VarDecl":
                did = x["referencedDecl"]["id"]
                v = s_.locals.get(did)
                if isinstance(v, tuple) and v[0] == "obj":
                    key = ("m", "I")
                    s_.heap[key] = tm.store(ex_.heap_arr(s_, key), (v[1], tm.num(0, "I")), tm.sym("iter_" + x["referencedDecl"].get("name", "k"), "I"))
    return prep


def unit_build_gas(which, twin=False):
    """build_gas_phase / build_fixed_volume_gas: every gas component contributes, for every element of its formula, its moles times the
    element's stoichiometric coefficient to the mass-balance sum of that element's unknown (H and O: the hydrogen / oxygen mass unknowns;
    otherwise the primary master's unknown when it is in the model, else the unknown of the master's secondary species); the moles are the
    component's own (fixed pressure: phase->moles_x; fixed volume with one unknown per gas: that unknown's moles); for a fixed-pressure gas
    phase each component's equilibrium partial pressure enters the pressure-sum row once with coefficient 1."""
    rel, q = {"pressure": (PREP, "Phreeqc::build_gas_phase"), "volume": (GASES, "Phreeqc::build_fixed_volume_gas")}[which]
    fn = A.find_function(rel, q)
    r = U.new_unit("C19.%s.mass_balance_and_pressure_sum_terms_of_each_gas_component" % q.split("::")[-1], rel, q, fn)
    loops = [x for x in A.walk(fn) if x.get("kind") in ("ForStmt", "WhileStmt", "DoStmt")]
    comp = [k for k, lp in enumerate(loops) if lp in A.body_of(fn)["inner"] and "add_elt_list(" in text_of(rel, lp["inner"][-1])]
    elts = [loop_doing(fn, rel, "store_mb(")]
    if len(comp) != 1:
        raise Undecided("component loop not found (%d)" % len(comp))
    r.add("lists.component_loop_runs_over_all_gas_components", DISCHARGED if loop_bound_list(fn, rel, comp[0]).endswith("<gas_phase_ptr->Get_gas_comps().size()") else FAILED, "syntactic", 0, loop_bound_list(fn, rel, comp[0]), kind="structural")
    r.add("lists.element_loop_runs_over_the_element_list(count_elts)", DISCHARGED if "count_elts" in loop_bound_list(fn, rel, elts[0]) else FAILED, "syntactic", 0, loop_bound_list(fn, rel, elts[0]), kind="structural")
    ev = enum_vals()
    mk = lambda: ctx(functional=("Get_gas_phase_ptr", "Get_gas_comps", "Get_phase_name", "c_str", "phase_bsearch", "strcmp", "Get_type", "Get_pr_in"), enums_from="Phreeqc.h", enums=ENUMS)
    n = {}
    # component loop
    c = mk(); c.handlers["Phreeqc::error_msg"] = error_stop
    f, ex, its, info = U.run_loop_isolated(rel, q, comp[0], ctx=c, prepare=free_induction(loops[comp[0]]))
    seen = set()
    for s in live(its, ("run", "cont")):
        evs = U.iter_events(s)
        pb = [e for e in evs if e.name.endswith("phase_bsearch")]
        smb = [e for e in evs if e.name.endswith("store_mb")]
        k0 = norm_key(s.status, [(e.name, e.args) for e in smb], [c_ for c_ in s.pc if "Get_type" in repr(c_) or "vsize" in repr(c_)])
        if k0 in seen: continue
        seen.add(k0)
        if len(pb) != 1 or "Get_phase_name" not in repr(pb[0].args[0]) or "iter_i" not in repr(pb[0].args[0]):
            r.add("component.phase_looked_up_by_the_name_of_component_i", FAILED, "symex", 0, repr(pb)[:200]); continue
        ph = pb[0].result
        ntok = tm.select(entry_arr(ex, s, ("f", "#vsize", "I")), tm.app("fld:token", (tm.app("fld:rxn_x", (ph,), "P"),), "P"))
        gts = [e.result for e in evs if e.name.endswith("Get_type")]
        def body(dec, hyps, s=s, evs=evs, smb=smb, ph=ph, gts=gts):
            if dec(tm.eq(ntok, tm.num(0, "I"))):
                r.add("component.without_a_reaction_contributes_nothing", DISCHARGED if not smb and not [e for e in evs if e.name.endswith("add_elt_list")] else FAILED, "symex", 0, ""); n["empty"] = 1; return
            ael = [e for e in evs if e.name.endswith("add_elt_list")]
            ok = len(ael) == 1 and ael[0].args[0] is tm.app("fld:next_elt", (ph,), "P") and tm.isnum(ael[0].args[1]) and ael[0].args[1].args[0] == 1
            r.add("component.element_list_is_the_formula_of_this_gas(coefficient_1)#%d" % len(r.obligations), DISCHARGED if ok else FAILED, "symex", 0, repr(ael)[:200])
            # count_elts reset before the list is built
            wce = [v for k, ix, v in U.iter_writes(s) if k == ("f", "count_elts", "I")]
            r.add("component.element_list_starts_empty(count_elts=0)#%d" % len(r.obligations), DISCHARGED if (wce and tm.isnum(wce[0]) and wce[0].args[0] == 0) or "count_elts" in repr(evs[evs.index(ael[0]) - 1].name if ael and evs.index(ael[0]) > 0 else "") or _count_elts_reset(fn, rel, loops[comp[0]]) else FAILED, "symex", 0, "", kind="establishment")
            if which == "pressure":
                if not gts:
                    r.add("component.gas_phase_type_asked", FAILED, "symex", 0, ""); return
                fixedp = dec(tm.eq(gts[0], tm.num(ev["GP_PRESSURE"], "I")))
                want = [e for e in smb if e.args[0] is tm.app("fld:p_soln_x", (ph,), "P")]
                gu = want[0].args[1] if want else None
                okp = (len(want) == 1 and len(smb) == 1 and gu.op == "app" and gu.args[0] == "fld:f" and ".gas_unknown:" in repr(gu.args[1]) and tm.isnum(want[0].args[2]) and want[0].args[2].args[0] == (1 if not twin else 2)) if fixedp else not smb
                r.add("component.%s#%d" % ("fixed_pressure:p_i_enters_the_pressure_sum_once_with_coefficient_1" if fixedp else "fixed_volume:no_pressure_sum_term", len(r.obligations)), DISCHARGED if okp else FAILED, "symex", 0, repr(smb)[:300])
                n["P" if fixedp else "V"] = 1
            else:
                n["V"] = 1
        case_split(list(s.pc), body)
    # element loop (the first of the two: mass-balance sums)
    c = mk()
    f, ex, its, info = U.run_loop_isolated(rel, q, elts[0], ctx=c, prepare=free_induction(loops[elts[0]]))
    seen = set()
    for s in live(its, ("run", "cont")):
        evs = U.iter_events(s)
        smb = [e for e in evs if e.name.endswith("store_mb")]
        k0 = norm_key([(e.args) for e in smb], [c_ for c_ in s.pc if "debug_prep" not in repr(c_)])
        if k0 in seen: continue
        seen.add(k0)
        jt = [t for t in tm.subterms(tm.and_(*s.pc)) if t.op == "sym" and t.args[0] == "iter_j"]
        el = tm.add(tm.select(entry_arr(ex, s, ("f", "#vdata", "P")), tm.app("fld:elt_list", (THIS,), "P")), tm.sym("iter_j", "I"))
        elt = tm.select(entry_arr(ex, s, ("f", "elt", "P")), el)
        cmps = {}
        for e in evs:
            if e.name.endswith("strcmp") and e.args[0] is tm.select(entry_arr(ex, s, ("f", "name", "P")), elt):
                cmps[repr(e.args[1]).strip('"')] = e.result
        F = lambda nm, so, ob: tm.select(entry_arr(ex, s, ("f", nm, so)), ob)
        prim = F("primary", "P", elt)
        def body(dec, hyps, s=s, smb=smb, el=el, elt=elt, cmps=cmps, prim=prim, F=F):
            isH = ("H" in cmps) and dec(tm.eq(cmps["H"], tm.num(0, "I")))
            if "H" not in cmps:
                r.add("element.name_compared_with_H", FAILED, "symex", 0, repr(cmps)[:100]); return
            if isH:
                unk, tag = F("mass_hydrogen_unknown", "P", THIS), "H"
            else:
                if "O" not in cmps:
                    r.add("element.name_compared_with_O", FAILED, "symex", 0, repr(cmps)[:100]); return
                if dec(tm.eq(cmps["O"], tm.num(0, "I"))):
                    unk, tag = F("mass_oxygen_unknown", "P", THIS), "O"
                elif dec(tm.eq(F("in", "I", prim), tm.num(ev["TRUE"], "I"))):
                    unk, tag = F("unknown", "P", prim), "primary_in_model"
                else:
                    sec = F("secondary", "P", F("s", "P", prim))
                    if dec(tm.not_(tm.eq(sec, tm.num(0, "P")))):
                        unk, tag = F("unknown", "P", sec), "secondary_master"
                    else:
                        unk, tag = None, "no_master_in_model"
            has = unk is not None and dec(tm.not_(tm.eq(unk, tm.num(0, "P"))))
            if not has:
                r.add("element.%s.no_unknown:no_term#%d" % (tag, len(r.obligations)), DISCHARGED if not smb else FAILED, "symex", 0, repr(smb)[:200]); n["none"] = 1; return
            if which == "pressure":
                src = tm.app("fld:moles_x", (tm.sym("L_phase_ptr", "P"),), "P")
            else:
                src = tm.app("fld:moles", (tm.select(entry_arr(ex, s, ("m", "P")), tm.select(entry_arr(ex, s, ("f", "#vdata", "P")), tm.app("fld:gas_unknowns", (THIS,), "P")), tm.sym("L_i", "I")),), "P")
            coef = F("coef", "R", el)
            if twin and which == "volume" and tag == "O":
                unk = F("mass_hydrogen_unknown", "P", THIS)
            ok = len(smb) == 1 and smb[0].args[0] is src and smb[0].args[1] is tm.app("fld:f", (unk,), "P") and smb[0].args[2] is coef
            r.add("element.%s:moles_of_this_component*coef_into_f_of_its_unknown#%d" % (tag, len(r.obligations)), DISCHARGED if ok else FAILED, "symex", 0, repr(smb)[:300]); n[tag] = 1
        case_split(list(s.pc), body)
        r.add("element.writes_no_memory_itself#%d" % len(r.obligations), DISCHARGED if not [1 for k, ix, v in U.iter_writes(s) if not (v.op == "sym" and v.args[0].startswith("iter_"))] else FAILED, "symex", 0, "", kind="frame")
    need = {"H", "O", "primary_in_model", "secondary_master", "none", "V"} | ({"P"} if which == "pressure" else set())
    r.add("reach.cases", DISCHARGED if need <= set(n) else UNDECIDED, "symex", 0, "missing %r" % sorted(need - set(n)), kind="vacuity")
    r.assumptions += ["store_mb(source, target, coef) registers `*target += coef * *source` for mb_sums() (C02 units)", "phase_bsearch / strcmp / accessors are functional",
                      "the element loop reads the component (phase_ptr / i) of the enclosing iteration: locals phase_ptr and i are read by name", "Jacobian terms (store_jacob) are not checked",
                      "strcmp(x, \"H\") == 0 iff the element is hydrogen"]
    return r


def _count_elts_reset(fn, rel, loop):
    body = loop["inner"][-1]
    t = text_of(rel, body)
    i1, i2 = t.find("count_elts=0;"), t.find("add_elt_list(")
    return 0 <= i1 < i2


UNITS = [
    ("C19.calc_fixed_volume_gas_pressures.partial_pressures_from_fugacity_and_moles_from_the_EOS_at_fixed_V", unit_fixed_volume_pressures),
    ("C19.calc_gas_pressures.partial_pressures_are_mole_fraction_shares_and_moles_follow_the_EOS", unit_gas_pressures_components),
    ("C19.gas_rows.fixed_pressure_phase_exists_iff_sum_p_i_reaches_P_and_GAS_MOLES_residuals", unit_gas_rows),
    ("C19.setup_fixed_volume_gas.one_unknown_per_component_in_component_order", unit_setup_fixed_volume),
    ("C19.read_gas_phase.defaults_and_option_table", unit_read_gas_phase),
    ("C19.calc_PR[prep].molar_volume_is_the_gas_root_of_the_cubic_and_P_is_the_EOS_pressure", unit_cubic),
    ("C19.build_gas_phase.mass_balance_and_pressure_sum_terms_of_each_gas_component", lambda twin=False: unit_build_gas("pressure", twin)),
    ("C19.build_fixed_volume_gas.mass_balance_and_pressure_sum_terms_of_each_gas_component", lambda twin=False: unit_build_gas("volume", twin)),
]
from props.c19_ext2 import UNITS as _U2; UNITS = UNITS + _U2
from props.c19_ext3 import UNITS as _U3; UNITS = UNITS + _U3
from props.c19_ext5 import UNITS as _U5; UNITS = UNITS + _U5
