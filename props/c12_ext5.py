"""C12 (fifth wave).

* reactions() (mainsubs.cpp): the batch-reaction steps run on the working copy numbered -2; copy_use(-2) makes it before the steps (kinetics: user
  number -> -2) and after the last step the kinetic reactants are stored back under the USER's number (source -2, target the user's number), then
  saved once; nothing is stored back when no KINETICS is in use.  The two copies are mirror images: (source, target) of the store-back is
  (target, source) of copy_use's kinetics copy.
* rk_kinetics() (kinetics.cpp): inside the sub-step loop every rate evaluation is preceded, in the same sub-step, by an assignment of the clock
  rate_sim_time = rate_sim_time_start + h_sum + c*h; the first evaluation of a sub-step (stage k1) uses c = 0 (so later sub-steps do not inherit the
  clock of the previous sub-step's last stage), the stage nodes are the Cash-Karp nodes 0, 1/5, 3/10, 3/5, 1, 7/8 in this order, and h_sum only
  advances behind the last stage."""
import sympy
from fractions import Fraction
from props.common import *
from vf.core import FAILED, DISCHARGED, UNDECIDED

MS = "src/phreeqcpp/mainsubs.cpp"
KIN = "src/phreeqcpp/kinetics.cpp"
GETTERS = ("Get_reaction_in", "Get_reaction_ptr", "Get_reaction_steps", "Get_kinetics_in", "Get_kinetics_ptr", "Get_temperature_in", "Get_temperature_ptr", "Get_countTemps",
           "Get_pressure_in", "Get_pressure_ptr", "Get_count", "Rxn_find", "Current_step", "set_use", "Get_n_kinetics_user")


def _isnum(t, v):
    return tm.isnum(t) and t.args[0] == v


def unit_reactions_store_back(twin=False):
    q = "Phreeqc::reactions"
    fn = A.find_function(MS, q)
    r = U.new_unit("C12.reactions.kinetic_working_copy_-2_made_from_and_stored_back_under_the_user's_number", MS, q, fn)
    c = ctx(functional=GETTERS)
    # the step loop is located by what it does (it runs the reactions)
    loops = [x for x in A.walk(fn) if x.get("kind") in ("ForStmt", "WhileStmt", "DoStmt")]
    lo = [k for k, lp in enumerate(loops) if "run_reactions(" in text_of(MS, lp["inner"][-1])]
    if len(lo) != 1:
        raise Undecided("reactions(): step loop not found")
    f, ex, fin, info = U.run_function(MS, q, modes={lo[0]: "skip"}, ctx=c)
    USE = tm.app("fld:use", (THIS,), "P")
    n = {True: 0, False: 0}
    for s in live(fin, ("ret", "run")):
        evs = list(s.events)
        cu = [e for e in evs if e.name.endswith("copy_use")]
        if not cu:
            continue                                             # set_use() == FALSE: nothing to do
        rc = [e for e in evs if e.name.endswith("Rxn_copy")]
        sv = [e for e in evs if e.name.split("::")[-1] == "saver"]
        okp = len(cu) == 1 and _isnum(cu[0].args[0], -2)
        r.add("before.working_copy_-2_made_once(copy_use(-2))", DISCHARGED if okp else FAILED, "trace", 0, repr([e.args for e in cu])[:120])
        ki = [e for e in evs if e.name.endswith("Get_kinetics_in")]
        if not ki:
            r.add("after.kinetics_in_use_consulted", FAILED, "trace", 0, ""); continue
        kin = tm.eq(ki[-1].result, tm.num(1, "I"))
        for hy, used in cases(list(s.pc), kin):
            n[used] += 1
            if used:
                ok1 = len(rc) == 1 and "Rxn_kinetics_map" in repr(rc[0].args[0])
                r.add("after.kinetics_in_use=>stored_back_once_in_the_kinetics_store", DISCHARGED if ok1 else FAILED, "trace", 0, repr([e.args for e in rc])[:160])
                if ok1:
                    src, dst = rc[0].args[1], rc[0].args[2]
                    if twin:
                        src, dst = dst, src
                    user = [e for e in evs if e.name.endswith("Get_n_kinetics_user")]
                    oku = bool(user) and (dst is user[-1].result or B.z3_prove(hy, tm.eq(dst, user[-1].result))[0] == "proved") and user[-1].recv is not None and "use" in repr(user[-1].recv)
                    r.add("after.source_is_the_working_copy_-2", DISCHARGED if _isnum(src, -2) else FAILED, "trace", 0, repr(src))
                    r.add("after.target_is_the_user's_KINETICS_number(use.n_kinetics_user)", DISCHARGED if oku else FAILED, "trace", 0, repr(dst)[:100])
                    oks = len(sv) >= 1 and evs.index(rc[0]) < evs.index(sv[-1]) and evs.index(cu[0]) < evs.index(rc[0])
                    r.add("after.stored_back_behind_the_steps_and_before_the_final_save", DISCHARGED if oks else FAILED, "trace", 0, "")
            else:
                r.add("after.no_kinetics=>nothing_stored_back", DISCHARGED if not rc else FAILED, "trace", 0, repr([e.args for e in rc])[:160])
        r.add("after.result_saved_once_behind_the_steps", DISCHARGED if len(sv) == 1 else FAILED, "trace", 0, "%d" % len(sv))
    r.add("reach.with_and_without_kinetics", DISCHARGED if n[True] and n[False] else UNDECIDED, "symex", 0, repr(n), kind="vacuity")
    # ---- the mirror image in copy_use
    f2, ex2, fin2, info2 = U.run_function(MS, "Phreeqc::copy_use", ctx=ctx(functional=GETTERS))
    i0 = tm.sym("P0_i", "I")
    m = {True: 0, False: 0}
    for s in live(fin2, ("ret", "run")):
        ki = [e for e in s.events if e.name.endswith("Get_kinetics_in")]
        rk = [e for e in s.events if e.name.endswith("Rxn_copy") and "Rxn_kinetics_map" in repr(e.args[0])]
        if not ki:
            r.add("copy_use.kinetics_in_use_consulted", FAILED, "trace", 0, ""); continue
        for hy, used in cases(list(s.pc), tm.eq(ki[0].result, tm.num(1, "I"))):
            m[used] += 1
            if used:
                user = [e for e in s.events if e.name.endswith("Get_n_kinetics_user")]
                okm = len(rk) == 1 and bool(user) and rk[0].args[1] is user[0].result and rk[0].args[2] is i0
                r.add("copy_use.kinetics_copied_from_the_user's_number_to_the_number_asked_for(mirror_of_the_store_back)", DISCHARGED if okm else FAILED, "trace", 0, repr([e.args for e in rk])[:160])
            else:
                r.add("copy_use.no_kinetics=>no_kinetics_copy", DISCHARGED if not rk else FAILED, "trace", 0, "")
        if m[True] > 40 and m[False] > 40:
            break
    r.add("reach.copy_use", DISCHARGED if m[True] and m[False] else UNDECIDED, "symex", 0, repr(m), kind="vacuity")
    r.assumptions += ["Utilities::Rxn_copy(map, source, target) copies entry `source` of the store to number `target`", "the getters of `use` are pure functions of it", "the step loop (unit C12.reactions.step_driver) is skipped here: what precedes and follows it is executed",
                      "copy_use: the first 80 feasible paths are examined (the kinetics part does not depend on the other reactants)"]
    return r


CASH_KARP_NODES = [Fraction(0), Fraction(1, 5), Fraction(3, 10), Fraction(3, 5), Fraction(1), Fraction(7, 8)]


def unit_rk_clock(twin=False):
    q = "Phreeqc::rk_kinetics"
    fn = A.find_function(KIN, q)
    r = U.new_unit("C12.rk_kinetics.clock_set_inside_the_sub-step_loop_before_every_stage_rate_evaluation(k1_included)", KIN, q, fn)
    loops = [x for x in A.walk(fn) if x.get("kind") in ("ForStmt", "WhileStmt", "DoStmt")]
    wl = [lp for lp in loops if lp.get("kind") == "WhileStmt" and any(y.get("kind") == "CXXMemberCallExpr" and text_of(KIN, y).startswith("calc_kinetic_reaction(") for y in A.walk(lp))]
    wl = [lp for lp in wl if not any(o is not lp and o in wl and any(y is lp for y in A.walk(o)) for o in wl)]
    if len(wl) != 1:
        raise Undecided("rk_kinetics(): sub-step loop not found")
    w = wl[0]
    calls = [y for y in A.walk(w) if y.get("kind") == "CXXMemberCallExpr" and text_of(KIN, y).startswith("calc_kinetic_reaction(")]
    calls.sort(key=lambda y: A.src_range_text(y)[0])
    asg = [x for x in A.walk(w) if x.get("kind") == "BinaryOperator" and x.get("opcode") == "=" and text_of(KIN, x["inner"][0]) in ("rate_sim_time", "this->rate_sim_time")]
    by_text = {}
    for x in asg:
        by_text.setdefault(text_of(KIN, x["inner"][1]), x)
    def node_of(x):
        f, ex, fin, info = region(KIN, q, [x], ctx())
        out = set()
        for s in live(fin):
            v = fld(ex, s, "rate_sim_time", "R")
            rest = v - fld0(ex, s, "rate_sim_time_start", "R") - tm.sym("L_h_sum", "R")
            cv = B.SymConv(); e = sympy.expand(cv.conv(rest)); hs = cv.conv(tm.sym("L_h", "R"))
            cf = sympy.simplify(e / hs) if e != 0 else sympy.Integer(0)
            out.add(Fraction(str(sympy.nsimplify(cf, rational=True))) if cf.is_number else None)
        return out.pop() if len(out) == 1 else None
    stage_nodes = []
    nst = 0
    for k, y in enumerate(calls):
        a = initial_value_before(fn, KIN, y, "rate_sim_time")
        if a is None:
            r.add("clock.rate_evaluation_%d_preceded_by_a_clock_assignment_in_the_same_sub-step" % k, FAILED, "ast+symex", 0, "no assignment of rate_sim_time precedes it inside the loop: it inherits the clock of the previous sub-step")
            if k == 0:
                stage_nodes.append(None)
            continue
        if a[0] == "?":
            r.add("clock.rate_evaluation_%d_re-evaluates_within_a_stage(clock_assigned_earlier_in_the_sub-step_under_a_branch)" % k, DISCHARGED, "ast", 0, a[1], kind="trace")
            continue
        x = by_text.get(a[1])
        cf = node_of(x) if (a[0] == "=" and x is not None) else None
        okf = cf is not None and 0 <= cf <= 1
        r.add("clock.rate_evaluation_%d_preceded_by_a_clock_assignment_in_the_same_sub-step" % k, DISCHARGED if okf else FAILED, "ast+symex", 0, "rate_sim_time = rate_sim_time_start + h_sum + (%s)*h" % cf)
        nst += 1
        if not stage_nodes or stage_nodes[-1] != cf:
            stage_nodes.append(cf)
    want0 = Fraction(0) if not twin else Fraction(1, 5)
    r.add("clock.first_rate_evaluation_of_a_sub-step(k1)_is_at_rate_sim_time_start+h_sum", DISCHARGED if stage_nodes and stage_nodes[0] == want0 else FAILED, "symex", 0, repr(stage_nodes[:1]))
    r.add("clock.stage_nodes_are_Cash_Karp(0,1/5,3/10,3/5,1,7/8)_in_order", DISCHARGED if stage_nodes == CASH_KARP_NODES else FAILED, "symex", 0, repr([str(c_) for c_ in stage_nodes]))
    r.add("reach.rate_evaluations", DISCHARGED if nst >= 6 else UNDECIDED, "symex", 0, "%d of %d" % (nst, len(calls)), kind="vacuity")
    # h_sum advances only behind the last stage evaluation
    hs = [x for x in A.walk(w) if x.get("kind") in ("BinaryOperator", "CompoundAssignOperator", "UnaryOperator") and x.get("opcode", "") in ("=", "+=", "-=", "*=", "/=", "++", "--")
          and text_of(KIN, x["inner"][0]) in ("h_sum",)]
    last = max(A.src_range_text(y)[0] for y in calls) if calls else 0
    okh = bool(hs) and all(A.src_range_text(x)[0] > last for x in hs)
    r.add("clock.h_sum_advances_only_behind_the_last_stage_of_the_sub-step", DISCHARGED if okh else FAILED, "ast", 0, "%d assignments" % len(hs), kind="structural")
    r.assumptions += ["the clock a rate evaluation sees is the nearest preceding assignment of rate_sim_time in its enclosing blocks inside the loop (straight-line dominance read off the statement list)",
                      "a re-evaluation inside a stage (after the stage's equilibration) keeps the stage's clock; the form and range of every clock assignment and the exit clock: unit C12.rk_kinetics.shortcut_exit...",
                      "locals read by name: h, h_sum", "doubles as reals"]
    return r


UNITS = [
    ("C12.reactions.kinetic_working_copy_-2_made_from_and_stored_back_under_the_user's_number", unit_reactions_store_back),
    ("C12.rk_kinetics.clock_set_inside_the_sub-step_loop_before_every_stage_rate_evaluation(k1_included)", unit_rk_clock),
]
