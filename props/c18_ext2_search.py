"""C18 (second extension, search): solve_inverse's exhaustive search over subsets of phases and initial solutions, its bit-set
book-keeping, next_set_phases, the stores of good / bad / minimal sets.

Item numbering of a bit set (the whole file relies on it, shrink() and range() read it the same way):
   bit p                     phase p                 (p = 0 .. phases.size() - 1)
   bit phases.size() + q     solution q              (q = 0 .. count_solns - 1; the last one is the final solution)
A candidate is  current_bits = soln_bits * 2^phases.size() + phase_bits.

What the property needs from the search (every obligation below is one of these, demanded on every path of one arbitrary pass of the loop):
   * a candidate is solved unless it is contained in a known infeasible set, contained in a known minimal model, or (with -minimal) contains a
     known minimal model; the solver gets exactly the candidate;
   * nothing is reported for an infeasible candidate; it is stored as infeasible;
   * the reported set (good_bits) is the candidate minus exactly the items whose value is zero: phase p <-> inv_delta1[count_solns + p],
     solution q <-> inv_delta1[q];
   * a model is printed / punched only when its set is not yet in the list of reported sets, after it was stored there, with the ranges
     computed for that very set when -range is on;
   * with -minimal only results of minimal_solve are reported, and minimal_solve is started only from a set that contains no known minimal model."""
from props.common import *
from vf.core import FAILED, DISCHARGED, UNDECIDED
from fractions import Fraction
from props.c18_ext import (INV, I0, I1, mkctx, all_loops, ordinal, nested, head, vdata, vsize, same, vec_writes, F, spec_cases, vdata0, vsize0, at)

SQ = "Phreeqc::solve_inverse"
FUNCTIONAL = ("equal", "set_bit", "subset_bad", "subset_minimal", "superset_minimal", "get_bits")
REPORT = ("print_model", "punch_model", "save_good", "range", "dump_netpath_pat", "save_minimal", "minimal_solve")


def short(e):
    return e.name.split("::")[-1]


def proves(hy, goal):
    return goal is tm.TRUE or B.z3_prove(list(hy), goal, timeout_ms=8000)[0] == "proved"


def demand(r, name, hy, goal, kind="post"):
    return U.discharge_valid(r, name, list(hy), goal, kind=kind)


def the_while(fn):
    wl = [lp for lp in all_loops(fn) if lp["kind"] == "WhileStmt" and "next_set_phases(" in text_of(INV, lp["inner"][0 if len(lp["inner"]) == 2 else 1])]
    if len(wl) != 1:
        raise Undecided("candidate loop of solve_inverse (while next_set_phases ...) not found (%d)" % len(wl))
    return wl[0]


def shl(a, b):
    return tm.app("shl", (a, b), "I")


def run_candidate():
    fn = A.find_function(INV, SQ)
    wl = the_while(fn)
    c = mkctx(functional=FUNCTIONAL)
    inner = {ordinal(fn, x): "iter" for x in nested(wl)}
    f, ex, its, info = U.run_loop_isolated(INV, SQ, ordinal(fn, wl), ctx=c, inner_modes=inner)
    return fn, wl, ex, its, info


def candidate_terms(ex, s, info):
    inv = local(info, s, "inv_ptr")
    np_ = vsize(ex, s, "phases", inv)
    sb, pb = F(ex, s, "soln_bits"), F(ex, s, "phase_bits")
    return inv, np_, [shl(sb, np_) + pb, tm.app("bitor", (shl(sb, np_), pb), "I")]


# ------------------------------------------------------------------------------------------------ one candidate of the search
def unit_candidate(twin=False):
    fn, wl, ex, its, info = run_candidate()
    r = U.new_unit("C18.solve_inverse.candidate.solved_unless_excluded_reported_only_when_feasible_new_and_stored", INV, SQ, fn)
    TRUEV, ERR = I1, I0
    jl = [x for x in nested(wl) if "good[j]" in text_of(INV, x["inner"][-1])]
    if len(jl) != 2:
        raise Undecided("the two look-ups in the list of reported sets not found (%d)" % len(jl))
    kj2 = ordinal(fn, jl[1])
    seen = set()
    for s in live(its, ("run", "cont", "brk")):
        hy = list(s.pc)
        evs = U.iter_events(s)
        names = [short(e) for e in evs]
        inv, np_, cbs = candidate_terms(ex, s, info)
        cur = F(ex, s, "current_bits")
        cb = next((t for t in cbs if t is cur), None)
        if cb is None:
            cb = next((t for t in cbs if same(hy, t, cur)), None)
        if cb is None:
            r.add("candidate.current_bits==soln_bits*2^phases+phase_bits", FAILED, "symex", 0, repr(cur)[:300]); continue
        r.add("candidate.current_bits==soln_bits*2^phases+phase_bits", DISCHARGED, "symex", 0, "", kind="post")
        fa = lambda nm, x: tm.eq(tm.app("call:" + nm, (THIS, x), "I"), TRUEV)
        minimal_on = tm.eq(F(ex, s, "minimal", "I", inv), TRUEV)
        excl = tm.or_(fa("subset_bad", cb), fa("subset_minimal", cb), tm.and_(minimal_on, fa("superset_minimal", cb)))
        if twin:
            excl = tm.or_(fa("subset_bad", cb), fa("subset_minimal", cb), fa("superset_minimal", cb))
        sw = [e for e in evs if short(e) == "solve_with_mask"]
        if not sw:
            seen.add("excluded")
            demand(r, "excluded.only_when_subset_of_infeasible_or_of_minimal_or(-minimal)superset_of_minimal", hy, excl)
            bad = [n for n in names if n in REPORT or n == "save_bad"]
            r.add("excluded.nothing_stored_or_reported", DISCHARGED if not bad and s.status == "cont" else FAILED, "trace", 0, repr(bad) + " " + s.status, kind="frame")
            continue
        demand(r, "solved.candidate_is_not_excluded", hy, tm.not_(excl))
        oka = len(sw) == 1 and len(sw[0].args) == 2 and sw[0].args[0] is inv and (sw[0].args[1] is cb or same(hy, sw[0].args[1], cb))
        r.add("solved.solver_gets_the_candidate_itself(once)", DISCHARGED if oka else FAILED, "trace", 0, repr([e.args for e in sw])[:300], kind="trace")
        demand(r, "solved.candidate_passed_the_subset_tests=>search_of_smaller_sizes_goes_on(quit=FALSE)", hy,
               tm.eq(local(info, s, "quit"), I0) if "post_mortem" not in names else tm.TRUE)
        feasible = tm.not_(tm.eq(sw[0].result, ERR))
        sbad = [e for e in evs if short(e) == "save_bad"]
        if sbad:
            seen.add("infeasible")
            demand(r, "infeasible.stored_as_infeasible_only_when_the_solver_failed", hy, tm.not_(feasible))
            okb = len(sbad) == 1 and (sbad[0].args[0] is cb or same(hy, sbad[0].args[0], cb))
            r.add("infeasible.the_candidate_itself_is_stored", DISCHARGED if okb else FAILED, "trace", 0, repr(sbad[0].args)[:200], kind="trace")
            rep = [n for n in names if n in REPORT]
            r.add("infeasible.nothing_reported", DISCHARGED if not rep else FAILED, "trace", 0, repr(rep), kind="frame")
            firstv = tm.sym("iter_first", "I")
            if "post_mortem" in names:
                seen.add("infeasible_first")
                demand(r, "infeasible.post_mortem_only_for_the_very_first_candidate", hy, tm.eq(firstv, TRUEV))
                r.add("infeasible.first_candidate_infeasible_ends_the_search", DISCHARGED if s.status == "brk" and proves(hy, tm.eq(local(info, s, "quit"), TRUEV)) else FAILED, "symex", 0, s.status)
            else:
                demand(r, "infeasible.later_candidates_just_go_on", hy, tm.not_(tm.eq(firstv, TRUEV)))
                r.add("infeasible.search_goes_on", DISCHARGED if s.status == "cont" else FAILED, "symex", 0, s.status)
            continue
        seen.add("feasible")
        demand(r, "feasible.solver_succeeded", hy, feasible)
        demand(r, "feasible.first=FALSE_afterwards", hy, tm.eq(local(info, s, "first"), I0))
        GB = local(info, s, "good_bits")
        okg = GB.op == "sym" and str(GB.args[0]).startswith("havoc_good_bits")
        r.add("feasible.good_bits_is_the_result_of_the_clearing_loops(not_reassigned)", DISCHARGED if okg else FAILED, "symex", 0, repr(GB)[:100])
        # look-up 1 / report 1
        ent2 = info["inner_entries"].get(kj2, [])
        J1 = None
        for e in ent2:
            v = e.locals.get(info["names"]["j"])
            if v is not None and not isinstance(v, tuple):
                J1 = v
        cg = F(ex, s, "count_good")
        prints = [k for k, n in enumerate(names) if n == "print_model"]
        groups = []
        for k in prints:
            sg = [q for q in range(k) if names[q] == "save_good" and not any(names[t] == "print_model" for t in range(q, k))]
            groups.append((sg[-1] if sg else None, k))
        ms = [e for e in evs if short(e) == "minimal_solve"]
        MB = ms[0].result if ms else None
        r1 = [g for g in groups if g[0] is not None and evs[g[0]].args[0] is GB]
        r2 = [g for g in groups if g[0] is not None and MB is not None and evs[g[0]].args[0] is MB]
        other = [g for g in groups if g not in r1 and g not in r2]
        r.add("feasible.every_printed_model_was_stored_first(save_good(set)_then_print_model)", DISCHARGED if not other and len(r1) <= 1 and len(r2) <= 1 else FAILED, "trace", 0, repr(names)[:300], kind="trace")
        new1 = tm.and_(tm.le(cg, J1), tm.eq(F(ex, s, "minimal", "I", inv), I0)) if J1 is not None else None
        if new1 is None:
            r.add("report1.look-up_result_found", UNDECIDED, "symex", 0, "second look-up loop not reached")
        elif r1:
            seen.add("report1")
            demand(r, "report1.only_without_-minimal_and_when_the_set_is_not_yet_reported", hy, new1)
        else:
            demand(r, "report1.absent_only_with_-minimal_or_when_already_reported", hy, tm.not_(new1))
        n_sg = names.count("save_good")
        r.add("feasible.no_set_stored_without_being_reported", DISCHARGED if n_sg == len(groups) else FAILED, "trace", 0, "%d save_good, %d print_model" % (n_sg, len(groups)), kind="trace")
        for tag, grp, X in (("report1", r1, GB), ("report2", r2, MB)):
            for (a, k) in grp:
                seg = names[a + 1:k]
                rg = [evs[t] for t in range(a + 1, k) if names[t] == "range"]
                ron = tm.eq(F(ex, s, "range", "I", inv), TRUEV)
                if rg:
                    okr = len(rg) == 1 and rg[0].args[0] is inv and rg[0].args[1] is X
                    r.add("%s.ranges_computed_for_the_reported_set_itself" % tag, DISCHARGED if okr else FAILED, "trace", 0, repr(rg[0].args)[:200], kind="pairing")
                    demand(r, "%s.ranges_only_with_-range" % tag, hy, ron)
                else:
                    demand(r, "%s.no_ranges_only_without_-range" % tag, hy, tm.not_(ron))
                nxt = names[k + 1:] if (a, k) == groups[-1] else names[k + 1:groups[groups.index((a, k)) + 1][0]]
                okp = "punch_model" in nxt and all(e.args and e.args[0] is inv for e in evs[k:k + 1])
                r.add("%s.printed_model_is_also_punched" % tag, DISCHARGED if okp else FAILED, "trace", 0, repr(nxt)[:200], kind="pairing")
        # minimal search
        sup = [e for e in evs if short(e) == "superset_minimal" and e.args and e.args[0] is GB]
        supT = fa("superset_minimal", GB)
        if not ms:
            seen.add("superset_of_minimal")
            demand(r, "no_minimal_search.only_when_the_set_contains_a_known_minimal_model", hy, supT)
            r.add("no_minimal_search.nothing_stored_as_minimal_and_no_second_report", DISCHARGED if "save_minimal" not in names and not r2 and s.status == "cont" else FAILED, "trace", 0, repr(names)[:200], kind="frame")
            continue
        seen.add("minimal_search")
        demand(r, "minimal_search.only_from_a_set_that_contains_no_known_minimal_model", hy, tm.not_(supT))
        okm = len(ms) == 1 and ms[0].args[0] is inv and ms[0].args[1] is GB
        r.add("minimal_search.starts_from_the_reported_set", DISCHARGED if okm else FAILED, "trace", 0, repr(ms[0].args)[:200], kind="trace")
        sm = [e for e in evs if short(e) == "save_minimal"]
        oks = len(sm) == 1 and sm[0].args[0] is MB and names.index("save_minimal") > names.index("minimal_solve")
        r.add("minimal_search.its_result_is_stored_as_minimal(once)", DISCHARGED if oks else FAILED, "trace", 0, repr([e.args for e in sm])[:200], kind="trace")
        J2 = local(info, s, "j")
        new2 = tm.le(cg, J2)
        if twin:
            new2 = tm.lt(cg, J2)
        if r2:
            seen.add("report2")
            demand(r, "report2.only_when_the_minimal_set_is_not_yet_reported", hy, new2)
        else:
            demand(r, "report2.absent_only_when_already_reported", hy, tm.not_(new2))
    need = {"excluded", "infeasible", "infeasible_first", "feasible", "report1", "report2", "superset_of_minimal", "minimal_search"}
    r.add("reach.cases", DISCHARGED if need <= seen else UNDECIDED, "symex", 0, repr(sorted(seen)), kind="vacuity")
    r.assumptions += ["subset_bad / subset_minimal / superset_minimal / set_bit / get_bits / equal are functional (their own contracts: C18.bits.*)",
                      "solve_with_mask, minimal_solve, range, print_model, punch_model are opaque here (their own units); calls are taken not to change the members the "
                      "loop reads (soln_bits, phase_bits, count_good, the options of the inverse record)",
                      "'not yet reported' is  count_good <= j  after the look-up loop; that the loop leaves j < count_good exactly when the set is in the list is "
                      "unit C18.solve_inverse.lookups...", "one arbitrary pass of the loop from an arbitrary state; << as an uninterpreted function of both operands"]
    return r


# ------------------------------------------------------------------------------------------------ good_bits and the look-ups
def inner_loop_cond(info, k, var):
    """(entry states, iteration states, the condition the iteration assumed, the induction symbol) of an inner loop run as iteration contract"""
    ents = info["inner_entries"].get(k, [])
    iters = live(info["inner_iters"].get(k, []), ("run", "cont", "brk"))
    if not ents or not iters:
        return ents, iters, None
    for s in iters:
        best = None
        for e in ents:
            n = len(e.pc)
            if len(s.pc) > n and all(a is b for a, b in zip(e.pc, s.pc[:n])) and (best is None or n > best):
                best = n
        if best is not None:
            return ents, iters, s.pc[best]
    return ents, iters, None


def prefix_of(ents, s):
    """path condition of the loop-entry state the iteration state s started from"""
    best = []
    for e in ents:
        n = len(e.pc)
        if len(s.pc) >= n and all(a is b for a, b in zip(e.pc, s.pc[:n])) and n >= len(best):
            best = list(e.pc)
    return best


def start_value(ex, info, loop, ent, var):
    init = loop["inner"][0] if loop.get("kind") == "ForStmt" else None
    if init is None or not init.get("kind"):
        return None
    try:
        for s0 in ex.exec(init, [ent.clone()]):
            did = None
            for x in A.walk(init):
                if x.get("kind") == "VarDecl" and x.get("name") == var:
                    did = x["id"]
            addr = tm.sym("&L_%s" % var, "P")
            for key in (("m", "I"),):
                a0, a1 = ent.heap.get(key), s0.heap.get(key)
                if a1 is not None and a1 is not a0 and a1.op == "store" and isinstance(a1.args[1], tuple) and a1.args[1][0] is addr:
                    return a1.args[2]          # a local whose address is taken elsewhere in the function lives in memory
            v = s0.locals.get(did if did is not None else info["names"][var])
            if isinstance(v, tuple) and v[0] == "obj":      # a local whose address is taken lives in memory
                return tm.select(ex.heap_arr(s0, ("m", "I")), v[1], I0)
            return None if isinstance(v, tuple) else v
    except Exception:
        return None
    return None


def unit_good_bits(twin=False):
    """good_bits = candidate with the bit of every item whose value is zero cleared, and no other bit touched:
       phase p     (bit p)                  <-> equal(inv_delta1[count_solns + p], 0, TOL)        p = 0 .. phases.size() - 1
       solution q  (bit phases.size() + q)  <-> equal(inv_delta1[q], 0, TOL)                      q = 0 .. count_solns - 1
    The two look-ups in the list of reported sets stop exactly at an entry equal to the set looked for and run over 0 .. count_good - 1."""
    fn, wl, ex, its, info = run_candidate()
    r = U.new_unit("C18.solve_inverse.good_bits.bit_of_an_item_cleared_exactly_when_its_value_is_zero", INV, SQ, fn)
    TRUEV = I1
    clear = [x for x in nested(wl) if "set_bit(" in text_of(INV, x["inner"][-1])]
    look = [x for x in nested(wl) if "good[j]" in text_of(INV, x["inner"][-1])]
    if len(clear) != 2 or len(look) != 2:
        raise Undecided("clearing loops / look-up loops not found (%d, %d)" % (len(clear), len(look)))
    kinds = {}
    chain = []
    for lp in clear:
        k = ordinal(fn, lp)
        ents, iters, cond = inner_loop_cond(info, k, "i")
        if cond is None:
            r.add("clearing_loop.reached", UNDECIDED, "symex", 0, "loop %d" % k); continue
        s0 = iters[0]
        inv = local(info, s0, "inv_ptr")
        np_ = vsize(ex, s0, "phases", inv); ns = F(ex, s0, "count_solns", "I", inv)
        i = tm.sym("iter_i", "I")
        hyc = prefix_of(ents, s0)
        kind = None
        for tag, bound in (("phases", np_), ("solutions", ns)):
            want = tm.lt(i, bound)
            if proves(hyc + [want], cond) and proves(hyc + [cond], want):
                kind = tag
        v0 = start_value(ex, info, lp, ents[0], "i")
        if kind is None or v0 is None or not (v0 is I0 or proves(hyc, tm.eq(v0, I0))):
            r.add("clearing_loop.covers_every_phase_or_every_solution(from_0)", FAILED, "z3", 0, "condition %r, start %r" % (cond, v0)); continue
        r.add("clearing_loop[%s].covers_0..count-1" % kind, DISCHARGED, "z3", 0, repr(cond)[:120])
        kinds[kind] = kinds.get(kind, 0) + 1
        chain.append((ents, k))
        seen = set()
        for s in iters:
            hy = list(s.pc)
            evs = U.iter_events(s)
            eq = [e for e in evs if short(e) == "equal"]
            sbt = [e for e in evs if short(e) == "set_bit"]
            g0, g1 = tm.sym("iter_good_bits", "I"), local(info, s, "good_bits")
            if len(eq) != 1:
                r.add("%s.one_zero_test_per_item" % kind, FAILED, "trace", 0, "%d" % len(eq)); continue
            idx = (ns + i) if kind == "phases" else i
            if twin and kind == "solutions":
                idx = ns + i
            R = ex.heap_arr(s, ("m", "R"))
            val = tm.select(R, vdata(ex, s, "inv_delta1"), idx)
            a = eq[0].args
            okv = len(a) == 3 and (a[0] is val or same(hy, a[0], val)) and same(hy, a[1], tm.num(0))
            r.add("%s.tests_the_item's_own_unknown(%s)" % (kind, "inv_delta1[count_solns+p]" if kind == "phases" else "inv_delta1[q]"), DISCHARGED if okv else FAILED, "trace", 0, repr(a)[:300], kind="pairing")
            TOLV = a[2] if len(a) == 3 else None
            r.add("%s.zero_test_uses_a_positive_constant_tolerance" % kind, DISCHARGED if TOLV is not None and tm.isnum(TOLV) and 0 < TOLV.args[0] <= Fraction(1, 10**6) else FAILED, "trace", 0, repr(TOLV))
            zero = tm.eq(eq[0].result, TRUEV)
            pos = i if kind == "phases" else (np_ + i)
            for h, case in cases(hy, zero):
                if h is None:
                    continue
                if case:
                    seen.add("zero")
                    want = tm.app("call:set_bit", (THIS, g0, pos, I0), "I")
                    ok = g1 is want or (sbt and len(sbt) == 1 and sbt[0].args[0] is g0 and same(h, sbt[0].args[1], pos) and same(h, sbt[0].args[2], I0) and g1 is sbt[0].result)
                    r.add("%s.zero_value_clears_bit_%s_of_good_bits" % (kind, "p" if kind == "phases" else "phases.size()+q"), DISCHARGED if ok else FAILED, "symex", 0, repr(g1)[:300])
                else:
                    seen.add("nonzero")
                    r.add("%s.non-zero_value_keeps_good_bits" % kind, DISCHARGED if g1 is g0 or proves(h, tm.eq(g1, g0)) else FAILED, "symex", 0, repr(g1)[:300], kind="frame")
        r.add("reach.%s" % kind, DISCHARGED if seen == {"zero", "nonzero"} else UNDECIDED, "symex", 0, repr(sorted(seen)), kind="vacuity")
    r.add("clearing_loops.one_over_the_phases_and_one_over_the_solutions", DISCHARGED if kinds == {"phases": 1, "solutions": 1} else FAILED, "symex", 0, repr(kinds))
    # the chain: good_bits enters the first clearing loop as the candidate and is not reassigned between / after the loops
    if len(chain) == 2:
        chain.sort(key=lambda t: t[1])
        e1 = chain[0][0][0]; e2 = chain[1][0][0]
        inv, np_, cbs = candidate_terms(ex, e1, info)
        g_in = e1.locals.get(info["names"]["good_bits"])
        okc = any(g_in is t for t in cbs) or any(same(list(e1.pc), g_in, t) for t in cbs)
        r.add("good_bits.starts_as_the_candidate(current_bits)", DISCHARGED if okc else FAILED, "symex", 0, repr(g_in)[:200], kind="establishment")
        g_mid = e2.locals.get(info["names"]["good_bits"])
        okm = g_mid is not None and not isinstance(g_mid, tuple) and g_mid.op == "sym" and str(g_mid.args[0]).startswith("havoc_good_bits")
        r.add("good_bits.not_reassigned_between_the_clearing_loops", DISCHARGED if okm else FAILED, "symex", 0, repr(g_mid)[:200], kind="frame")
    # look-ups
    for n_, lp in enumerate(look):
        k = ordinal(fn, lp)
        ents, iters, cond = inner_loop_cond(info, k, "j")
        if cond is None:
            r.add("lookup%d.reached" % (n_ + 1), UNDECIDED, "symex", 0, ""); continue
        j = tm.sym("iter_j", "I")
        s0 = iters[0]
        hyc = prefix_of(ents, s0)
        want = tm.lt(j, F(ex, s0, "count_good"))
        okr = proves(hyc + [want], cond) and proves(hyc + [cond], want)
        v0 = start_value(ex, info, lp, ents[0], "j")
        r.add("lookup%d.runs_over_0..count_good-1" % (n_ + 1), DISCHARGED if okr and v0 is not None and (v0 is I0 or proves(hyc, tm.eq(v0, I0))) else FAILED, "z3", 0, "cond %r start %r" % (cond, v0))
        key_name = "good_bits" if n_ == 0 else "minimal_bits"
        for s in iters:
            hy = list(s.pc)
            key = local(info, s, key_name)
            gj = tm.select(ex.heap_arr(s, ("m", "I")), vdata(ex, s, "good"), j)
            hit = tm.eq(key, gj)
            for h, case in cases(hy, hit):
                stops = s.status == "brk"
                r.add("lookup%d.%s" % (n_ + 1, "stops_at_an_entry_equal_to_%s" % key_name if case else "passes_over_a_different_entry"), DISCHARGED if stops == case else FAILED, "symex", 0, "%s status %s" % (repr(hit)[:200], s.status))
    r.assumptions += ["equal(a, b, eps) is |a - b| <= eps (functional); set_bit(bits, pos, 0) clears exactly bit pos (unit C18.bits.set_bit)",
                      "the value of phase p is inv_delta1[col_phases + p] and col_phases == count_solns (layout unit); the value of solution q is inv_delta1[q]",
                      "loops taken by iteration contract: one arbitrary iteration from an arbitrary state; ranges by equivalence of the loop condition (z3) and the value of the induction variable after the initialiser"]
    return r


# ------------------------------------------------------------------------------------------------ the three stores of bit sets
STORES = (("save_good", "good", "count_good", "max_good"), ("save_bad", "bad", "count_bad", "max_bad"), ("save_minimal", "minimal", "count_minimal", "max_minimal"))


def unit_stores(twin=False):
    """save_good / save_bad / save_minimal append the set to THEIR list: list[count] = bits, count += 1, every earlier entry kept; the capacity
    invariant  0 <= count < max == list.size()  is established by solve_inverse (max = MAX_MODELS > 0, resize(max), count = 0) and kept by every
    save (capacity doubled and the list resized when count reaches max), so the store index is always inside the list."""
    fn0 = A.find_function(INV, SQ)
    r = U.new_unit("C18.solve_inverse.stores.append_to_their_own_list_within_capacity", INV, "Phreeqc::save_good", A.find_function(INV, "Phreeqc::save_good"))
    for q, arr, cnt, mx in STORES:
        f, ex, fin, info = U.run_function(INV, "Phreeqc::" + q, ctx=mkctx())
        n = 0
        for s in live(fin, ("ret",)):
            n += 1
            hy0 = list(s.pc)
            bits = local(info, s, "bits")
            c0, m0 = fld0(ex, s, cnt, "I"), fld0(ex, s, mx, "I")
            sz0 = vsize0(ex, s, arr)
            pre = [tm.le(I0, c0), tm.lt(c0, m0), tm.eq(sz0, m0)]
            hy = hy0 + pre
            ws = [(ix, v) for ix, v in writes(s, ("m", "I")) if isinstance(ix, tuple) and len(ix) == 2]
            own = vdata0(ex, s, arr)
            okw = len(ws) == 1 and ws[0][0][0] is own and same(hy, ws[0][0][1], c0 if not twin else c0 + I1) and ws[0][1] is bits
            r.add("%s.set_appended_at_%s[%s]_and_no_other_entry_written" % (q, arr, cnt), DISCHARGED if okw else FAILED, "symex", 0, repr(ws)[:300])
            U.discharge_valid(r, "%s.store_index_inside_the_list" % q, hy, tm.and_(tm.le(I0, c0), tm.lt(c0, sz0)))
            c1, m1, sz1 = fld(ex, s, cnt, "I"), fld(ex, s, mx, "I"), vsize(ex, s, arr)
            U.discharge_valid(r, "%s.%s+=1" % (q, cnt), hy, tm.eq(c1, c0 + I1))
            U.discharge_valid(r, "%s.capacity_invariant_kept(count<max==size)" % q, hy, tm.and_(tm.lt(c1, m1), tm.eq(sz1, m1)))
            U.discharge_valid(r, "%s.capacity_never_shrinks" % q, hy, tm.le(m0, m1))
            others = [k for k in s.heap if k[0] == "f" and k[1] in [x for t in STORES for x in t[2:]] + ["#vsize"] and writes(s, k)]
            bad = []
            for k in others:
                for ix, v in writes(s, k):
                    tgt = ix[0] if isinstance(ix, tuple) else ix
                    if k[1] in (cnt, mx) and tgt is THIS:
                        continue
                    if k[1] == "#vsize" and tgt is tm.app("fld:" + arr, (THIS,), "P"):
                        continue
                    bad.append((k[1], tgt))
            r.add("%s.other_lists_and_counters_untouched" % q, DISCHARGED if not bad else FAILED, "symex", 0, repr(bad)[:200], kind="frame")
        r.add("reach.%s" % q, DISCHARGED if n >= 2 else UNDECIDED, "symex", 0, "%d paths (with / without growth)" % n, kind="vacuity")
    # establishment in solve_inverse: the statements before its first loop
    body = A.body_of(fn0)["inner"]
    k_end = next((k for k, x in enumerate(body) if x.get("kind") in ("ForStmt", "WhileStmt", "DoStmt")), None)
    k_beg = next((k for k, x in enumerate(body) if x.get("kind") not in ("DeclStmt",)), None)
    if k_end is None or k_beg is None or k_beg >= k_end:
        raise Undecided("prologue of solve_inverse not found")
    f, ex, fin, info = region(INV, SQ, body[k_beg:k_end], mkctx())
    n = 0
    for s in live(fin):
        n += 1
        hy = list(s.pc)
        for q, arr, cnt, mx in STORES:
            U.discharge_valid(r, "establish.%s:count=0<max==size" % arr, hy, tm.and_(tm.eq(fld(ex, s, cnt, "I"), I0), tm.lt(I0, fld(ex, s, mx, "I")), tm.eq(vsize(ex, s, arr), fld(ex, s, mx, "I"))), kind="establishment")
    r.add("reach.prologue", DISCHARGED if n == 1 else UNDECIDED, "symex", 0, "%d" % n, kind="vacuity")
    r.assumptions += ["std::vector model (resize sets the size, keeps the elements below the old size)", "integers as mathematical integers (no overflow of max *= 2)",
                      "nothing else in inverse.cpp assigns count_* / max_* or resizes the three lists during the search (solve_inverse clears them at its end)"]
    return r


# ------------------------------------------------------------------------------------------------ which solution sets and model sizes are tried
def unit_enumeration(twin=False):
    """soln_bits starts with the bit of every solution set (sum of 1 << q, q = count_solns-1 .. 0), and is counted down while at least one INITIAL
    solution (bits 0 .. count_solns-2) is left: the final solution (top bit) is in every candidate, every non-empty set of initial solutions is tried.
    For each of them every model size phases.size() .. 0 is tried, next_set_phases being asked for the first combination of a size first.
    The engine refuses problems with more than 32 items (a bit set is 32 bits wide for set_bit / get_bits)."""
    fn = A.find_function(INV, SQ)
    r = U.new_unit("C18.solve_inverse.enumeration.final_solution_always_in_every_set_of_initial_solutions_and_every_size_tried", INV, SQ, fn)
    wl = the_while(fn)
    L = all_loops(fn)
    msl = [lp for lp in L if wl in nested(lp) and lp is not wl]
    if len(msl) != 2:
        raise Undecided("loops around the candidate loop not found (%d)" % len(msl))
    sol_loop, size_loop = msl[0], msl[1]
    init_loops = [lp for lp in A.body_of(fn)["inner"] if lp.get("kind") == "ForStmt" and lp is not sol_loop and "soln_bits" in text_of(INV, lp["inner"][-1])]
    if len(init_loops) != 1:
        raise Undecided("loop that fills soln_bits not found (%d)" % len(init_loops))
    il = init_loops[0]
    c = mkctx(functional=FUNCTIONAL)
    # (a) fill loop
    f, ex, its, info = U.run_loop_isolated(INV, SQ, ordinal(fn, il), ctx=c)
    i = tm.sym("iter_i", "I")
    n = 0
    for s in live(its, ("run", "cont")):
        n += 1
        hy = list(s.pc)
        sb0, sb1 = fld0(ex, s, "soln_bits", "I"), fld(ex, s, "soln_bits", "I")
        want = sb0 + tm.app("shl", (I1, i - I1 if not twin else i), "I")
        r.add("fill.soln_bits+=1<<(i-1)", DISCHARGED if sb1 is want or same(hy, sb1, want) else FAILED, "symex", 0, repr(sb1)[:200])
        inv = local(info, s, "inv_ptr")
        cond = s.pc[0]
        wantc = tm.lt(I0, i)
        r.add("fill.runs_while_i>0", DISCHARGED if proves([wantc], cond) and proves([cond], wantc) else FAILED, "z3", 0, repr(cond)[:200])
        v0 = start_value(ex, info, il, info["entry_state"], "i")
        ns = F(ex, info["entry_state"], "count_solns", "I", info["entry_state"].locals[info["names"]["inv_ptr"]])
        r.add("fill.starts_at_count_solns", DISCHARGED if v0 is not None and (v0 is ns or proves([], tm.eq(v0, ns))) else FAILED, "z3", 0, repr(v0)[:200])
        inc = text_of(INV, il["inner"][3])
        r.add("fill.steps_down_by_one", DISCHARGED if inc in ("i--", "--i", "i-=1") else FAILED, "syntactic", 0, inc, kind="structural")
    r.add("reach.fill", DISCHARGED if n == 1 else UNDECIDED, "symex", 0, "%d" % n, kind="vacuity")
    a = initial_value_before(fn, INV, il, "soln_bits")
    r.add("fill.soln_bits=0_before_the_loop", DISCHARGED if a is not None and a[0] == "=" and a[1] == "0" else FAILED, "syntactic", 0, repr(a), kind="establishment")
    # (b) at most 32 items
    body = A.body_of(fn)["inner"]
    guards = [x for x in body if x.get("kind") == "IfStmt" and "error_msg" in text_of(INV, x["inner"][1]) and "32" in text_of(INV, x["inner"][1])]
    if len(guards) != 1:
        r.add("guard.more_than_32_items_refused", FAILED, "syntactic", 0, "no guard reporting the limit of 32 items found (%d)" % len(guards))
    else:
        f, ex, fin, info = region(INV, SQ, guards, stop_on_error_msg(mkctx()))
        for s in fin:
            if B.z3_sat(list(s.pc)) == "unsat":
                continue
            inv = local(info, s, "inv_ptr")
            tot = fld0(ex, s, "count_solns", "I", inv) + vsize0(ex, s, "phases", inv)
            if s.status == "throw":
                U.discharge_valid(r, "guard.refuses_only_problems_with_more_than_32_items", list(s.pc), tm.lt(tm.num(32, "I"), tot))
            else:
                U.discharge_valid(r, "guard.search_runs_only_with_at_most_32_items(bit_sets_are_32_bits_wide)", list(s.pc), tm.le(tot, tm.num(32, "I")))
        k_g, k_l = body.index(guards[0]), body.index(sol_loop)
        r.add("guard.precedes_the_search", DISCHARGED if k_g < k_l else FAILED, "syntactic", 0, "", kind="structural")
    # (c) the loop over sets of solutions
    inner_havoc = {}
    f, ex, its, info = U.run_loop_isolated(INV, SQ, ordinal(fn, sol_loop), ctx=mkctx(functional=FUNCTIONAL))
    n = 0
    for s in live(its, ("run", "cont", "brk")):
        n += 1
        if n > 1:
            continue
        cond = s.pc[0]
        e0 = info["entry_state"]
        inv = e0.locals[info["names"]["inv_ptr"]]
        ns = F(ex, e0, "count_solns", "I", inv)
        sbits = tm.select(tm.sym("Hiter.soln_bits:I", ("A", "P", "I")), THIS) if ("f", "soln_bits", "I") in getattr(ex, "iter_written", ()) else F(ex, e0, "soln_bits")
        gb = tm.app("call:get_bits", (THIS, sbits, ns - tm.num(2, "I"), ns - I1), "I")
        want = tm.lt(I0, gb)
        r.add("solution_sets.tried_while_an_initial_solution_is_left(get_bits(soln_bits,count_solns-2,count_solns-1)>0)", DISCHARGED if proves([want], cond) and proves([cond], want) else FAILED, "z3", 0, repr(cond)[:300])
    r.add("reach.solution_sets", DISCHARGED if n else UNDECIDED, "symex", 0, "%d" % n, kind="vacuity")
    inc = text_of(INV, sol_loop["inner"][3]); ini = text_of(INV, sol_loop["inner"][0]) if sol_loop["inner"][0].get("kind") else ""
    r.add("solution_sets.counted_down_by_one_from_the_full_set", DISCHARGED if inc in ("soln_bits--", "--soln_bits", "soln_bits-=1") and ini in ("", ";") else FAILED, "syntactic", 0, "init %r inc %r" % (ini, inc), kind="structural")
    asg = [text_of(INV, x) for x in A.walk(sol_loop["inner"][-1]) if x.get("kind") in ("BinaryOperator", "CompoundAssignOperator", "UnaryOperator")
           and x.get("opcode") in ("=", "+=", "-=", "++", "--", "|=", "&=", "<<=", ">>=") and text_of(INV, x["inner"][0]).replace("this->", "") == "soln_bits"]
    r.add("solution_sets.body_does_not_assign_soln_bits", DISCHARGED if not asg else FAILED, "syntactic", 0, repr(asg)[:200], kind="frame")
    between = [x for x in body[body.index(il) + 1:body.index(sol_loop)] for y in A.walk(x) if y.get("kind") in ("BinaryOperator", "CompoundAssignOperator", "UnaryOperator")
               and y.get("opcode") in ("=", "+=", "-=", "++", "--", "|=", "&=") and text_of(INV, y["inner"][0]).replace("this->", "") == "soln_bits"]
    r.add("solution_sets.full_set_reaches_the_search_unchanged", DISCHARGED if not between else FAILED, "syntactic", 0, "%d assignments between" % len(between), kind="frame")
    # (d) the loop over model sizes
    f, ex, its, info = U.run_loop_isolated(INV, SQ, ordinal(fn, size_loop), ctx=mkctx(functional=FUNCTIONAL))
    ms = tm.sym("iter_model_size", "I")
    n = 0
    ents = info["inner_entries"].get(ordinal(fn, wl), [])
    for s in live(its, ("run", "cont", "brk")):
        n += 1
        if n > 1:
            continue
        cond = s.pc[0]
        want = tm.le(I0, ms)
        r.add("sizes.tried_while_model_size>=0", DISCHARGED if proves([want], cond) and proves([cond], want) else FAILED, "z3", 0, repr(cond)[:200])
        e0 = info["entry_state"]
        v0 = start_value(ex, info, size_loop, e0, "model_size")
        np_ = vsize(ex, e0, "phases", e0.locals[info["names"]["inv_ptr"]])
        r.add("sizes.start_with_all_phases", DISCHARGED if v0 is not None and (v0 is np_ or proves([], tm.eq(v0, np_))) else FAILED, "z3", 0, repr(v0)[:200])
    inc = text_of(INV, size_loop["inner"][3])
    r.add("sizes.step_down_by_one", DISCHARGED if inc in ("model_size--", "--model_size", "model_size-=1") else FAILED, "syntactic", 0, inc, kind="structural")
    okf = bool(ents) and all(proves(list(e.pc), tm.eq(e.locals[info["names"]["first_of_model_size"]], I1)) for e in ents)
    r.add("sizes.first_combination_requested_first(first_of_model_size=TRUE_at_the_candidate_loop)", DISCHARGED if okf else FAILED, "symex", 0, "%d entries" % len(ents))
    r.add("reach.sizes", DISCHARGED if n else UNDECIDED, "symex", 0, "%d" % n, kind="vacuity")
    # (e) the candidate loop asks next_set_phases for this size, and for the NEXT combination after the first pass
    fn2, wl2, ex2, its2, info2 = run_candidate()
    n = 0
    for s in live(its2, ("run", "cont", "brk")):
        evs = U.iter_events(s)
        nx = [e for e in evs if short(e) == "next_set_phases"]
        if len(nx) != 1:
            r.add("candidates.one_combination_per_pass", FAILED, "trace", 0, "%d" % len(nx)); continue
        n += 1
        a = nx[0].args
        oka = len(a) == 3 and a[0] is local(info2, s, "inv_ptr") and a[1] is tm.sym("iter_first_of_model_size", "I") and a[2] is local(info2, s, "model_size")
        r.add("candidates.next_set_phases(inv_ptr,first_of_model_size,model_size)", DISCHARGED if oka else FAILED, "trace", 0, repr(a)[:200], kind="trace")
        U.discharge_valid(r, "candidates.loop_goes_on_exactly_while_a_combination_is_delivered(==TRUE)", [], tm.and_(tm.implies(tm.eq(nx[0].result, I1), s.pc[0]), tm.implies(s.pc[0], tm.eq(nx[0].result, I1))))
        U.discharge_valid(r, "candidates.later_passes_ask_for_the_next_combination(first_of_model_size=FALSE)", list(s.pc), tm.eq(local(info2, s, "first_of_model_size"), I0))
    r.add("reach.candidates", DISCHARGED if n else UNDECIDED, "symex", 0, "%d" % n, kind="vacuity")
    r.assumptions += ["get_bits(bits, pos, n) returns the n bits of `bits` ending at bit pos (unit C18.bits.get_bits); 1 << k as an uninterpreted function",
                      "arithmetic argument outside the engine: soln_bits = 2^count_solns - 1 counted down while its low count_solns - 1 bits are not all zero "
                      "passes through every value with the top bit set and a non-empty low part, each once",
                      "steps (i--, soln_bits--, model_size--) and the absence of other assignments to soln_bits are read from the source text"]
    return r


# ------------------------------------------------------------------------------------------------ next_set_phases
NQ = "Phreeqc::next_set_phases"


def arr_writes(s, name):
    """[(index, value)] stores into the int array member `name` of this"""
    out = []
    for ix, v in writes(s, ("m", "I")):
        if isinstance(ix, tuple) and len(ix) == 2 and ix[0] is tm.app("fld:" + name, (THIS,), "P"):
            out.append((ix[1], v))
    return out


def unit_next_set_phases(twin=False):
    """Combinations of model_size phases out of n = phases.size(), as increasing position lists now[0] < now[1] < ... in lexicographic order:
       first call of a size : now[i] = i (the smallest combination), max_position[i] = n - model_size + i (the largest value position i can take);
       later calls          : the right-most position i with now[i] < max_position[i] is advanced by one and every position to its right is reset
                              to the smallest values above it (now[j] = now[i] + (j - i)); positions to the left are kept; when no position can be
                              advanced (the largest combination) the answer is FALSE and phase_bits is left alone;
       phase_bits           : sum of 1 << now[j] over the model_size positions - bit p is phase p.
    The lexicographic successor visits every combination of the size exactly once (textbook argument, not re-proved here)."""
    fn, ex, fin, info = U.run_function(INV, NQ, modes={k: "iter" for k in range(8)}, ctx=mkctx())
    r = U.new_unit("C18.next_set_phases.lexicographic_successor_every_combination_of_the_size_once", INV, NQ, fn)
    L = all_loops(fn)
    if len(L) != 4:
        raise Undecided("next_set_phases has %d loops, contract written for 4" % len(L))
    first = tm.sym("P1_first_of_model_size", "I"); size = tm.sym("P2_model_size", "I"); inv = tm.sym("P0_inv_ptr", "P")
    i, j = tm.sym("iter_i", "I"), tm.sym("iter_j", "I")
    TRUEV = I1
    # classify the loops by what they write
    def its(k):
        return live(info["iter"].get(k, []), ("run", "cont", "brk"))
    k_init = [k for k in range(4) if any(arr_writes(s, "max_position") for s in its(k))]
    k_bits = [k for k in range(4) if any(not isinstance(s.locals.get(info["names"]["temp_bits_l"]), tuple) and "iter_temp_bits_l" in repr(s.locals.get(info["names"]["temp_bits_l"])) and s.locals.get(info["names"]["temp_bits_l"]) is not tm.sym("iter_temp_bits_l", "I") for s in its(k))]
    k_reset = [k for k in range(4) if k not in k_init and any(arr_writes(s, "now") and [t for t in tm.subterms(arr_writes(s, "now")[0][1]) if t.op == "sym" and str(t.args[0]).startswith("iter_") and str(t.args[0]) not in ("iter_i", "iter_j")] for s in its(k))]
    k_adv = [k for k in range(4) if k not in k_init + k_bits + k_reset]
    if not (len(k_init) == len(k_bits) == len(k_reset) == len(k_adv) == 1):
        raise Undecided("loops of next_set_phases not recognised: init %r advance %r reset %r bits %r" % (k_init, k_adv, k_reset, k_bits))
    k_init, k_bits, k_reset, k_adv = k_init[0], k_bits[0], k_reset[0], k_adv[0]

    def rng(tag, k, var, start, cond_of, step):
        ents = info["entry"].get(k, [])
        sts = its(k)
        ok_any = False
        for e in ents:
            cands = [s for s in sts if len(s.pc) > len(e.pc) and all(a is b for a, b in zip(e.pc, s.pc[:len(e.pc)]))]
            if not cands:
                continue
            ok_any = True
            cond = cands[0].pc[len(e.pc)]
            v = tm.sym("iter_" + var, "I")
            want = cond_of(v)
            r.add("%s.runs_while_%s" % (tag, repr(want).replace(" ", "")[:50]), DISCHARGED if proves(list(e.pc) + [want], cond) and proves(list(e.pc) + [cond], want) else FAILED, "z3", 0, repr(cond)[:200])
            v0 = start_value(ex, info, L[k], e, var)
            st = start(e)
            r.add("%s.starts_at_%s" % (tag, repr(st).replace(" ", "")[:50]), DISCHARGED if v0 is not None and (v0 is st or proves(list(e.pc), tm.eq(v0, st))) else FAILED, "z3", 0, repr(v0)[:200])
        if not ok_any:
            r.add("%s.range" % tag, UNDECIDED, "symex", 0, "loop not reached")
        inc = text_of(INV, L[k]["inner"][3])
        r.add("%s.steps_by_%s" % (tag, step[0]), DISCHARGED if inc in step else FAILED, "syntactic", 0, inc, kind="structural")

    def counter_name():
        """the local that carries the running value of the reset loop (named k in the source): the one iteration symbol, besides the index, in the value stored into now[j]"""
        for s_ in its(k_reset):
            for ix, v in arr_writes(s_, "now"):
                nm = sorted(set(str(t.args[0])[5:] for t in tm.subterms(v) if t.op == "sym" and str(t.args[0]).startswith("iter_")) - {"j", "i"})
                if len(nm) == 1 and nm[0] in info["names"]:
                    return nm[0]
        return None

    # first combination
    n = 0
    np_ = None
    for s in its(k_init):
        n += 1
        hy = list(s.pc)
        np_ = vsize(ex, s, "phases", inv)
        for nm, want in (("now", i), ("min_position", i), ("max_position", (np_ - size + i) if not twin else (np_ - size))):
            w = arr_writes(s, nm)
            ok = len(w) == 1 and same(hy, w[0][0], i) and same(hy, w[0][1], want)
            r.add("first.%s[i]==%s" % (nm, {"now": "i", "min_position": "i", "max_position": "n-model_size+i"}[nm]), DISCHARGED if ok else FAILED, "symex", 0, repr(w)[:200])
        U.discharge_valid(r, "first.only_on_the_first_call_of_a_size", hy, tm.eq(first, TRUEV))
    r.add("reach.first", DISCHARGED if n else UNDECIDED, "symex", 0, "%d" % n, kind="vacuity")
    rng("first", k_init, "i", lambda e: I0, lambda v: tm.lt(v, size), ("i++", "++i"))
    # advance
    seen = set()
    NOW = tm.app("fld:now", (THIS,), "P"); MAXP = tm.app("fld:max_position", (THIS,), "P")
    for s in its(k_adv):
        hy = list(s.pc)
        from props.common import _sym0
        M0 = None
        for cand in (_sym0("Hiter", ("m", "I")), entry_arr(ex, s, ("m", "I")), _sym0("H0", ("m", "I"))):
            c_ = tm.lt(tm.select(cand, NOW, i), tm.select(cand, MAXP, i))
            if proves(hy, c_) or proves(hy, tm.not_(c_)):
                M0 = cand
                break
        if M0 is None:
            M0 = entry_arr(ex, s, ("m", "I"))       # the path does not decide the test: both cases are demanded below
        now_i, max_i = tm.select(M0, NOW, i), tm.select(M0, MAXP, i)
        U.discharge_valid(r, "advance.only_on_later_calls", hy, tm.not_(tm.eq(first, TRUEV)))
        for h, can in cases(hy, tm.lt(now_i, max_i)):
            if not can:
                seen.add("stuck")
                r.add("advance.position_at_its_maximum_is_left_alone_and_the_search_moves_left", DISCHARGED if s.status in ("run", "cont") and not arr_writes(s, "now") and not arr_writes(s, "max_position") else FAILED, "symex", 0, s.status + repr(arr_writes(s, "now"))[:100])
            else:
                seen.add("advanced")
                r.add("advance.stops_at_the_right-most_position_that_can_move", DISCHARGED if s.status == "brk" else FAILED, "symex", 0, s.status)
    # the state in which the reset loop is reached = right after the advance of position i
    for e in info["entry"].get(k_reset, []):
        if B.z3_sat(list(e.pc)) == "unsat":
            continue
        hy = list(e.pc)
        w = arr_writes(e, "now")
        iv = e.locals[info["names"]["i"]]
        M0 = entry_arr(ex, e, ("m", "I"))
        ok = len(w) == 1 and same(hy, w[0][0], iv) and same(hy, w[0][1], tm.select(M0, NOW, iv) + I1)
        r.add("advance.now[i]+=1", DISCHARGED if ok else FAILED, "symex", 0, repr(w)[:200])
        kname = counter_name()
        if kname is None:
            r.add("reset.counter_found", UNDECIDED, "symex", 0, "running value of the reset loop not recognised"); continue
        kv = e.locals[info["names"][kname]]
        r.add("reset.base:k==now[i]_after_the_advance", DISCHARGED if w and same(hy, kv, w[0][1]) else FAILED, "symex", 0, repr(kv)[:100], kind="establishment")
        seen.add("reset_reached")
    last = [s for s in its(k_adv) if s.status == "brk" and arr_writes(s, "now")]
    for s in last:
        hy = list(s.pc)
        w = arr_writes(s, "now")
        M0 = entry_arr(ex, s, ("m", "I"))
        ok = len(w) == 1 and same(hy, w[0][0], i) and same(hy, w[0][1], tm.select(M0, NOW, i) + I1)
        r.add("advance.last_position:now[i]+=1_and_nothing_to_reset", DISCHARGED if ok and proves(hy, tm.le(size - I1, i)) else FAILED, "symex", 0, repr(w)[:200])
        seen.add("advanced_last")
    r.add("reach.advance", DISCHARGED if {"stuck", "advanced", "reset_reached", "advanced_last"} <= seen else UNDECIDED, "symex", 0, repr(sorted(seen)), kind="vacuity")
    rng("advance", k_adv, "i", lambda e: size - I1, lambda v: tm.le(I0, v), ("i--", "--i"))
    # reset of the positions to the right
    n = 0
    kname = counter_name()
    kk = tm.sym("iter_%s" % kname, "I")
    for s in its(k_reset):
        n += 1
        hy = list(s.pc)
        w = arr_writes(s, "now")
        ok = kname is not None and len(w) == 1 and same(hy, w[0][0], j) and same(hy, w[0][1], kk + I1)
        r.add("reset.step:now[j]==k+1", DISCHARGED if ok else FAILED, "symex", 0, repr(w)[:200])
        if kname is not None:
            U.discharge_eq_real(r, "reset.step:k+=1", hy, local(info, s, kname), kk + I1)
    r.add("reach.reset", DISCHARGED if n else UNDECIDED, "symex", 0, "%d" % n, kind="vacuity")
    rng("reset", k_reset, "j", lambda e: e.locals[info["names"]["i"]] + I1, lambda v: tm.lt(v, size), ("j++", "++j"))
    # bits
    n = 0
    for s in its(k_bits):
        n += 1
        hy = list(s.pc)
        t0, t1 = tm.sym("iter_temp_bits_l", "I"), local(info, s, "temp_bits_l")
        now_j = tm.select(ex.heap_arr(s, ("m", "I")), NOW, j)
        want = t0 + tm.app("shl", (I1, now_j), "I")
        alt = tm.app("bitor", (t0, tm.app("shl", (I1, now_j), "I")), "I")
        r.add("bits.bit_now[j]_added", DISCHARGED if t1 is want or t1 is alt or same(hy, t1, want) else FAILED, "symex", 0, repr(t1)[:200])
    r.add("reach.bits", DISCHARGED if n else UNDECIDED, "symex", 0, "%d" % n, kind="vacuity")
    rng("bits", k_bits, "j", lambda e: I0, lambda v: tm.lt(v, size), ("j++", "++j"))
    for e in info["entry"].get(k_bits, []):
        v = e.locals[info["names"]["temp_bits_l"]]
        r.add("bits.accumulator_starts_at_0", DISCHARGED if v is I0 or (not isinstance(v, tuple) and proves(list(e.pc), tm.eq(v, I0))) else FAILED, "symex", 0, repr(v)[:100], kind="establishment")
    # results
    seen = set()
    for s in live(fin, ("ret",)):
        hy = list(s.pc)
        iv = s.locals.get(info["names"]["i"])
        ret = s.ret
        if ret is None:
            r.add("result.value", FAILED, "symex", 0, "no return value"); continue
        isT = proves(hy, tm.eq(ret, TRUEV)); isF = proves(hy, tm.eq(ret, I0))
        if isF:
            seen.add("exhausted")
            U.discharge_valid(r, "result.FALSE_only_when_no_position_could_be_advanced(i<0_after_the_search)", hy, tm.and_(tm.not_(tm.eq(first, TRUEV)), tm.lt(iv, I0)))
            r.add("result.FALSE_leaves_phase_bits_alone", DISCHARGED if not writes(s, ("f", "phase_bits", "I")) else FAILED, "symex", 0, "", kind="frame")
        elif isT:
            seen.add("delivered")
            U.discharge_valid(r, "result.TRUE_for_the_first_combination_or_after_an_advance", hy, tm.or_(tm.eq(first, TRUEV), tm.le(I0, iv)))
            pb = fld(ex, s, "phase_bits", "I")
            okp = pb.op == "sym" and str(pb.args[0]).startswith("havoc_temp_bits_l")
            r.add("result.phase_bits_is_the_accumulated_bit_sum", DISCHARGED if okp else FAILED, "symex", 0, repr(pb)[:100])
        else:
            r.add("result.is_TRUE_or_FALSE", FAILED, "symex", 0, repr(ret)[:100])
    r.add("reach.results", DISCHARGED if seen == {"exhausted", "delivered"} else UNDECIDED, "symex", 0, repr(sorted(seen)), kind="vacuity")
    r.assumptions += ["each loop is taken by iteration contract (one arbitrary iteration from an arbitrary state); the induction over the reset loop (now[j] = now[i] + (j - i)) "
                      "is base + step as stated; that the lexicographic successor enumerates every combination exactly once is the textbook argument, not machine-checked",
                      "the search loop's exit value i (< 0 iff no position satisfied now[i] < max_position[i]) is connected to the iterations by the loop range obligations",
                      "steps of the loops (i++, i--, j++) are read from the source text; 1 << k uninterpreted", "0 <= model_size <= phases.size() <= 32 (solve_inverse)"]
    return r


# ------------------------------------------------------------------------------------------------ post_mortem
def unit_post_mortem(twin=False):
    """The diagnosis printed when the very first candidate is infeasible names exactly the constraints the returned vector x = inv_delta1 violates:
       equality rows  row_mb .. row_epsilon-1 : sum_j x[j] * A[i][j]  differs from the right-hand side A[i][count_unknowns] by more than the tolerance;
       inequality rows row_epsilon .. count_rows-1 : the sum exceeds the right-hand side by more than the tolerance;
       sign constraints: unknown i with sign +1 below -tolerance, with sign -1 above +tolerance."""
    q = "Phreeqc::post_mortem"
    fn = A.find_function(INV, q)
    r = U.new_unit("C18.post_mortem.names_exactly_the_violated_equalities_inequalities_and_sign_constraints", INV, q, fn)
    L = all_loops(fn)
    tops = [lp for lp in A.body_of(fn)["inner"] if lp.get("kind") == "ForStmt"]
    if len(tops) != 3 or len(L) != 5:
        raise Undecided("post_mortem: %d top-level loops, %d loops" % (len(tops), len(L)))
    c = mkctx(functional=("equal",))
    i = tm.sym("iter_i", "I"); j = tm.sym("iter_j", "I")
    spec = [("equality", "row_mb", "row_epsilon"), ("inequality", "row_epsilon", "count_rows")]
    for (tag, lo, hi), lp in zip(spec, tops[:2]):
        inner = nested(lp)[0]
        f, ex, its, info = U.run_loop_isolated(INV, q, ordinal(fn, lp), ctx=c, inner_modes={ordinal(fn, inner): "iter"})
        R = lambda s: ex.heap_arr(s, ("m", "R"))
        Av = lambda s, ix: tm.select(R(s), vdata(ex, s, "my_array"), ix)
        X = lambda s, ix: tm.select(R(s), vdata(ex, s, "inv_delta1"), ix)
        maxc = lambda s: F(ex, s, "max_column_count")
        # range of the rows
        sts = live(its, ("run", "cont"))
        if not sts:
            r.add("%s.reached" % tag, UNDECIDED, "symex", 0, ""); continue
        cond = sts[0].pc[0]
        want = tm.lt(i, F(ex, sts[0], hi))
        v0 = start_value(ex, info, lp, info["entry_state"], "i")
        okr = proves([want], cond) and proves([cond], want) and v0 is not None and proves([], tm.eq(v0, F(ex, info["entry_state"], lo)))
        r.add("%s.rows_%s..%s-1" % (tag, lo, hi), DISCHARGED if okr else FAILED, "z3", 0, "cond %r start %r" % (cond, v0))
        # the sum
        ents = info["inner_entries"].get(ordinal(fn, inner), [])
        for s in live(info["inner_iters"].get(ordinal(fn, inner), []), ("run", "cont")):
            e = [x for x in ents if len(x.pc) < len(s.pc) and all(a is b for a, b in zip(x.pc, s.pc[:len(x.pc)]))]
            if not e:
                continue
            e = max(e, key=lambda x: len(x.pc))
            s0, s1 = tm.sym("iter_sum", "R"), local(info, s, "sum")
            term = X(s, j) * Av(s, i * maxc(s) + j)
            if twin and tag == "equality":
                term = X(s, j) * Av(s, j * maxc(s) + i)
            U.discharge_eq_real(r, "%s.sum+=x[j]*A[i][j]" % tag, list(s.pc), s1, s0 + term)
            cj = s.pc[len(e.pc)]
            wj = tm.lt(j, F(ex, s, "count_unknowns"))
            v0 = start_value(ex, info, inner, e, "j")
            r.add("%s.sum_over_every_unknown(0..count_unknowns-1)" % tag, DISCHARGED if proves(list(e.pc) + [wj], cj) and proves(list(e.pc) + [cj], wj) and v0 is not None and proves(list(e.pc), tm.eq(v0, I0)) else FAILED, "z3", 0, repr(cj)[:200])
            se = e.locals.get(info["names"]["sum"])
            r.add("%s.sum_starts_at_0" % tag, DISCHARGED if se is not None and not isinstance(se, tuple) and proves(list(e.pc), tm.eq(se, tm.num(0))) else FAILED, "symex", 0, repr(se), kind="establishment")
        seen = set()
        for s in sts:
            hy = list(s.pc)
            sm = local(info, s, "sum")
            rhs = Av(s, i * maxc(s) + F(ex, s, "count_unknowns"))
            tol = F(ex, s, "toler", "R")
            if tag == "equality":
                eqv = tm.app("call:equal", (THIS, sm, rhs, tol), "I")
                viol = tm.not_(tm.eq(eqv, I1))
                hy = hy + [tm.or_(tm.eq(eqv, I0), tm.eq(eqv, I1))]          # equal() answers TRUE or FALSE
            else:
                viol = tm.lt(rhs + tol, sm)
            msg = any(short(e_) == "output_msg" for e_ in U.iter_events(s))
            for h, v in cases(hy, viol):
                seen.add(v)
                r.add("%s.row_%s" % (tag, "reported_when_violated" if v else "not_reported_when_satisfied"), DISCHARGED if msg == v else FAILED, "symex", 0, repr(viol)[:200])
        r.add("reach.%s" % tag, DISCHARGED if seen == {True, False} else UNDECIDED, "symex", 0, repr(seen), kind="vacuity")
    # sign constraints
    lp = tops[2]
    f, ex, its, info = U.run_loop_isolated(INV, q, ordinal(fn, lp), ctx=c)
    seen = set()
    half = tm.num(Fraction(1, 2))
    for s in live(its, ("run", "cont")):
        hy = list(s.pc)
        R = ex.heap_arr(s, ("m", "R"))
        x = tm.select(R, vdata(ex, s, "inv_delta1"), i); sg = tm.select(R, vdata(ex, s, "delta_save"), i)
        tol = F(ex, s, "toler", "R")
        viol = tm.or_(tm.and_(tm.lt(half, sg), tm.lt(x, tm.neg(tol))), tm.and_(tm.lt(sg, tm.neg(half)), tm.lt(tol, x)))
        msg = any(short(e_) == "output_msg" for e_ in U.iter_events(s))
        for h, v in cases(hy, viol):
            seen.add(v)
            r.add("sign.unknown_%s" % ("reported_when_on_the_wrong_side" if v else "not_reported_otherwise"), DISCHARGED if msg == v else FAILED, "symex", 0, "")
    sts = live(its, ("run", "cont"))
    if sts:
        cond = sts[0].pc[0]
        want = tm.lt(i, F(ex, sts[0], "count_unknowns"))
        v0 = start_value(ex, info, lp, info["entry_state"], "i")
        r.add("sign.every_unknown(0..count_unknowns-1)", DISCHARGED if proves([want], cond) and proves([cond], want) and v0 is not None and proves([], tm.eq(v0, I0)) else FAILED, "z3", 0, repr(cond)[:200])
    r.add("reach.sign", DISCHARGED if seen == {True, False} else UNDECIDED, "symex", 0, repr(seen), kind="vacuity")
    r.assumptions += ["diagnostic output only: no reported model depends on it", "equal(a, b, eps) functional; doubles as reals", "delta_save holds the sign vector of setup_inverse (+1 / -1 / 0)"]
    return r


# ------------------------------------------------------------------------------------------------ headings of the selected-output table
def unit_headings(twin=False):
    """Heading side and cell side of the -inverse_modeling table agree column by column:
       headings  Sum_resid, Sum_Delta/U, MaxFracErr at positions 0, 1, 2 of a list emptied first  <->  cells error / SCALE_EPSILON, scaled_error,
       max_pct written under heading index 0, 1, 2;   per solution q: Soln_<user number of solution q> (then its _min, _max);   per phase column:
       the column's name (then its _min, _max); every heading of the list is written, in order."""
    HQ, PQ = "Phreeqc::punch_model_heading", "Phreeqc::punch_model"
    fh = A.find_function(INV, HQ)
    r = U.new_unit("C18.punch_model_heading.columns_named_in_the_order_punch_model_fills_them", INV, HQ, fh)
    LH = all_loops(fh)
    so = [lp for lp in LH if "SelectedOutput_map.end()" in head(INV, lp)[1]]
    if len(so) != 1 or len(nested(so[0])) != 3:
        raise Undecided("loops of punch_model_heading not recognised")
    c = mkctx(functional=("c_str",))
    f, ex, its, info = U.run_loop_isolated(INV, HQ, ordinal(fh, so[0]), ctx=c)
    want = ['"Sum_resid"', '"Sum_Delta/U"', '"MaxFracErr"']
    if twin:
        want = ['"Sum_resid"', '"MaxFracErr"', '"Sum_Delta/U"']
    n = 0
    for s in live(its, ("run", "cont")):
        evs = U.iter_events(s)
        pb = [e for e in evs if e.name == "vector.push_back"]
        if not pb:
            continue
        n += 1
        sf = [e for e in evs if short(e) == "sformatf"]
        got = [repr(e.args[-1]) for e in sf[:3]]
        idx = [e.args[0] for e in pb[:3]]
        r.add("headings.start_with_Sum_resid,Sum_Delta/U,MaxFracErr_at_positions_0,1,2(list_emptied_first)", DISCHARGED if got == want and [repr(x) for x in idx] == ["0", "1", "2"] and all(pb[k].args[-1].args[-1] is sf[k].result if pb[k].args[-1].op == "app" else False for k in range(3)) else FAILED, "trace", 0, repr((got, idx))[:200], kind="pairing")
    r.add("reach.headings", DISCHARGED if n else UNDECIDED, "symex", 0, "%d" % n, kind="vacuity")
    sol, pha, wr = nested(so[0])
    i = tm.sym("iter_i", "I")
    for tag, lp in (("solution", sol), ("phase", pha)):
        f, ex, its, info = U.run_loop_isolated(INV, HQ, ordinal(fh, lp), ctx=c)
        for s in live(its, ("run", "cont")):
            evs = U.iter_events(s)
            sf = [e for e in evs if short(e) == "sformatf"]
            pb = [e for e in evs if e.name == "vector.push_back"]
            if len(sf) != 3 or len(pb) != 3:
                r.add("%s.three_headings_per_item" % tag, FAILED, "trace", 0, "%d, %d" % (len(sf), len(pb))); continue
            if tag == "solution":
                sn = [e for e in evs if short(e) == "snprintf"]
                inv = local(info, s, "inv_ptr")
                num = tm.select(ex.heap_arr(s, ("m", "I")), tm.select(ex.heap_arr(s, ("f", "#vdata", "P")), tm.app("fld:solns", (inv,), "P")), i)
                okn = len(sn) == 1 and repr(sn[0].args[2]) == '"Soln_%d"' and sn[0].args[3] is num and sf[0].args[-1] is sn[0].args[0]
                r.add("solution.first_heading_is_Soln_<user_number_of_solution_q>", DISCHARGED if okn else FAILED, "trace", 0, repr(sn[0].args if sn else "")[:200], kind="pairing")
            else:
                nm = tm.select(ex.heap_arr(s, ("m", "P")), tm.select(ex.heap_arr(s, ("f", "#vdata", "P")), tm.app("fld:col_name", (THIS,), "P")), i)
                r.add("phase.first_heading_is_the_name_of_column_i", DISCHARGED if sf[0].args[-1] is nm else FAILED, "trace", 0, repr(sf[0].args[-1])[:200], kind="pairing")
            okd = all(e.args[-1].op == "app" and str(e.args[-1].args[0]) == "c_str" for e in sf[1:])
            r.add("%s.second_and_third_heading_are_derived_names(_min,_max)" % tag, DISCHARGED if okd else FAILED, "trace", 0, repr([e.args[-1] for e in sf[1:]])[:200])
            n0 = pb[0].args[0]
            oko = all(same(list(s.pc), pb[k].args[0], n0 + tm.num(k, "I")) and pb[k].args[-1].op == "app" and pb[k].args[-1].args[-1] is sf[k].result for k in range(3))
            r.add("%s.headings_appended_in_the_order_name,_min,_max" % tag, DISCHARGED if oko else FAILED, "trace", 0, repr([e.args[0] for e in pb])[:200])
    f, ex, its, info = U.run_loop_isolated(INV, HQ, ordinal(fh, wr), ctx=c)
    for s in live(its, ("run", "cont")):
        fp = [e for e in U.iter_events(s) if short(e) == "fpunchf_heading"]
        j = tm.sym("iter_j", "I")
        ok = len(fp) == 1 and "inverse_heading_names" in repr(fp[0].args[0]) and "iter_j" in repr(fp[0].args[0])
        r.add("write.heading_j_of_the_list_is_written", DISCHARGED if ok else FAILED, "trace", 0, repr([e.args for e in fp])[:200])
        cond = s.pc[0]
        wantc = tm.lt(j, vsize(ex, s, "inverse_heading_names"))
        v0 = start_value(ex, info, wr, info["entry_state"], "j")
        r.add("write.every_heading_in_order(0..size-1)", DISCHARGED if proves([wantc], cond) and proves([cond], wantc) and v0 is not None and proves([], tm.eq(v0, I0)) else FAILED, "z3", 0, repr(cond)[:200])
    # cell side: the three leading cells of punch_model
    fp_ = A.find_function(INV, PQ)
    LP = all_loops(fp_)
    sop = [lp for lp in LP if "SelectedOutput_map.end()" in head(INV, lp)[1]]
    if len(sop) != 1:
        raise Undecided("selected-output loop of punch_model not found")
    f, ex, its, info = U.run_loop_isolated(INV, PQ, ordinal(fp_, sop[0]), ctx=mkctx(functional=("Get_high_precision",)))
    n = 0
    SC = tm.num(Fraction(1, 1024))
    first_inner = min(ordinal(fp_, x) for x in nested(sop[0]))
    for e in info["inner_entries"].get(first_inner, []):
        if B.z3_sat(list(e.pc)) == "unsat":
            continue
        n += 1
        evs = e.events[max([k for k, x in enumerate(e.events) if x.name == "iter_begin"] or [-1]) + 1:]
        fpn = [x for x in evs if short(x) == "fpunchf"]
        tr = [x for x in evs if short(x) == "trim"]
        hy = list(e.pc)
        vals = [F(ex, e, "error", "R") / SC, F(ex, e, "scaled_error", "R"), F(ex, e, "max_pct", "R")]
        ok = len(fpn) == 3 and len(tr) == 3
        if ok:
            for k in range(3):
                U.discharge_eq_real(r, "cells.cell_%d==%s" % (k, ("error/SCALE_EPSILON", "scaled_error", "max_pct")[k]), hy, fpn[k].args[-1], vals[k])
            H = tm.select(ex.heap_arr(e, ("f", "#vdata", "P")), tm.app("fld:inverse_heading_names", (THIS,), "P"))
            oki = all(t.args[0].op == "select" and same(hy, t.args[0].args[1][1] if isinstance(t.args[0].args[1], tuple) else t.args[0].args[1], tm.num(k, "I")) for k, t in enumerate(tr))
            r.add("cells.filed_under_heading_0,1,2(index_reset_to_0_first)", DISCHARGED if oki else FAILED, "trace", 0, repr([t.args[0] for t in tr])[:300], kind="pairing")
            U.discharge_valid(r, "cells.heading_index_is_3_when_the_solutions_start", hy, tm.eq(F(ex, e, "n_user_punch_index"), tm.num(3, "I")))
        else:
            r.add("cells.three_leading_cells", FAILED, "trace", 0, "%d cells, %d headings" % (len(fpn), len(tr)))
    r.add("reach.cells", DISCHARGED if n >= 2 else UNDECIDED, "symex", 0, "%d" % n, kind="vacuity")
    r.assumptions += ["std::string is opaque: WHICH of the two derived names gets _min and which _max is not tracked (unit C18.punch_model... checks the order of the two append calls)",
                      "sformatf / fpunchf / trim opaque; SCALE_EPSILON == 1/1024", "the per-item ranges of headings and cells are compared by unit C18.punch_model.reports_value_min_max..."]
    return r


UNITS = [("C18.solve_inverse.candidate.solved_unless_excluded_reported_only_when_feasible_new_and_stored", unit_candidate),
         ("C18.solve_inverse.good_bits.bit_of_an_item_cleared_exactly_when_its_value_is_zero", unit_good_bits),
         ("C18.solve_inverse.stores.append_to_their_own_list_within_capacity", unit_stores),
         ("C18.solve_inverse.enumeration.final_solution_always_in_every_set_of_initial_solutions_and_every_size_tried", unit_enumeration),
         ("C18.next_set_phases.lexicographic_successor_every_combination_of_the_size_once", unit_next_set_phases),
         ("C18.post_mortem.names_exactly_the_violated_equalities_inequalities_and_sign_constraints", unit_post_mortem),
         ("C18.punch_model_heading.columns_named_in_the_order_punch_model_fills_them", unit_headings)]
