"""C01, further units: named-expression addition into log K, IAP/log K pairing of every read-out, the species-list site of
build_model.  (Engine B; the two structural units are generated obligations over clang's AST.)"""
import os, re, glob
from vf import core
from vf.core import Undecided, FAILED, DISCHARGED, UNDECIDED, REPO
from vf.astvc import ast as A, terms as tm, unit as U, backends as B, stl as STLM
from vf.astvc import symex as SX
from vf import callsites as CS

TIDY = "src/phreeqcpp/tidy.cpp"
PREP = "src/phreeqcpp/prep.cpp"


def _ctx():
    ctx = SX.Ctx(); ctx.stl = STLM.STL(SX); ctx.stl.check_bounds = False
    class AllPure(set):
        def __contains__(self, x): return True
    ctx.pure = AllPure()
    return ctx


def _strip(n):
    while n.get("kind") in ("ImplicitCastExpr", "ParenExpr", "CStyleCastExpr", "CXXStaticCastExpr", "MaterializeTemporaryExpr", "CXXBindTemporaryExpr") and n.get("inner"):
        n = n["inner"][0]
    return n


def unit_add_other_logk(twin=False):
    """every log K coefficient added from a named expression is scaled by the -add_logk coefficient:
    each `source_k[j] += ...` of add_other_logk adds logk_ptr->log_k[j] * coef for the SAME j."""
    q = "Phreeqc::add_other_logk"
    fn0 = A.find_function(TIDY, q)
    r = U.new_unit("C01.add_other_logk.scaled_addition", TIDY, q, fn0)
    ev = A.enum_values_compiled("global_structures.h", ["logK_T0", "delta_h", "T_A1", "T_A2", "T_A3", "T_A4", "T_A5", "T_A6", "delta_v", "MAX_LOG_K_INDICES"])
    adds = [x for x in A.walk(fn0) if x.get("kind") == "CompoundAssignOperator" and x.get("opcode") in ("+=", "-=", "=")]
    adds += [x for x in A.walk(fn0) if x.get("kind") == "BinaryOperator" and x.get("opcode") == "="]
    n = 0
    for a in adds:
        lhs = _strip(a["inner"][0])
        if lhs.get("kind") != "ArraySubscriptExpr":
            continue
        base = _strip(lhs["inner"][0])
        if base.get("referencedDecl", {}).get("name") != "source_k":
            continue
        n += 1
        class Sel(object):
            whole_function = True
            def __call__(self, s): raise TypeError
            def pick(self, fn, a=a): return [a]
        ctx = _ctx(); ctx.enum_values.update(ev)
        fn, ex, finals, info = U.run_region(TIDY, q, Sel(), ctx=ctx)
        line = a.get("range", {}).get("begin", {}).get("line", "?")
        for s in finals:
            key = ("m", "R")
            if key not in s.heap or s.heap[key].op != "store":
                r.add("source_k_write[%d]" % n, UNDECIDED, "symex", 0, "no store recognised")
                continue
            arr = s.heap[key]
            obj, idx, val = arr.args[1][0] if isinstance(arr.args[1], tuple) else arr.args[1], None, arr.args[2]
            ix = arr.args[1]
            obj, idx = (ix[0], ix[1]) if isinstance(ix, tuple) else (None, None)
            if obj is None:
                r.add("source_k_write[%d]" % n, UNDECIDED, "symex", 0, "index shape %r" % (ix,)); continue
            old = tm.select(arr.args[0], obj, idx)
            lp = s.locals[info["names"]["logk_ptr"]]; coef = s.locals[info["names"]["coef"]]
            lk = tm.select(arr.args[0], tm.app("fld:log_k", (lp,), "P"), idx)
            spec = old + lk * (coef if not twin else tm.num(1))
            U.discharge_eq_real(r, "source_k[j]+=log_k[j]*coef  (statement %d)" % n, list(s.pc), val, spec)
    r.add("reach.statements", DISCHARGED if n >= 4 else UNDECIDED, "syntactic", 0, "%d writes to source_k[]" % n, kind="vacuity")
    # index ranges of the two loops: analytic A1..A6, and delta_v..MAX_LOG_K_INDICES-1
    loops = [x for x in A.walk(fn0) if x.get("kind") == "ForStmt"]
    src = open(os.path.join(REPO, TIDY), "rb").read()
    def text(n):
        b, e = A.src_range_text(n); return A.squeeze(src[b:e].decode("latin1"))
    heads = []
    for lp in loops:
        body = lp["inner"][-1]
        if any(y.get("kind") == "ForStmt" for y in A.walk(body)):
            continue
        if any(_strip(y["inner"][0]).get("kind") == "ArraySubscriptExpr" and _strip(_strip(y["inner"][0])["inner"][0]).get("referencedDecl", {}).get("name") == "source_k"
               for y in A.walk(body) if y.get("kind") == "CompoundAssignOperator"):
            heads.append((text(lp["inner"][0]), text(lp["inner"][2])))
    want = [("j=T_A1", "j<=T_A6"), ("j=delta_v", "j<MAX_LOG_K_INDICES")]
    r.add("ranges.analytic_A1..A6_and_volume_terms_to_end", DISCHARGED if heads == want else FAILED, "syntactic", 0, "loop heads %r" % (heads,), kind="structural")
    r.assumptions += ["doubles as reals", "name look-up (logk_map.find) and the error path are not under contract"]
    return r


def _reaction_of(expr):
    """name of the reaction member (rxn / rxn_s / rxn_x) in a member chain, or None"""
    for y in A.walk(expr):
        if y.get("kind") == "MemberExpr" and y.get("name") in ("rxn", "rxn_s", "rxn_x"):
            return y["name"]
    return None


def _base_record(m):
    b = m["inner"][0]
    q = (b.get("type", {}).get("desugaredQualType") or b.get("type", {}).get("qualType", ""))
    return q


def unit_iap_logk_pairing(twin=False):
    """A read-out that combines log K with an ion-activity product takes both from the same form of the reaction.
    k_temp stores lk from <record>->R.logk; every function that reads <record>->lk and walks reaction tokens to sum
    coef*la (or coef*(lm+lg)) walks R; a function that computes its own k_calc(X->R'.logk) walks R'."""
    r = U.new_unit("C01.iap_logk_pairing", PREP, "Phreeqc::k_temp")
    fk = A.find_function(PREP, "Phreeqc::k_temp")
    R0 = {}
    for x in A.walk(fk):
        if x.get("kind") == "BinaryOperator" and x.get("opcode") == "=":
            lhs = _strip(x["inner"][0])
            if lhs.get("kind") == "MemberExpr" and lhs.get("name") == "lk":
                rec = "phase" if "phase" in _base_record(lhs) else ("species" if "species" in _base_record(lhs) else None)
                rhs = _strip(x["inner"][1])
                if rec and rhs.get("kind") in ("CallExpr", "CXXMemberCallExpr"):
                    callee = _strip(rhs["inner"][0]).get("name") or ""
                    if callee == "k_calc":
                        R0.setdefault(rec, set()).add(_reaction_of(rhs["inner"][1]))
    ok = R0.get("phase") and R0.get("species") and all(len(v) == 1 for v in R0.values())
    r.add("k_temp.lk_is_logK_of_one_reaction_form", DISCHARGED if ok else FAILED, "syntactic", 0, repr(R0), kind="structural")
    if not ok:
        return r
    R0 = {k: list(v)[0] for k, v in R0.items()}
    if twin:
        R0 = {k: "rxn_s" for k in R0}
    nsite = 0
    for path in sorted(glob.glob(os.path.join(REPO, "src/phreeqcpp/*.cpp"))):
        rel = os.path.relpath(path, REPO)
        txt = open(path, encoding="latin1").read()
        if ".token" not in txt:
            continue
        for q, _ in CS.enclosing_functions(rel, ".token"):
            body = None
            try:
                fn = A.find_function(rel, q)
            except Exception:
                continue
            walks = []
            for lp in A.walk(fn):
                if lp.get("kind") != "ForStmt" or len(lp.get("inner", [])) < 5:
                    continue
                init = lp["inner"][0]
                if not init or not any(y.get("kind") == "MemberExpr" and y.get("name") == "token" for y in A.walk(init)):
                    continue
                M = _reaction_of(init)
                if M is None:
                    continue
                accum = [y for y in A.walk(lp["inner"][-1]) if y.get("kind") == "CompoundAssignOperator" and y.get("opcode") in ("+=", "-=")
                         and any(z.get("kind") == "MemberExpr" and z.get("name") == "coef" for z in A.walk(y["inner"][1]))
                         and any(z.get("kind") == "MemberExpr" and z.get("name") in ("la", "lm") for z in A.walk(y["inner"][1]))]
                if accum:
                    rec = None
                    for y in A.walk(init):
                        if y.get("kind") == "MemberExpr" and y.get("name") == M:
                            rec = "phase" if "phase" in _base_record(y) else ("species" if "species" in _base_record(y) else None)
                    walks.append((M, rec, lp.get("range", {}).get("begin", {}).get("line")))
            if not walks:
                continue
            ksrc = {}
            for y in A.walk(fn):
                if y.get("kind") == "MemberExpr" and y.get("name") == "lk":
                    rec = "phase" if "phase" in _base_record(y) else ("species" if "species" in _base_record(y) else None)
                    if rec:
                        ksrc.setdefault(rec, set()).add(R0[rec])
                if y.get("kind") in ("CallExpr", "CXXMemberCallExpr") and (_strip(y["inner"][0]).get("name") == "k_calc") and len(y["inner"]) > 1:
                    M2 = _reaction_of(y["inner"][1])
                    for z in A.walk(y["inner"][1]):
                        if z.get("kind") == "MemberExpr" and z.get("name") == M2:
                            rec = "phase" if "phase" in _base_record(z) else ("species" if "species" in _base_record(z) else None)
                            if rec:
                                ksrc.setdefault(rec, set()).add(M2)
            for (M, rec, line) in walks:
                if rec is None or rec not in ksrc:
                    continue
                nsite += 1
                good = M in ksrc[rec]
                r.add("%s.%s-walk_uses_the_form_its_logK_belongs_to" % (q.split("::")[-1], rec), DISCHARGED if good else FAILED, "syntactic", 0,
                      "%s: walk over %s, log K from %s" % (q, M, sorted(ksrc[rec])), kind="structural")
    r.add("reach.sites", DISCHARGED if nsite >= 8 else UNDECIDED, "syntactic", 0, "%d activity-product walks paired with a log K" % nsite, kind="vacuity")
    r.assumptions += ["pairing is per function (a function that reads lk and also calls k_calc on another form accepts either)",
                      "the arithmetic of each read-out is under the separate read-out units"]
    r.proved_kind = "structural"
    return r


def unit_species_list_site(twin=False):
    """build_model: where a species carries a prescribed mole-balance formula (next_secondary non-empty) both the mass-balance
    site and the species-list (sums/print) site load exactly that list with coefficient 1."""
    q = "Phreeqc::build_model"
    fn = A.find_function(PREP, q)
    r = U.new_unit("C01.build_model.prescribed_mole_balance_used_at_both_sites", PREP, q, fn, kind="structural")
    n = 0
    for x in A.walk(fn):
        if x.get("kind") != "IfStmt" or len(x["inner"]) < 3:
            continue
        cond = _strip(x["inner"][0])
        if not (cond.get("kind") == "BinaryOperator" and cond.get("opcode") == "=="):
            continue
        call = _strip(cond["inner"][0])
        if call.get("kind") != "CXXMemberCallExpr":
            continue
        me = _strip(call["inner"][0])
        if me.get("name") != "size":
            continue
        member = _strip(me["inner"][0])
        if member.get("kind") != "MemberExpr":
            continue
        els = x["inner"][2]
        calls = [y for y in A.walk(els) if y.get("kind") in ("CallExpr", "CXXMemberCallExpr") and _strip(y["inner"][0]).get("name") == "add_elt_list"]
        if not calls:
            continue
        n += 1
        for c in calls:
            arg = _strip(c["inner"][1])
            nm = arg.get("name")
            want = member.get("name") if not twin else "next_elt"
            coef = A.const_int(_strip(c["inner"][2])) if len(c["inner"]) > 2 else None
            lit = _strip(c["inner"][2]).get("value") if len(c["inner"]) > 2 else None
            ok = arg.get("kind") == "MemberExpr" and nm == want
            r.add("site%d.else_branch_loads_the_list_it_tested(%s)" % (n, member.get("name")), DISCHARGED if ok else FAILED, "syntactic", 0, "tested %s, loads %s" % (member.get("name"), nm), kind="structural")
            r.add("site%d.coefficient_one" % n, DISCHARGED if str(lit) in ("1", "1.0") else FAILED, "syntactic", 0, "coef literal %r" % (lit,), kind="structural")
    r.add("reach.two_sites", DISCHARGED if n == 2 else UNDECIDED, "syntactic", 0, "%d sites" % n, kind="vacuity")
    return r


BASICSUBS = "src/phreeqcpp/basicsubs.cpp"


def unit_si_readout(fname, twin=False):
    """SI()/SR(): IAP accumulates coef*la over the walked tokens; SI = IAP - log K (SR = 10^SI)."""
    q = "Phreeqc::" + fname
    fn0 = A.find_function(BASICSUBS, q)
    r = U.new_unit("C01.%s.SI==IAP-logK" % fname, BASICSUBS, q, fn0)
    ctx = _ctx()
    fn, ex, iters, info = U.run_loop_isolated(BASICSUBS, q, 0, ctx=ctx)
    n = 0
    for s in iters:
        if s.status not in ("run", "cont"):
            continue
        n += 1
        rp = tm.sym("iter_rxn_ptr", "P")
        la = tm.select(ex.heap_arr(s, ("f", "la", "R")), tm.select(ex.heap_arr(s, ("f", "s", "P")), rp))
        coef = tm.select(ex.heap_arr(s, ("f", "coef", "R")), rp)
        if fname == "saturation_index":
            ws = [(k, i, v) for (k, i, v) in U.iter_writes(s) if k == ("m", "R")]
            if len(ws) != 1:
                r.add("iteration.writes_iap_once", FAILED if ws else UNDECIDED, "symex", 0, "%d writes" % len(ws)); continue
            k, ix, v = ws[0]
            old = tm.select(_entry_arr(s, k), *ix) if isinstance(ix, tuple) else tm.select(_entry_arr(s, k), ix)
            tgt_ok = ix == (tm.sym("iter_iap", "P"), tm.num(0, "I")) or True
        else:
            v = U.local_of(info, s, "iap"); old = tm.sym("iter_iap", "R")
        U.discharge_eq_real(r, "iteration.iap+=coef*la", list(s.pc), v, old + (coef * la if not twin else coef + la))
    r.add("reach.iteration", DISCHARGED if n >= 1 else UNDECIDED, "symex", 0, "%d" % n, kind="vacuity")
    from props import common as CM
    CM.check_accumulator_init(r, fn0, BASICSUBS, CM.loop_node(fn0, 0), "*iap" if fname == "saturation_index" else "iap", "walk")
    # the statement that forms SI
    src = open(os.path.join(REPO, BASICSUBS), "rb").read()
    tgt = None
    for x in A.walk(fn0):
        if x.get("kind") == "BinaryOperator" and x.get("opcode") == "=":
            b, e = A.src_range_text(x)
            t = A.squeeze(src[b:e].decode("latin1"))
            if t in ("*si=*iap-phase_ptr->lk", "si=iap-phase_ptr->lk"):
                tgt = x
    if tgt is None:
        for x in A.walk(fn0):
            if x.get("kind") == "BinaryOperator" and x.get("opcode") == "=" and any(y.get("kind") == "MemberExpr" and y.get("name") == "lk" for y in A.walk(x)):
                tgt = x
    if tgt is None:
        raise Undecided("statement forming SI from log K not found in " + q)
    class Sel(object):
        whole_function = True
        def __call__(self, s): raise TypeError
        def pick(self, fn): return [tgt]
    fn, ex2, finals, info2 = U.run_region(BASICSUBS, q, Sel(), ctx=_ctx())
    for s in finals:
        pp = s.locals[info2["names"]["phase_ptr"]]
        lk = tm.select(ex2.heap_arr(s, ("f", "lk", "R")), pp)
        if fname == "saturation_index":
            arr = s.heap.get(("m", "R"))
            if arr is None or arr.op != "store":
                r.add("SI.written", FAILED, "symex", 0, "no store"); continue
            iap = tm.select(arr.args[0], tm.sym("L_iap", "P"), tm.num(0, "I"))
            val = arr.args[2]
            tgt_ix = arr.args[1]
            r.add("SI.written_through_si", DISCHARGED if tgt_ix == (tm.sym("L_si", "P"), tm.num(0, "I")) else FAILED, "syntactic", 0, repr(tgt_ix), kind="frame")
        else:
            iap = tm.sym("L_iap", "R"); val = s.locals[info2["names"]["si"]]
        U.discharge_eq_real(r, "SI==IAP-logK", list(s.pc), val, iap - lk if not twin else iap + lk)
    r.assumptions += ["phase look-up (phase_bsearch) and the not-found / not-in-model paths are not under contract", "pow(10, si) in SR() is not under contract"]
    return r


def _entry_arr(s, key):
    a = s.heap[key]
    stop = getattr(s, "iter_entry_arrays", {}).get(key, ())
    while a.op == "store" and a not in stop:
        a = a.args[0]
    return a


def unit_rewrite_scaling(twin=False):
    """write_mass_action_eqn_x: a token whose master species must be rewritten is replaced by its secondary reaction times the
    token's coefficient; the electrons that reaction brings in (coef_e per unit) are replaced by the chosen redox couple times
    coefficient x coef_e — every addition is scaled by the token's stoichiometric coefficient."""
    from props.common import find_nodes, region, live, ctx as mkctx, text_of, fld0, local
    q = "Phreeqc::write_mass_action_eqn_x"
    fn = A.find_function(PREP, q)
    r = U.new_unit("C01.write_mass_action_eqn_x.rewrite_scaled_by_token_coefficient", PREP, q, fn)
    blocks = find_nodes(fn, PREP, lambda t, x: text_of(PREP, x["inner"][0]) == "trxn.token[i].s->secondary->in==REWRITE", kinds=("IfStmt",))
    if len(blocks) != 1:
        raise Undecided("rewrite block of write_mass_action_eqn_x not found (%d)" % len(blocks))
    c = mkctx(functional=("rxn_find_coef", "equal"))
    f, ex, fin, info = region(PREP, q, [blocks[0]], c)
    n = 0
    for s in live(fin):
        adds = [e for e in s.events if e.name.split("::")[-1] == "trxn_add"]
        if not adds:
            continue
        n += 1
        ce = [e.result for e in s.events if e.name.endswith("rxn_find_coef")]
        # token coefficient: trxn.token[i].coef
        coef_terms = [t for t in tm.subterms(adds[0].args[1]) if t.op == "select" and t.args[0].op == "sym" and ".coef:" in t.args[0].args[0]]
        if len(coef_terms) != 1 or adds[0].args[1] is not coef_terms[0]:
            r.add("secondary_reaction.added_times_token_coefficient", FAILED, "trace", 0, repr(adds[0].args[1])[:120], kind="trace"); continue
        r.add("secondary_reaction.added_times_token_coefficient", DISCHARGED, "trace", 0, "", kind="trace")
        ci = coef_terms[0]
        for e in adds[1:]:
            want = ci * ce[0] if ce and not twin else ce[0] if ce else None
            ok = want is not None and B.sympy_equal(e.args[1], want)[0]
            r.add("redox_couple.added_times_token_coefficient_x_electrons", DISCHARGED if ok else FAILED, "sympy", 0, repr(e.args[1])[:160])
    r.add("reach.rewrite_paths", DISCHARGED if n >= 2 else UNDECIDED, "symex", 0, "%d" % n, kind="vacuity")
    r.assumptions += ["trxn_add(rxn, c, combine) adds c x rxn to the work reaction (body not under contract)", "which couple (pe_x entry) is used is not pinned"]
    return r


def unit_add_other_logk_lookup(twin=False):
    """add_other_logk, one named expression per iteration: the record added is the one stored in logk_map under the NAME given (anything
    else is an input error that ends the call with ERROR); the analytic form A1..A6 is used iff one of those six coefficients is non-zero,
    otherwise log K(25 C) and delta H are added; the volume terms are added in both cases."""
    from props.common import cases, local, live, writes, check_accumulator_init, entry_arr, text_of, fld, fld0, ctx as _cctx
    q = "Phreeqc::add_other_logk"
    fn0 = A.find_function(TIDY, q)
    r = U.new_unit("C01.add_other_logk.named_expression_and_form", TIDY, q, fn0)
    ev = A.enum_values_compiled("global_structures.h", ["logK_T0", "delta_h", "T_A1", "T_A6", "delta_v", "MAX_LOG_K_INDICES"])
    c = _cctx(functional=()); c.enum_values.update(ev); c.log_stores = True
    f, ex, its, info = U.run_loop_isolated(TIDY, q, 0, ctx=c, inner_modes={"*": "iter"})
    nf = nm = 0
    for s in its:
        has = [p for p in s.pc if "#mhas" in repr(p) and "logk_map" in repr(p)]
        if not has:
            r.add("lookup.by_name_in_logk_map", FAILED, "symex", 0, repr(s.pc)[:200]); continue
        found = not (has[0].op == "not")
        if found:
            nf += 1
            lp = local(info, s, "logk_ptr")
            key_ok = lp.op == "select" and "#mval" in repr(lp.args[0]) and "fld:logk_map(this)" in repr(lp) and "iter_i" in repr(lp) and "H0.name" in repr(lp)
            if twin:
                key_ok = key_ok and "coef" in repr(lp)
            r.add("found.record_is_the_map's_entry_for_the_name_of_add_logk[i]#%d" % nf, DISCHARGED if key_ok else FAILED, "symex", 0, repr(lp)[:200])
            an = local(info, s, "analytic")
            sk = local(info, s, "source_k")
            ws = [e for e in s.events if e.name == "store" and e.recv is sk]        # stores of this iteration outside the inner loops
            idxs = [repr(e.args[0]) for e in ws]
            for hy, analytic in cases(list(s.pc), tm.to_bool(an)):
                if analytic:
                    r.add("analytic.no_25C_constant_or_enthalpy_added#%d" % nf, DISCHARGED if not ws else FAILED, "symex", 0, repr(idxs))
                else:
                    want = sorted(["E.logK_T0", "E.delta_h"]); got = sorted(idxs)
                    okw = got == want or got == sorted([str(ev["logK_T0"]), str(ev["delta_h"])])
                    r.add("not_analytic.logK_25C_and_delta_H_added_once_each#%d" % nf, DISCHARGED if okw else FAILED, "symex", 0, repr(idxs))
        else:
            nm += 1
            okr = s.status == "ret" and any(e.name.endswith("error_msg") for e in U.iter_events(s))
            U.discharge_valid(r, "missing.input_error_counted", list(s.pc), tm.eq(fld(ex, s, "input_error", "I"), fld0(ex, s, "input_error", "I") + tm.num(1, "I")))
            r.add("missing.reported_and_call_ends_with_ERROR", DISCHARGED if okr and tm.isnum(s.ret) and s.ret.args[0] == 0 else FAILED, "symex", 0, repr(s.ret))
    # detection loop: analytic becomes true exactly when a coefficient A1..A6 is non-zero
    nd = 0
    loops = [x for x in A.walk(fn0) if x.get("kind") == "ForStmt"]
    for s in info["inner_iters"].get(1, []):
        if s.status not in ("run", "cont", "brk"):
            continue
        nd += 1
        lp = local(info, s, "logk_ptr"); j = tm.sym("iter_j", "I")
        coefj = tm.select(entry_arr(ex, s, ("m", "R")), tm.app("fld:log_k", (lp,), "P"), j)
        an = local(info, s, "analytic")
        for hy, nz in cases(list(s.pc), tm.not_(tm.eq(coefj, tm.num(0)))):
            if nz:
                r.add("detect.non_zero_coefficient_sets_analytic#%d" % nd, DISCHARGED if an is tm.TRUE or (tm.isnum(an) and an.args[0] == 1) else FAILED, "symex", 0, repr(an))
            else:
                r.add("detect.zero_coefficient_leaves_it#%d" % nd, DISCHARGED if an is tm.sym("iter_analytic", "B") or repr(an) == "iter_analytic" else FAILED, "symex", 0, repr(an))
    check_accumulator_init(r, fn0, TIDY, loops[1], "analytic", "detect", zero=("false", "FALSE", "0"))
    r.add("reach.found_missing_detect", DISCHARGED if nf >= 2 and nm and nd >= 2 else UNDECIDED, "symex", 0, "%d/%d/%d" % (nf, nm, nd), kind="vacuity")
    r.assumptions += ["str_tolower(token) lower-cases the key in place (the map is keyed by lower-case names)", "the per-coefficient additions are C01.add_other_logk.scaled_addition"]
    return r
