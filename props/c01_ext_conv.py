"""C01 ext: check_residuals — the calculation is accepted as converged only when every row's residual is below the tolerance of its
unknown type; a row above its tolerance is REPORTED (error_msg: the run does not complete without error), a mole-balance / alkalinity
row additionally makes check_residuals return ERROR (model() then stops)."""
from props.c01_ext_util import *
from vf.astvc import hdr

MODEL = "src/phreeqcpp/model.cpp"
GS = "src/phreeqcpp/global_structures.h"
Q = "Phreeqc::check_residuals"
FUNCS = ("Get_add_formula", "Get_initial_moles", "size", "fabs", "sqrt", "Find_charge", "Get_grams", "Get_surface_ptr")


def _fabs(x):
    return tm.app("call:fabs", (NULLP, x), "R")


def _sqrt(x):
    return tm.app("call:sqrt", (NULLP, x), "R")


def T(name):
    return int(hdr.define_value(GS, name))


def run_rows():
    c = ctx(functional=FUNCS)
    f, ex, fin, info = U.run_function(MODEL, Q, modes={0: "iter"}, ctx=c)
    its = info["iter"].get(0, [])
    if not its:
        raise Undecided("the loop over the unknowns of check_residuals was not reached")
    return f, ex, fin, info, lives(its, ("run", "cont"))


def row_terms(ex, s):
    i = None
    for v in s.locals.values():
        if v is not None and not isinstance(v, tuple) and v.op == "sym" and str(v.args[0]).startswith("iter_") and v.sort == "I" and v is not tm.sym("iter_return_value", "I"):
            i = v
    if i is None:
        raise Undecided("induction variable of the unknowns loop not recognised")
    xi = vec_elem(ex, s, "x", i)
    res = tm.select(entry_arr(ex, s, ("m", "R")), tm.select(entry_arr(ex, s, ("f", "#vdata", "P")), tm.app("fld:residual", (THIS,), "P")), i)
    return i, xi, res


def reported(s):
    return [e for e in U.iter_events(s) if e.name.split("::")[-1] in ("error_msg", "warning_msg", "log_msg")]


def spec_table(ex, s, xi, res, twin=False):
    """type -> f(gt) -> condition 'this row has not converged'; gt(a, b) is a > b (strict reading) or a >= b (weak reading)"""
    F = lambda n, so="R", o=None: fld0(ex, s, n, so, xi if o is None else o)
    G = lambda n, so="R": fld0(ex, s, n, so)
    eps = G("convergence_tolerance")
    mol = F("moles")
    a = _fabs(res)
    mt = G("MIN_TOTAL"); mrs = G("MIN_RELATED_SURFACE")
    no = lambda n: tm.eq(G(n, "I"), I(0))
    yes = lambda n: tm.eq(G(n, "I"), I(1))
    exch = lambda gt: tm.or_(tm.and_(gt(mrs, mol), gt(a, eps)), tm.and_(gt(mol, mrs), gt(a, eps * mol)))
    tab = {
        "MB": lambda gt: tm.and_(gt(a, eps * mol if not twin else eps), gt(a, _sqrt(_fabs(mol) * mt)), gt(mol, mt)),
        "SOLUTION_PHASE_BOUNDARY": lambda gt: gt(a, eps),
        "CB": lambda gt: gt(a, eps * G("mu_x") * G("mass_water_aq_x")),
        "MU": lambda gt: gt(a, eps * G("mu_x") * G("mass_water_aq_x")),
        "AH2O": lambda gt: tm.and_(no("pitzer_model"), no("sit_model"), gt(a, eps)),
        "MH": lambda gt: tm.and_(tm.or_(no("pitzer_model"), yes("pitzer_pe")), gt(a, eps * (mol + tm.num(2) * fld0(ex, s, "moles", "R", G("mass_oxygen_unknown", "P"))))),
        "MH2O": lambda gt: tm.and_(tm.not_(yes("mass_water_switch")), gt(a, tm.Q("0.01") * eps * mol)),
        "EXCH": exch,
        "GAS_MOLES": lambda gt: tm.and_(tm.not_(no("gas_in")), tm.or_(gt(res, eps), gt(tm.neg(res), eps))),
        "SS_MOLES": lambda gt: tm.and_(tm.not_(tm.eq(F("ss_in", "I"), I(0))), tm.or_(gt(res, eps), gt(tm.neg(res), eps))),
    }
    tab["ALK"] = tab["MB"]
    return tab


def unit_check_residuals(twin=False):
    fn = A.find_function(MODEL, Q)
    r = U.new_unit("C01.check_residuals.row_above_its_tolerance_is_reported", MODEL, Q, fn)
    f, ex, fin, info, its = run_rows()
    strict = lambda a, b: tm.lt(b, a)
    weak = lambda a, b: tm.le(b, a)
    seen = {}
    codes = None
    for s in its:
        hy = list(s.pc)
        i, xi, res = row_terms(ex, s)
        tab = spec_table(ex, s, xi, res, twin)
        if codes is None:
            codes = {k: T(k) for k in tab}
        ty = fld0(ex, s, "type", "I", xi)
        rep = reported(s)
        rv = local(info, s, "return_value")
        untouched = rv is tm.sym("iter_return_value", "I") or any(rv is e.locals.get(info["names"]["return_value"]) for e in info["entry"].get(0, []))
        fabs_ax = [tm.le(tm.num(0), _fabs(res))]
        for row in sorted(tab):
            # spec-side case split: the path may belong to an unknown of this type
            hyc = hy + [tm.eq(ty, I(codes[row]))]
            if not sat(hyc):
                continue
            if rep:
                seen[row] = seen.get(row, 0) | 1
                valid(r, "%s.reported_only_when_residual_reaches_the_tolerance" % row, hyc + fabs_ax, tab[row](weak))
                if row in ("MB", "ALK"):
                    put(r, "%s.reported=>returns_ERROR" % row, tm.isnum(rv) and rv.args[0] == 0, repr(rv))
                put(r, "%s.reported_as_an_error" % row, any(e.name.endswith("error_msg") for e in rep), repr([e.name for e in rep]), kind="trace")
            else:
                seen[row] = seen.get(row, 0) | 2
                valid(r, "%s.silent_only_when_residual_not_above_the_tolerance" % row, hyc + fabs_ax, tm.not_(tab[row](strict)))
                put(r, "%s.silent=>result_untouched" % row, untouched, repr(rv), kind="frame")
            wr = [k for k in s.heap if writes(s, k) and k != ("f", "error_string", "P")]
            if wr:
                put(r, "%s.row_test_writes_no_model_quantity" % row, False, repr(wr), kind="frame")
    want = sorted(spec_table(ex, its[0], tm.sym("x", "P"), tm.sym("r", "R")).keys()) if its else []
    put(r, "reach.every_row_type_both_ways", all(seen.get(k) == 3 for k in want), repr(seen), kind="vacuity", undecided=True)
    # establishment: epsilon is the user's convergence tolerance; result starts as OK; the loop covers all unknowns
    for s in info["entry"].get(0, [])[:1]:
        rv = s.locals.get(info["names"]["return_value"])
        put(r, "entry.result_starts_as_OK", rv is not None and tm.isnum(rv) and rv.args[0] == 1, repr(rv), kind="establishment")
    for s in its[:1]:
        i, xi, res = row_terms(ex, s)
        bound = [p for p in s.pc if i in tm.subterms(p) and "type" not in repr(p)]
        valid(r, "loop.covers_every_unknown", [], tm.eq(tm.to_bool(bound[0]) if bound else tm.FALSE, tm.lt(i, fld0(ex, s, "count_unknowns", "I"))), kind="establishment")
    for s in lives(fin, ("ret",)):
        put(r, "exit.returns_the_accumulated_result", s.ret is local(info, s, "return_value"), repr(s.ret))
    r.assumptions += ["fabs/sqrt uninterpreted with fabs(x) >= 0; doubles as reals", "a strict and a weak reading of every comparison are both accepted (reported => residual >= tolerance; residual > tolerance => reported)",
                      "PP rows: unit C03.check_residuals.PP; SURFACE rows: C03.check_residuals.SURFACE; SURFACE_CB*, PITZER_GAMMA rows are not under contract",
                      "error_msg(.., CONTINUE) counts an error (the run is then not 'completed without error'); only MB/ALK rows stop model() through the return value",
                      "the tolerances themselves (eps = convergence_tolerance scaled per row type) are the program's definition of 'converged' and are restated in the contract"]
    return r


UNITS = [("C01.check_residuals.row_above_its_tolerance_is_reported", unit_check_residuals)]
