"""C02 — closed-system conservation of elements and charge (partial).
Accumulation contracts: Phreeqc::add_solution adds exactly factor x inventory (extensive for amounts, intensive for state
variables), the mixing loop of add_mix calls it once per present component with the mix fraction, cxxNameDouble::add_extensive /
multiply are pointwise, cxxSystem::totalize adds every present part.  Conservation across a solved step is NOT decided."""
import time, re
from vf import core
from vf.core import Undecided, FAILED, DISCHARGED, UNDECIDED
from vf.astvc import ast as A, terms as tm, unit as U, backends as B, stl as STLM
from vf.astvc import symex as SX

PID = "C02"
STEP = "src/phreeqcpp/step.cpp"
THIS = tm.sym("this", "P")
# state variable of the reacting system <- getter of the solution, and whether it is an amount (extensive) or a state variable (intensive)
ACC = {"total_h_x": ("Get_total_h", "ext"), "total_o_x": ("Get_total_o", "ext"), "cb_x": ("Get_cb", "ext"), "mass_water_aq_x": ("Get_mass_water", "ext"),
       "tc_x": ("Get_tc", "int"), "ph_x": ("Get_ph", "int"), "patm_x": ("Get_patm", "int"), "solution_pe_x": ("Get_pe", "int"), "mu_x": ("Get_mu", "int"),
       "ah2o_x": ("Get_ah2o", "int"), "viscos": ("Get_viscosity", "int"), "viscos_0": ("Get_viscos_0", "int"), "density_x": ("Get_density", "int")}


def mkctx():
    ctx = SX.Ctx(); ctx.stl = STLM.STL(SX)
    ctx.stl.map_like.add("cxxNameDouble")
    ctx.enum_values.update(A.enum_values_compiled("Phreeqc.h", ["TRUE", "FALSE", "OK", "CONTINUE", "STOP"]))
    ctx.functional.update({g for g, _ in ACC.values()} | {"Get_totals", "Get_master_activity", "Get_species_gamma", "master_bsearch_primary", "master_bsearch", "s_search", "c_str", "Get_mixComps", "Rxn_find"})
    ctx.pure.update({"error_msg", "sformatf", "begin", "end"})
    return ctx


def unit_add_solution_scalars(twin=False):
    fn = A.find_function(STEP, "Phreeqc::add_solution")
    r = U.new_unit("C02.add_solution.accumulators", STEP, "Phreeqc::add_solution", fn)
    ctx = mkctx(); ctx.loop = lambda ex, st, node, o: [st]     # the element loops have their own contracts
    ex = SX.Exec(ctx); finals = ex.run(fn, SX.State())
    sol, ext, inten = tm.sym("P0_solution_ptr", "P"), tm.sym("P1_extensive", "R"), tm.sym("P2_intensive", "R")
    for i, s in enumerate(finals[:1]):
        written = {k[1] for k, v in s.heap.items() if k[0] == "f" and v.op == "store"}
        for member, (getter, kind) in ACC.items():
            old = tm.select(tm.sym("H0.%s:R" % member, ("A", "P", "R")), THIS)
            new = tm.select(s.heap.get(("f", member, "R"), tm.sym("H0.%s:R" % member, ("A", "P", "R"))), THIS)
            factor = ext if (kind == "ext") != twin else inten
            spec = old + tm.app("call:" + getter, (sol,), "R") * factor
            U.discharge_eq_real(r, "%s'==%s+%s*%s" % (member, member, getter, "extensive" if kind == "ext" else "intensive"), list(s.pc), new, spec)
        extra = written - set(ACC)
        r.add("frame.no_other_accumulator_written", DISCHARGED if not extra else FAILED, "term-inspection", 0, repr(sorted(extra)), kind="frame")
    r.assumptions += ["getters of cxxSolution are pure functions of the solution object", "the three element loops are separate units"]
    return r


def unit_add_solution_totals(twin=False):
    ctx = mkctx()
    fn, ex, iters, info = U.run_loop_isolated(STEP, "Phreeqc::add_solution", 0, ctx=ctx)
    r = U.new_unit("C02.add_solution.element_totals_loop", STEP, "Phreeqc::add_solution", fn)
    ext = tm.sym("L_extensive", "R")
    seen = set()
    for s in iters:
        if s.status not in ("run", "cont", "brk"):
            continue
        mp = U.local_of(info, s, "master_ptr")
        jit = U.local_of(info, s, "jit")
        node = tm.app("mnode", (jit,), "P")
        amount = tm.select(ex.heap_arr(s, ("f", "second", "R")), node)
        hyps = list(s.pc)
        if B.z3_prove(hyps, tm.not_(tm.eq(mp, tm.NULL)))[0] == "proved":
            seen.add("known")
            old = tm.select(tm.sym("Hiter.total:R", ("A", "P", "R")), mp)
            new = tm.select(s.heap[("f", "total", "R")], mp)
            U.discharge_eq_real(r, "known_element.master.total'==total+amount*extensive", hyps, new, old + amount * (ext if not twin else ext * ext))
            ws = [(k, i) for (k, i, v) in U.iter_writes(s) if not (k[1] == "total" and i[0] is mp)]
            r.add("known_element.frame_only_that_master_total", DISCHARGED if not ws else FAILED, "term-inspection", 0, repr(ws)[:150], kind="frame")
            ok = mp.op == "app" and mp.args[0] == "call:master_bsearch_primary"
            r.add("known_element.master_is_primary_master_of_the_element_name", DISCHARGED if ok else FAILED, "term-inspection", 0, repr(mp)[:120])
        else:
            seen.add("unknown")
            ie0 = tm.select(tm.sym("Hiter.input_error:I", ("A", "P", "I")), THIS) if ("f", "input_error", "I") in s.heap else None
            ie1 = tm.select(s.heap.get(("f", "input_error", "I"), ex.heap_arr(s, ("f", "input_error", "I"))), THIS)
            err = [e for e in U.iter_events(s) if e.name.endswith("error_msg")]
            okc = ie0 is not None and B.z3_prove(hyps, tm.eq(ie1, tm.add(ie0, tm.num(1, "I"))))[0] == "proved"
            r.add("unknown_element.reported(input_error+1,error_msg)", DISCHARGED if okc and err else FAILED, "trace+z3", 0, "", kind="trace")
    r.add("reach.both", DISCHARGED if seen == {"known", "unknown"} else UNDECIDED, "symex", 0, repr(sorted(seen)), kind="vacuity")
    return r


def unit_add_mix_loop(twin=False):
    ctx = mkctx(); ctx.pure.add("add_solution")
    kw = {}
    fnp = None
    docs = A.dump(STEP, "Phreeqc::add_mix")
    # the variant compiled in this configuration
    fn, ex, iters, info = U.run_loop_isolated(STEP, "Phreeqc::add_mix", 1, ctx=ctx)
    r = U.new_unit("C02.add_mix.mixing_loop", STEP, "Phreeqc::add_mix", fn)
    seen = set()
    for s in iters:
        if s.status not in ("run", "cont", "brk"):
            continue
        evs = U.iter_events(s)
        ads = [e for e in evs if e.name.endswith("add_solution")]
        sp = U.local_of(info, s, "solution_ptr")
        it = U.local_of(info, s, "it")
        node = tm.app("mnode", (it,), "P")
        frac = tm.select(ex.heap_arr(s, ("f", "second", "R")), node)
        if B.z3_prove(list(s.pc), tm.eq(sp, tm.NULL))[0] == "proved":
            seen.add("missing")
            ok = not ads and any(e.name.endswith("error_msg") for e in evs)
            r.add("missing_solution.reported_and_not_mixed", DISCHARGED if ok else FAILED, "trace", 0, repr(ads)[:100], kind="trace")
            continue
        seen.add("present")
        ok = len(ads) == 1 and ads[0].args[0] is sp
        r.add("present_solution.mixed_exactly_once", DISCHARGED if ok else FAILED, "trace", 0, repr(ads)[:150], kind="trace")
        if ok:
            U.discharge_eq_real(r, "present_solution.extensive_factor==mix_fraction", list(s.pc), ads[0].args[1], frac if not twin else frac * frac)
            okk = sp.op == "app" and sp.args[0] == "call:Rxn_find"
            r.add("present_solution.is_the_solution_numbered_by_the_mix_component", DISCHARGED if okk else FAILED, "term-inspection", 0, repr(sp)[:120])
        if ok:
            # intensive weight = (fraction * water of that solution) / sum over the mixed solutions of the same product (all fractions
            # positive), resp. over the positive ones for a positive fraction when some fraction is not positive
            from props.common import cases as _cases, local as _local
            mw = [e for e in evs if e.name.endswith("Get_mass_water") and e.recv is sp]
            if not mw:
                r.add("present_solution.weight_uses_that_solution's_water", FAILED, "trace", 0, ""); continue
            W = mw[-1].result
            size = [e for e in evs if e.name.endswith("size")]
            allpos = tm.not_(tm.lt(_local(info, s, "count_positive"), tm.to_int(size[-1].result) if hasattr(tm, "to_int") and size else _local(info, s, "count_positive"))) if False else None
            cp = _local(info, s, "count_positive")
            hy0 = list(s.pc)
            # the path condition already decides count_positive < size and fraction > 0 (the code branches on them)
            some_nonpos = [p_ for p_ in hy0 if "count_positive" in repr(p_)]
            posfrac = tm.lt(tm.num(0), frac)
            sfw, spw = _local(info, s, "sum_fractions_water"), _local(info, s, "sum_positive_water")
            neg_branch = any(p_.op != "not" and "count_positive" in repr(p_) and "<" in repr(p_) for p_ in hy0)
            if not neg_branch:
                U.discharge_eq_real(r, "all_positive.intensive_weight==fraction*water/sum(fraction*water)", hy0, ads[0].args[2], frac * W / (sfw if not twin else spw))
                seen.add("allpos")
            else:
                for hy, pos in _cases(hy0, posfrac):
                    if pos:
                        U.discharge_eq_real(r, "some_not_positive.positive_fraction_weighted_over_the_positive_ones", hy, ads[0].args[2], frac * W / spw)
                        seen.add("pos")
    # first loop: the sums the weights are normalised with
    fn1, ex1, it1, info1 = U.run_loop_isolated(STEP, "Phreeqc::add_mix", 0, ctx=ctx)
    n1 = 0
    for s in it1:
        if s.status not in ("run", "cont"):
            continue
        from props.common import cases as _cases, local as _local, check_accumulator_init as _cai, loop_node as _ln
        sp = U.local_of(info1, s, "solution_ptr"); it = U.local_of(info1, s, "it")
        frac = tm.select(ex1.heap_arr(s, ("f", "second", "R")), tm.app("mnode", (it,), "P"))
        I = lambda n, so="R": tm.sym("iter_" + n, so)
        for hy, missing in _cases(list(s.pc), tm.eq(sp, tm.NULL)):
            if missing:
                keep = all(_local(info1, s, n) is I(n, so) for n, so in (("sum_fractions_water", "R"), ("sum_positive_water", "R"), ("count_positive", "I")))
                r.add("sums.missing_solution_not_counted", DISCHARGED if keep else FAILED, "symex", 0, "", kind="frame")
                continue
            n1 += 1
            mw = [e for e in U.iter_events(s) if e.name.endswith("Get_mass_water") and e.recv is sp]
            if not mw:
                r.add("sums.water_of_that_solution", FAILED, "trace", 0, ""); continue
            W = mw[0].result
            U.discharge_eq_real(r, "sums.sum_fractions_water+=fraction*water", hy, _local(info1, s, "sum_fractions_water"), I("sum_fractions_water") + frac * W)
            for hy2, pos in _cases(hy, tm.lt(tm.num(0), frac)):
                U.discharge_eq_real(r, "sums.sum_positive_water(%s)" % ("positive" if pos else "not_positive"), hy2, _local(info1, s, "sum_positive_water"), I("sum_positive_water") + (frac * W if pos else tm.num(0)))
                U.discharge_valid(r, "sums.count_positive(%s)" % ("positive" if pos else "not_positive"), hy2, tm.eq(_local(info1, s, "count_positive"), I("count_positive", "I") + tm.num(1 if pos else 0, "I")))
    from props.common import check_accumulator_init as _cai, loop_node as _ln
    fnh = A.find_function(STEP, "Phreeqc::add_mix")
    for nm in ("sum_fractions_water", "sum_positive_water", "count_positive"):      # sum_fractions / sum_positive only feed `intensive`, which is not handed on
        _cai(r, fnh, STEP, _ln(fnh, 0), nm, "sums")
    r.add("reach.both", DISCHARGED if {"missing", "present", "allpos", "pos"} <= seen and n1 else UNDECIDED, "symex", 0, repr(sorted(seen)), kind="vacuity")
    r.assumptions.append("the weight handed to add_solution for a non-positive fraction in a mix with non-positive fractions is not pinned (the code computes `intensive = 0` but passes the water-weighted value)")
    return r


def unit_add_extensive(twin=False):
    rel = "src/phreeqcpp/NameDouble.cxx"
    ctx = mkctx()
    fn, ex, iters, info = U.run_loop_isolated(rel, "cxxNameDouble::add_extensive", 0, ctx=ctx)
    r = U.new_unit("C02.NameDouble.add_extensive", rel, "cxxNameDouble::add_extensive", fn)
    factor = tm.sym("L_factor", "R")
    seen = set()
    for s in iters:
        if s.status not in ("run", "cont", "brk"):
            continue
        it = U.local_of(info, s, "it")
        node = tm.app("mnode", (it,), "P")
        key = tm.select(ex.heap_arr(s, ("f", "first", "S")), node)
        val = tm.select(ex.heap_arr(s, ("f", "second", "R")), node)
        has0 = tm.select(tm.sym("Hiter.#mhas:B[S]", ("A", "P", "S", "B")), THIS, key) if False else None
        vk = ("m2", "#mval", "R", "S")
        if vk not in s.heap:
            r.add("iteration.writes_this[key]", FAILED, "symex", 0, "no value written"); continue
        new = tm.select(s.heap[vk], THIS, key)
        base = s.heap[vk]
        while base.op == "store":
            base = base.args[0]
        old = tm.select(base, THIS, key)
        hk = ("m2", "#mhas", "B", "S")
        hbase = s.heap[hk]
        while hbase.op == "store":
            hbase = hbase.args[0]
        had = tm.select(hbase, THIS, key)
        present = B.z3_prove(list(s.pc), had)[0] == "proved"
        seen.add("present" if present else "absent")
        spec = (old + val * factor) if present else val * factor
        if twin: spec = spec + val
        U.discharge_eq_real(r, "%s_key.this'[k]==%sother[k]*factor" % ("present" if present else "absent", "this[k]+" if present else ""), list(s.pc), new, spec)
        ws = [(k, i) for (k, i, v) in U.iter_writes(s) if k[1] in ("#mval",) and not (i[0] is THIS and i[1] is key)]
        r.add("%s_key.frame_only_key_k" % ("present" if present else "absent"), DISCHARGED if not ws else FAILED, "term-inspection", 0, repr(ws)[:150], kind="frame")
    # the loop is skipped only for factor == 0 (adding zero times anything is the identity)
    fn2, ex2, fin, info2 = U.run_function(rel, "cxxNameDouble::add_extensive", modes={0: "havoc"}, ctx=mkctx())
    nsk = nlp = 0
    P1 = tm.sym("P1_factor", "R")
    for s in fin:
        if s.status not in ("ret", "run"):
            continue
        entered = bool(info2["entry"].get(0)) and any(all(p in s.pc for p in e.pc) for e in info2["entry"][0])
        if not entered:
            nsk += 1
            U.discharge_valid(r, "early_return.only_for_factor_zero", list(s.pc), tm.eq(P1, tm.num(0)) if not twin else tm.lt(P1, tm.num(0)))
        else:
            nlp += 1
            U.discharge_valid(r, "every_entry_visited.unless_factor_zero", list(s.pc), tm.not_(tm.eq(P1, tm.num(0))))
    r.add("reach.both", DISCHARGED if seen == {"present", "absent"} and nsk and nlp else UNDECIDED, "symex", 0, "%r %d/%d" % (sorted(seen), nsk, nlp), kind="vacuity")
    return r


def unit_formula_workspace(fname, loop_ordinal, twin=False):
    """add_pp_assemblage / add_ss_assemblage: the element list used to move `amount_to_add` of ONE component into the solution is
    the formula of that component alone: the shared parse workspace is empty (count_elts == 0) when get_elts_in_species starts it."""
    ctx = mkctx()
    ctx.snapshot["get_elts_in_species"] = [("count_elts", "I")] if not twin else [("count_elts_twin", "I")]
    class AllPure(set):
        def __contains__(self, x): return True
    ctx.pure = AllPure()     # callees in the loop body (look-ups, getters, setters of the component) do not touch the parse workspace
    ctx.pure.update({"get_elts_in_species", "phase_bsearch", "Get_name", "Set_delta", "Set_moles", "Get_moles", "Get_ss_comps", "c_str", "Get_pp_assemblage_comps", "Get_add_formula",
                     "Get_delta", "Get_initial_moles", "Get_force_equality", "Get_dissolve_only", "Get_precipitate_only", "elt_list_combine", "qsort", "size", "begin", "end"})
    ctx.functional.update({"Get_moles", "Get_ss_comps", "Get_name", "phase_bsearch"})
    fn, ex, iters, info = U.run_loop_isolated(STEP, "Phreeqc::" + fname, loop_ordinal, ctx=ctx)
    r = U.new_unit("C02.%s.formula_workspace" % fname, STEP, "Phreeqc::" + fname, fn)
    n = 0
    for s in iters:
        if s.status not in ("run", "cont", "brk"):
            continue
        for e in U.iter_events(s):
            if e.name.endswith("get_elts_in_species") and e.snap is not None:
                n += 1
                for f, v in e.snap.items():
                    U.discharge_valid(r, "at_formula_start.%s==0[%d]" % (f, n), list(s.pc), tm.eq(v, tm.num(0, "I")))
    r.add("reach.calls", DISCHARGED if n >= 1 else UNDECIDED, "symex", 0, "%d get_elts_in_species calls in the component loop body" % n, kind="vacuity")
    r.assumptions.append("get_elts_in_species(&formula, coef) appends the formula's elements to elt_list[count_elts..): with count_elts == 0 the list is exactly the formula")
    return r


def unit_totalize(twin=False):
    """cxxSystem::totalize: the totals are cleared first, then every part that is present contributes its own totals with factor 1
    (no part dropped, none counted twice); H, O and charge of the solution are entered."""
    rel = "src/phreeqcpp/System.cxx"
    fn = A.find_function(rel, "cxxSystem::totalize")
    r = U.new_unit("C02.System.totalize", rel, "cxxSystem::totalize", fn)
    parts = [n for n, t in A.class_fields("System.h", "cxxSystem") if t.strip().endswith("*") and t.startswith("cxx") and n not in ("mix", "reaction", "temperature", "pressure", "kinetics")]
    if twin:
        parts = parts + ["verif_twin_part"]
    body = A.body_of(fn)["inner"]
    first = body[0] if body else {}
    okc = first.get("kind") == "CXXMemberCallExpr" and C10_strip(first["inner"][0]).get("name") == "clear"
    r.add("totals_cleared_first", DISCHARGED if okc else FAILED, "ast-scan", 0, "", kind="structure")
    blocks = {}
    for st in body:
        if st.get("kind") != "IfStmt":
            continue
        mem = [x.get("name") for x in A.walk(st["inner"][0]) if x.get("kind") == "MemberExpr" and C10_strip(x["inner"][0]).get("kind") == "CXXThisExpr"]
        if len(mem) != 1:
            continue
        adds = [x for x in A.walk(st["inner"][1]) if x.get("kind") == "CXXMemberCallExpr" and C10_strip(x["inner"][0]).get("name") == "add_extensive"]
        good = 0
        for a in adds:
            src = [x.get("name") for x in A.walk(a["inner"][1]) if x.get("kind") == "MemberExpr" and C10_strip(x["inner"][0]).get("kind") == "CXXThisExpr"]
            fac = A.const_int(a["inner"][2]) if len(a["inner"]) > 2 else None
            facf = [x.get("value") for x in A.walk(a["inner"][2]) if x.get("kind") == "FloatingLiteral"] if len(a["inner"]) > 2 else []
            if src == [mem[0]] and (fac == 1 or facf == ["1"]):
                good += 1
        blocks[mem[0]] = (len(adds), good)
    for pth in parts:
        n, good = blocks.get(pth, (0, 0))
        r.add("part[%s].contributes_its_totals_exactly_once_with_factor_1" % pth, DISCHARGED if n == 1 and good == 1 else FAILED, "ast-scan", 0, "add_extensive calls %d, from its own totals with factor 1: %d" % (n, good), kind="structure")
    # H, O and charge of the solution: each stored under its own key from its own getter; parts other than the solution are brought
    # up to date (their own totalize) before their totals are added
    from props.common import text_of as _txt
    for st in body:
        if st.get("kind") != "IfStmt":
            continue
        mem = [x.get("name") for x in A.walk(st["inner"][0]) if x.get("kind") == "MemberExpr" and C10_strip(x["inner"][0]).get("kind") == "CXXThisExpr"]
        if len(mem) != 1:
            continue
        stmts = st["inner"][1].get("inner", [])
        if mem[0] == "solution":
            last = None; pairs = set()
            for x in stmts:
                t = _txt(rel, x)
                m_ = re.match(r'^Utilities::strcpy_safe\(token,MAX_LENGTH,"(\w+)"\);?$', t)
                if m_:
                    last = m_.group(1); continue
                m2 = re.match(r'^this->totals\[token\]=this->solution->(Get_\w+)\(\);?$', t)
                if m2:
                    pairs.add((last, m2.group(1)))
            want = {("O", "Get_total_o"), ("H", "Get_total_h"), ("Charge", "Get_cb")}
            if twin:
                want = {("O", "Get_total_h"), ("H", "Get_total_o"), ("Charge", "Get_cb")}
            r.add("solution.H_O_and_charge_entered_under_their_own_keys", DISCHARGED if pairs == want else FAILED, "ast-scan", 0, repr(sorted(pairs)), kind="post")
        elif mem[0] in parts:
            names = []
            for x in stmts:
                for y in A.walk(x):
                    if y.get("kind") == "CXXMemberCallExpr":
                        nm = C10_strip(y["inner"][0]).get("name")
                        if nm in ("totalize", "add_extensive"):
                            names.append(nm)
            r.add("part[%s].brought_up_to_date_before_it_is_added" % mem[0], DISCHARGED if names[:2] == ["totalize", "add_extensive"] else FAILED, "ast-scan", 0, repr(names), kind="structure")
    r.kind = "structural"
    return r


def C10_strip(n):
    from props.C10 import strip
    return strip(n)


def _rename(r, uid):
    r.id = uid
    return r


def units(tier):
    us = []
    def wrap(uid, f):
        def g():
            r = f()
            if not any(o.status == FAILED for o in r.obligations):
                U.must_fail_twin(r, "vacuity.must_fail_twin", lambda: f(twin=True))
            return r
        us.append((uid, g))
    wrap("C02.add_solution.accumulators", unit_add_solution_scalars)
    wrap("C02.add_solution.element_totals_loop", unit_add_solution_totals)
    wrap("C02.add_mix.mixing_loop", unit_add_mix_loop)
    wrap("C02.NameDouble.add_extensive", unit_add_extensive)
    wrap("C02.System.totalize", unit_totalize)
    from props import c02_save as SV
    wrap("C02.xsolution_save.saves_what_add_solution_reads", SV.unit_xsolution_save)
    wrap("C02.xsurface_save.charge_saved_for_every_type_add_surface_reads", SV.unit_xsurface_save)
    wrap("C02.xpp_assemblage_save.every_phase_gets_its_solved_amount", SV.unit_xpp_save)
    wrap("C02.xgas_save.components_get_solved_moles_pressure_fugacity", SV.unit_xgas_save)
    wrap("C02.xexchange_save.sites_get_sorbed_amounts_and_charge", SV.unit_xexchange_save)
    wrap("C02.add_surface.saved_diffuse_layer_totals_are_added_back", SV.unit_add_surface_dl)
    from props import c12_time as _TM
    wrap("C02.kinetics.reacted_moles_capped_at_amount_present", lambda twin=False: _rename(_TM.unit_reactant_nonnegative(twin), "C02.kinetics.reacted_moles_capped_at_amount_present"))
    from props import c02_mbspecies as MBS
    wrap("C02.mb_for_species.same_H_O_charge_coefficients_for_aq_ex_surf", MBS.unit_mb_for_species)
    wrap("C02.mb_for_species.element_coefficient_is_atoms_x_master_coefficient", MBS.unit_mb_element_coefficients)
    from props import c02_dispatch as DP
    wrap("C02.step.element_dispatch_adds_the_same_amount_to_exactly_one_accumulator", DP.unit_dispatch)
    from props import c02_reset as RS
    wrap("C02.reset.mineral_transfer_is_conservative", RS.unit_reset_transfer)
    from props import c03_build as _BD
    wrap("C02.build_pure_phases.each_element_charged_to_its_own_balance", lambda twin=False: _rename(_BD.unit_mineral_elements(twin), "C02.build_pure_phases.each_element_charged_to_its_own_balance"))
    for fname, lo in (("add_ss_assemblage", 1), ("add_pp_assemblage", 0)):
        def g(fname=fname, lo=lo):
            r = unit_formula_workspace(fname, lo)
            if not any(o.status == FAILED for o in r.obligations):
                U.must_fail_twin(r, "vacuity.must_fail_twin", lambda: unit_formula_workspace(fname, lo, twin=True))
            return r
        us.append(("C02.%s.formula_workspace" % fname, g))
    return us


def run(tier, seed, only, jobs):
    t0 = time.time()
    U.TIER.update(tier=tier, seed=seed)
    us = units(tier)
    from props.common import ext_units as _ext
    us += _ext("C02")
    if only:
        us = [x for x in us if only in x[0]]
    res = core.run_units(us, jobs=jobs)
    return core.finish(PID, tier, seed, "proof", res, t0,
        checker_cmd="astvc: clang AST of step.cpp / NameDouble.cxx / System.cxx -> function, iteration and statement contracts -> sympy.cancel / z3 5.1",
        trusted_base=["clang 14 AST", "astvc (vf/astvc)", "sympy 1.14", "z3 5.1", "STL model (map-like cxxNameDouble)"],
        assumptions=["machine doubles treated as mathematical reals"],
        explanation="Accumulation (linearity) contracts on the functions that assemble the reacting system; conservation across a solved step, the saver functions, the MH/MH2O/CB rows and non-negativity are not decided.")
