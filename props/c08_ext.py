"""C08 extension units (helper session): tolerant input layer, NULL-safety of look-ups, fixed-buffer helpers."""
from props import c08_ext_null as NL

UNITS = []
UNITS += NL.units()
from props import c08_ext_buf as BF
UNITS += BF.units()
from props import c08_ext_lines as LN
UNITS.append(("C08.PHRQ_io.get_logical_line.one_logical_line_is_assembled_for_every_byte_sequence", lambda twin=False: LN.unit_get_logical_line(LN.PIO, "PHRQ_io", twin)))
UNITS.append(("C08.CParser.get_logical_line.one_logical_line_is_assembled_for_every_byte_sequence", lambda twin=False: LN.unit_get_logical_line(LN.PAR, "CParser", twin)))
UNITS.append(("C08.PHRQ_io.get_line.what_is_returned_for_every_line_and_every_include", LN.unit_io_get_line))
UNITS.append(("C08.PHRQ_io.check_key.keyword_of_the_first_token", lambda twin=False: LN.unit_check_key(LN.PIO, "PHRQ_io", twin)))
UNITS.append(("C08.CParser.check_key.keyword_of_the_first_token", lambda twin=False: LN.unit_check_key(LN.PAR, "CParser", twin)))
UNITS.append(("C08.PHRQ_io.stream_stack.stream_and_flag_lists_move_together", LN.unit_stream_stack))
UNITS.append(("C08.check_line_impl.what_is_returned_and_what_is_reported", LN.unit_check_line_impl))
UNITS.append(("C08.Phreeqc_get_line.type_keyword_and_both_texts_come_from_the_io_layer", LN.unit_phreeqc_get_line))
UNITS.append(("C08.get_option.every_kind_of_line_has_its_documented_result", LN.unit_get_option))
UNITS.append(("C08.find_option.first_option_that_matches_or_ERROR", LN.unit_find_option))
UNITS.append(("C08.CParser.check_line.what_is_returned_and_what_is_reported", LN.unit_cparser_check_line))
UNITS.append(("C08.CParser.get_option.every_kind_of_line_has_its_documented_result", LN.unit_cparser_get_option))
UNITS.append(("C08.CParser.get_rest_of_line.rest_of_the_line_character_by_character", LN.unit_get_rest_of_line))
UNITS.append(("C08.CParser.get_line.what_is_returned_for_every_line", LN.unit_cparser_get_line))
UNITS.append(("C08.CParser.copy_token.nothing_at_or_behind_end_is_read", LN.unit_cparser_copy_token))
from props.c08_ext3 import UNITS as _U3; UNITS = UNITS + _U3
from props.c08_ext4 import UNITS as _U4; UNITS = UNITS + _U4
