"""C17 extension (second helper): the front end of the BASIC interpreter (tokenizer parse, line store parseinput, the LIST inverse
listtokens), the drivers (basic_compile / basic_run / basic_renumber / basic_main, RUN / END / NEW / BYE), the remaining numeric and
string built-ins of factor, and the hosts of BASIC programs in print.cpp / read.cpp."""
from props import c17_ext2_parse as P
from props import c17_ext2_lines as LN
from props import c17_ext2_drivers as DR
from props import c17_ext2_builtins as BI
from props import c17_ext2_hosts as HO

UNITS = P.UNITS + LN.UNITS + DR.UNITS + BI.UNITS + HO.UNITS
