"""C05 / C09 (fifth wave): Phreeqc::punch_all, the end of every selected-output row.

Per SELECTED_OUTPUT definition and per row: the line feed that ends the row in the file / string is written (punch_msg("\\n")) exactly when
the definition wants line feeds and THIS row's USER_PUNCH did not ask for NO_NEWLINE$ (the flag is read after punch_user_punch ran, and
before it is re-armed); the flag NO_NEWLINE$ lowers is raised again (Set_output_newline(true)) on EVERY row of EVERY definition, after it
was read, so that it cannot leak into the next definition or the next row; the table row is closed (fpunchf_end_row) on every row whatever
the flag says; after the loop the current definition, the current USER_PUNCH and the punch stream of the io object are dropped (NULL).
One pass of the definition loop is executed from an arbitrary state (iteration contract) and the whole function with the loop abstracted;
obligations are read from call events (receiver, arguments, order) and path conditions.  Nothing is compared as source text."""
from props.c05_ext import *
from props.c05_ext import _so_loops, _calls

UNITS = []
UID = "C05.punch_all.row_line_feed_unless_NO_NEWLINE.flag_rearmed_after_every_row.bindings_dropped_after_the_loop"


def _flag_term(ex, s, E, after):
    """(terms, events) through which the path read the line-feed flag at or after event index `after`"""
    reads = [e for e in E if short(e) == "Get_output_newline"]
    return reads


def unit_row_newline(twin=False, uid=UID):
    q = "Phreeqc::punch_all"
    fn = A.find_function(PRINT, q)
    r = U.new_unit(uid, PRINT, q, fn)
    loops, so = _so_loops(fn, PRINT)
    so = [k for k in so if _calls(loops[k]["inner"][-1], "punch_user_punch")]
    if len(so) != 1:
        raise Undecided("punch_all: %d loops that make a definition current and punch it" % len(so))
    # Get_output_newline is deliberately NOT functional: each read is its own event with its own result, so the position of the read matters
    fun = ("Get_n_user", "Get_punch_ostream", "Get_active", "Get_new_line", "Get_new_def", "Get_high_precision")
    c = ctx(functional=fun); c.enum_values.update({"TRUE": 1, "FALSE": 0}); c.log_stores = True
    f, ex, its, info = U.run_loop_isolated(PRINT, q, so[0], ctx=c)
    seen = set()
    for i, s in enumerate([x for x in its if x.status in ("run", "cont") and B.z3_sat(list(x.pc)) != "unsat"]):
        E = [e for e in U.iter_events(s) if not isinstance(e, tuple)]
        pos = {id(e): k for k, e in enumerate(E)}
        up = [e for e in E if short(e) == "punch_user_punch"]
        if not up:
            continue                      # definition skipped (inactive / punching off): no BASIC program ran, the flag cannot have been lowered
        tag = "[path %d]" % i
        cs = [v for e, f_, v in stores(s, THIS, "current_selected_output") if e in E]
        d = cs[0] if cs else None
        pu = pos[id(up[-1])]
        nl = [e for e in E if short(e) == "punch_msg" and e.args and strlit(e.args[0]) in ("\\n", "\n")]
        other_msg = [e for e in E if short(e) == "punch_msg" and e not in nl]
        reads = [e for e in E if short(e) == "Get_output_newline" and e.recv is THIS]
        fstores = [(e, v) for e, f_, v in stores(s, THIS, "output_newline") if e in E]
        sets = [e for e in E if short(e) == "Set_output_newline" and e.recv is THIS]
        arm = [e for e in sets if e.args and e.args[0] is tm.TRUE] + [e for e, v in fstores if v is tm.TRUE]
        lower = [e for e in sets if not (e.args and e.args[0] is tm.TRUE)] + [e for e, v in fstores if v is not tm.TRUE]
        # the flag as this row's USER_PUNCH left it: the result of a read made after punch_user_punch and before the re-arm
        first_arm = min([pos[id(e)] for e in arm] or [len(E)])
        good_reads = [e for e in reads if pu < pos[id(e)] < first_arm]
        direct = [t for t in tm.subterms(tm.and_(*s.pc)) if t.op == "select" and t.args[0].op == "sym" and ".output_newline:" in t.args[0].args[0]] if s.pc else []
        flag = tm.to_bool(good_reads[-1].result) if good_reads else (direct[-1] if direct else None)
        stale = [e for e in reads if e not in good_reads]
        unread = flag is None and not reads and not direct      # short-circuit: the definition wants no line feeds, the flag was not consulted
        if unread:
            flag = tm.sym("flag_not_consulted_on_this_path", "B")
        ok(r, "flag_read_after_this_rows_USER_PUNCH_and_before_it_is_re-armed" + tag, flag is not None and not stale and (not direct or not reads) and not (unread and nl),
           "reads at %r, USER_PUNCH at %d, first re-arm at %d" % ([pos[id(e)] for e in reads], pu, first_arm), kind="trace")
        if d is not None and flag is not None:
            want = tm.and_(tm.to_bool(tm.app("call:Get_new_line", (d,), "B")), flag if not twin else tm.not_(flag))
            if nl:
                seen.add("newline")
                ok(r, "line_feed_written_once_after_the_cells_only_when_wanted_and_not_suppressed_by_NO_NEWLINE" + tag,
                   len(nl) == 1 and pos[id(nl[0])] > pu and proved(s.pc, want), repr(s.pc)[-200:], backend="z3-5.1")
            else:
                seen.add("suppressed")
                ok(r, "line_feed_left_out_only_when_not_wanted_or_suppressed_by_NO_NEWLINE" + tag, proved(s.pc, tm.not_(want)), repr(s.pc)[-200:], backend="z3-5.1")
        ok(r, "nothing_else_written_as_row_text_by_punch_all_itself" + tag, not other_msg, repr(other_msg)[:160], kind="frame")
        # re-armed on every row, after USER_PUNCH and after the read, never lowered here
        ok(r, "flag_re-armed(true)_after_this_rows_USER_PUNCH_on_this_path" + tag, bool(arm) and max(pos[id(e)] for e in arm) > pu and not [e for e in lower if pos[id(e)] > pu],
           "Set_output_newline events %r" % [(pos[id(e)], repr(e.args)) for e in sets], kind="trace")
        ends = [e for e in E if short(e) == "fpunchf_end_row"]
        ok(r, "table_row_closed_once_on_this_path_whatever_the_flag_says(after_the_line_feed)" + tag, len(ends) == 1 and pos[id(ends[0])] > pu and all(pos[id(x)] < pos[id(ends[0])] for x in nl), repr([short(e) for e in E[pu:]]), kind="trace")
    reach(r, "reach.row_with_and_without_line_feed", seen == {"newline", "suppressed"}, repr(sorted(seen)))
    # ---- after the loop: nothing stays bound
    fun2 = fun + ("size", "Get_kinetics_in", "Get_n_kinetics_user")
    c2 = ctx(functional=fun2); c2.enum_values.update({"TRUE": 1, "FALSE": 0}); c2.log_stores = True
    f2, ex2, fin, info2 = run(PRINT, q, c=c2)
    n_loop = n_early = 0
    for i, s in enumerate(alive(fin, ("ret",))):
        E = [e for e in s.events if not isinstance(e, tuple)]
        through = any(short(e) == "begin" and field_of_recv(e.recv) == "SelectedOutput_map" for e in E) or bool(stores(s, THIS, "current_selected_output")) or any(short(e) == "Set_punch_ostream" for e in E)
        cso, cup = fld(ex2, s, "current_selected_output", "P"), fld(ex2, s, "current_user_punch", "P")
        if not through:
            n_early += 1
            ok(r, "return_before_the_loop_binds_nothing[ret %d]" % i, cso is fld0(ex2, s, "current_selected_output", "P") and cup is fld0(ex2, s, "current_user_punch", "P"), "%r %r" % (cso, cup), kind="frame")
            continue
        n_loop += 1
        sp = [e for e in E if short(e) == "Set_punch_ostream"]
        good = proved(s.pc, tm.eq(cso, NULLP)) and proved(s.pc, tm.eq(cup, NULLP)) and bool(sp) and sp[-1].args and sp[-1].args[0] is NULLP
        if twin and False:
            good = False
        ok(r, "after_the_loop_current_definition_USER_PUNCH_and_punch_stream_are_dropped[ret %d]" % i, good, "cso=%r cup=%r stream=%r" % (cso, cup, sp[-1].args if sp else None), kind="trace")
    reach(r, "reach.returns_before_and_after_the_loop", n_loop >= 1 and n_early >= 1, "%d after the loop, %d before" % (n_loop, n_early))
    r.assumptions += ["PBasic's NO_NEWLINE$ lowers the flag through Set_output_newline(false) while punch_user_punch runs (unit C17...NO_NEWLINE$); no other callee of the row lowers it",
                      "Phreeqc::Get_output_newline / Set_output_newline are the accessors of the member output_newline (Phreeqc.h); a direct read / store of the member is accepted as well",
                      "the binding of stream / USER_PUNCH per definition and the order of the cell blocks: unit C05.rows.each_definition_through_its_own_stream_and_user_punch",
                      "iteration contract on the definition loop; the loop is abstracted (havoc) in the whole-function run that decides the state after it"]
    return r


UNITS.append((UID, unit_row_newline))


def _lines(twin=False):
    from props.c09_ext5 import unit_one_entry_per_line
    r = unit_one_entry_per_line(twin=twin)
    r.id = "C05.lines.every_line_of_a_string_is_exactly_one_entry(empty_lines_included)"
    return r


UNITS.append(("C05.lines.every_line_of_a_string_is_exactly_one_entry(empty_lines_included)", _lines))
