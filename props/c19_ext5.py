"""C19 extension, fifth batch (also serves C03): the component loops of Phreeqc::check_same_model.

C19.check_same_model.every_comparison_loop_covers_all_entries_and_any_difference_answers_FALSE
    Every loop of check_same_model (master marks, gas components, solid-solution components, pure phases, surface components / charges) visits
    ALL entries of the current reactant's list: the induction variable starts at 0 (or begin()), the loop runs while it is below the size of a
    container (or differs from end()) and steps by one; an iteration either goes on to the next entry or returns FALSE - it never leaves the
    loop by `break` and never returns TRUE; and each loop's bound is the bound of a loop of save_model (the writer of last_model walks the
    same list over the same range)."""
import re
from props.c14_ext_lib import *

PREP = "src/phreeqcpp/prep.cpp"
UID = "C19.check_same_model.every_comparison_loop_covers_all_entries_and_any_difference_answers_FALSE"


def _norm(t):
    s = repr(t)
    s = re.sub(r"(ret|retref)_(\w+)!\d+", r"\1_\2", s)
    s = re.sub(r"\bH\d+\.", "H.", s)
    s = re.sub(r"!\d+", "", s)
    return s


def _heads(q):
    stash = LoopStash()
    c = mk_ctx(functional=("size", "begin", "end", "Get_gas_phase_ptr", "Get_pp_assemblage_ptr", "Get_ss_assemblage_ptr", "Get_surface_ptr", "Get_exchange_ptr", "Get_gas_comps", "Get_pp_assemblage_comps",
                           "Get_surface_comps", "Get_surface_charges", "Vectorize", "Get_ss_comps", "Get_exchange_comps", "Get_SSs"), loop=stash)
    fn, ex, fin = run(PREP, q, c)
    out = {}
    for node, e0 in stash.entry:
        o = ordinal_of(fn, node)
        if o in out:
            continue
        did, name = loop_var(ex, node)
        ty = ""
        for x in A.walk(fn):
            if x.get("kind") == "VarDecl" and x.get("id") == did:
                ty = x.get("type", {}).get("desugaredQualType") or x.get("type", {}).get("qualType", "")
        sort = "P" if "iterator" in ty else "I"
        try:
            h = loop_head(ex, node, e0, sort=sort)
        except Undecided as e:
            out[o] = dict(err=str(e), node=node); continue
        h.update(node=node, e0=e0, sort=sort, its=stash.iter_states(node), all=stash.iters.get(id(node), []))
        out[o] = h
    return fn, out


def _key(N):
    """what a bound measures: the container whose size / end it is (the store history of the size array is dropped: save_model resizes the lists of
    last_model before it walks the reactant's list)"""
    if N.op == "select":
        return "size of " + _norm(N.args[1:] if len(N.args) > 2 else N.args[1])
    return _norm(N)


def _bound(h):
    """the term N with  cond <=> K < N  (integer loops) or the container X with cond <=> K != end(X) (iterator loops); None when the condition has another shape"""
    c, K = h["cond"], h["K"]
    if c is None:
        return None
    if h["sort"] == "I":
        if c.op == "<" and c.args[0] is K and not has_sub(c.args[1], K):
            return c.args[1]
        return None
    if c.op == "not" and c.args[0].op == "==":
        a, b = c.args[0].args
        o = b if a is K else (a if b is K else None)
        if o is not None and o.op == "app" and o.args[0] in ("call:end", "mend"):
            return o
    return None


def unit_same_model_loops(twin=False):
    fn, heads = _heads("Phreeqc::check_same_model")
    r = U.new_unit(UID, PREP, "Phreeqc::check_same_model", fn)
    _f1, wheads = _heads("Phreeqc::save_model")
    wb = set()
    for o, h in wheads.items():
        if "err" not in h and _bound(h) is not None:
            wb.add(_key(_bound(h)))
    n = 0
    for o, h in sorted(heads.items()):
        tag = "loop%d" % o
        if "err" in h:
            ok(r, tag + ".header_understood", False, "symex", h["err"], undecided=True); continue
        N = _bound(h)
        K, e0 = h["K"], h["e0"]
        if h["sort"] == "I":
            first_ok = h["first"] is not None and proved(e0.pc, tm.eq(h["first"], tm.num(0 if not (twin and n == 0) else 1, "I")))
            size_ok = N is not None and ("#vsize" in repr(N) or "call:size" in repr(N)) and not re.search(r"[-+] ?\d", repr(N))
        else:
            first_ok = h["first"] is not None and h["first"].op == "app" and h["first"].args[0] in ("call:begin", "mbegin") and N is not None and h["first"].args[1:] == N.args[1:]
            size_ok = N is not None
        ok(r, tag + ".starts_at_the_first_entry", first_ok, "symex+z3", repr(h["first"])[:160])
        ok(r, tag + ".runs_up_to_the_size_of_the_list(all_entries)", size_ok, "symex", repr(h["cond"])[:200])
        nxt_ok = h["next"] is not None and (proved(e0.pc, tm.eq(h["next"], tm.add(K, tm.num(1, "I")))) if h["sort"] == "I" else ("inext" in repr(h["next"]) and has_sub(h["next"], K)))
        ok(r, tag + ".steps_to_the_next_entry", nxt_ok, "symex+z3", repr(h["next"])[:160])
        if o != 0 and N is not None:      # loop 0 walks the master table (no list of last_model behind it)
            ok(r, tag + ".same_range_as_a_loop_of_save_model", _key(N) in wb, "term-pairing", "%s vs %s" % (_key(N)[:120], sorted(wb)))
        sts = [s for s in h["all"] if sat(s.pc)]
        brk = [s for s in sts if s.status == "brk"]
        rets = [s for s in sts if s.status == "ret"]
        ok(r, tag + ".never_left_by_break", not brk, "symex", "%d iteration paths break out" % len(brk))
        ok(r, tag + ".a_returning_iteration_answers_FALSE", all(s.ret is not None and tm.isnum(s.ret) and s.ret.args[0] == 0 for s in rets), "symex", [repr(s.ret) for s in rets][:4])
        ok(r, tag + ".reach.difference_exit", bool(rets) and any(s.status in ("run", "cont") for s in sts), "symex", "%d return / %d paths" % (len(rets), len(sts)), kind="vacuity", undecided=True)
        n += 1
    ok(r, "reach.loops", n >= 6 and len(wb) >= 5, "symex", "%d loops of check_same_model, %d bounds of save_model" % (n, len(wb)), kind="vacuity", undecided=True)
    r.assumptions += ["cxxUse accessors, container getters and size() are functions of their arguments; the bound of a loop is taken from the shape K < N of its condition (N free of K, a container size without offset)",
                      "WHICH member each iteration compares is C03.check_same_model.every_component_recorded_by_save_model_is_compared_with_its_current_value", "inner loops (surface related phases) are treated like the outer ones"]
    return r


UNITS = [(UID, unit_same_model_loops)]
