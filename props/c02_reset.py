"""C02: the Newton update (Phreeqc::reset) moves between reactants and solution exactly what it takes: the element deltas are the
stoichiometric sums of the reactant deltas, the factor that limits mineral transfer scales both alike, and each amount is updated
by its own (scaled) delta."""
from props.common import *
from vf.core import FAILED, DISCHARGED, UNDECIDED
from vf.astvc import hdr

MODEL = "src/phreeqcpp/model.cpp"
GS = "src/phreeqcpp/global_structures.h"
Q = "Phreeqc::reset"


def unit_reset_transfer(twin=False):
    fn = A.find_function(MODEL, Q)
    r = U.new_unit("C02.reset.mineral_transfer_is_conservative", MODEL, Q, fn)
    PP = hdr.define_value(GS, "PP"); SS = hdr.define_value(GS, "SS_MOLES")
    I = tm.sym("iter_i", "I")
    def delta_ix(ex, s):
        return tm.select(entry_arr(ex, s, ("f", "#vdata", "P")), tm.app("fld:delta", (THIS,), "P"))
    # (a) element deltas are the stoichiometric sums:  *target += *source * coef
    k = loop_ordinal(fn, MODEL, init_text="i=0", cond_text="i<(int)sum_delta.size()")
    f, ex, its, info = U.run_loop_isolated(MODEL, Q, k, ctx=ctx())
    n = 0
    for s in live(its, ("run", "cont")):
        n += 1
        ws = [(ix, v) for ix, v in writes(s, ("m", "R"))]
        if len(ws) != 1:
            r.add("sum_delta.one_target_written", FAILED, "symex", 0, repr(ws)[:300]); continue
        ix, val = ws[0]
        data = tm.select(entry_arr(ex, s, ("f", "#vdata", "P")), tm.app("fld:sum_delta", (THIS,), "P"))
        ent = data + I
        tgt, srcp, coef = fld0(ex, s, "target", "P", ent), fld0(ex, s, "source", "P", ent), fld0(ex, s, "coef", "R", ent)
        mem0 = entry_arr(ex, s, ("m", "R"))
        z = tm.num(0, "I")
        r.add("sum_delta.writes_through_target", DISCHARGED if ix == (tgt, z) else FAILED, "syntactic", 0, repr(ix)[:200], kind="frame")
        U.discharge_eq_real(r, "sum_delta.target+=source*coef", list(s.pc), val, tm.select(mem0, tgt, z) + tm.select(mem0, srcp, z) * (coef if not twin else tm.num(1)))
    r.add("reach.sum_delta", DISCHARGED if n else UNDECIDED, "symex", 0, "", kind="vacuity")
    # (b) the mineral-limiting factor divides every element delta and exactly the reactant deltas that produced them (PP and SS_MOLES)
    scale = find_stmt(fn, MODEL, "x[i]->delta /=", prefix=True, kinds=("CompoundAssignOperator",))
    loops = [x for x in A.walk(fn) if x.get("kind") in ("ForStmt", "WhileStmt", "DoStmt")]
    k = [j for j, lp in enumerate(loops) if any(y is scale for y in A.walk(lp))][-1]
    f, ex, its, info = U.run_loop_isolated(MODEL, Q, k, ctx=ctx())
    seen = set()
    for s in live(its, ("run", "cont")):
        xi = vec_elem(ex, s, "x", I)
        ty = fld0(ex, s, "type", "I", xi)
        fac = local(info, s, "factor")
        hy = list(s.pc)
        wd = [v for ix, v in writes(s, ("f", "delta", "R")) if ix == (xi,)]
        if len(wd) != 1:
            r.add("limit.element_delta_scaled_once", FAILED, "symex", 0, repr(wd)[:200]); continue
        U.discharge_eq_real(r, "limit.element_delta/=factor", hy, wd[0], fld0(ex, s, "delta", "R", xi) / fac)
        dd = delta_ix(ex, s)
        wm = [v for ix, v in writes(s, ("m", "R")) if ix == (dd, I)]
        other = [ix for ix, v in writes(s, ("m", "R")) if ix != (dd, I)]
        if other:
            r.add("limit.frame", FAILED, "symex", 0, repr(other)[:200], kind="frame")
        reactant = tm.or_(tm.eq(ty, tm.num(PP, "I")), tm.eq(ty, tm.num(SS, "I")))
        if twin:
            reactant = tm.eq(ty, tm.num(PP, "I"))
        d0 = tm.select(entry_arr(ex, s, ("m", "R")), dd, I)
        if B.z3_sat(hy + [reactant]) != "unsat":
            seen.add("reactant")
            if not wm:
                r.add("limit.reactant_delta(PP,SS_MOLES)/=factor", FAILED, "symex+z3", 0, "a pure-phase or solid-solution delta is left unscaled on path %r" % (s.pc,))
            else:
                U.discharge_eq_real(r, "limit.reactant_delta(PP,SS_MOLES)/=factor", hy + [reactant], wm[-1], d0 / fac)
        if B.z3_sat(hy + [tm.not_(reactant)]) != "unsat":
            seen.add("other")
            if wm:
                U.discharge_eq_real(r, "limit.other_deltas_unchanged", hy + [tm.not_(reactant)], wm[-1], d0)
            else:
                r.add("limit.other_deltas_unchanged", DISCHARGED, "symex", 0, "not written")
    r.add("reach.limit", DISCHARGED if seen == {"reactant", "other"} else UNDECIDED, "symex", 0, repr(seen), kind="vacuity")
    # (c) the aqueous step factor multiplies exactly the other deltas
    st = find_stmt(fn, MODEL, "delta[i] *= factor", prefix=True, kinds=("CompoundAssignOperator",))
    k = [j for j, lp in enumerate(loops) if any(y is st for y in A.walk(lp))][-1]
    f, ex, its, info = U.run_loop_isolated(MODEL, Q, k, ctx=ctx())
    seen = set()
    for s in live(its, ("run", "cont")):
        xi = vec_elem(ex, s, "x", I); ty = fld0(ex, s, "type", "I", xi); fac = local(info, s, "factor")
        dd = delta_ix(ex, s); hy = list(s.pc)
        wm = [v for ix, v in writes(s, ("m", "R")) if ix == (dd, I)]
        d0 = tm.select(entry_arr(ex, s, ("m", "R")), dd, I)
        reactant = tm.or_(tm.eq(ty, tm.num(PP, "I")), tm.eq(ty, tm.num(SS, "I")))
        if B.z3_sat(hy + [reactant]) != "unsat":
            seen.add("reactant")
            if wm:
                U.discharge_eq_real(r, "step.reactant_deltas_keep_their_limited_value", hy + [reactant], wm[-1], d0)
            else:
                r.add("step.reactant_deltas_keep_their_limited_value", DISCHARGED, "symex", 0, "not written")
        if B.z3_sat(hy + [tm.not_(reactant)]) != "unsat":
            seen.add("other")
            if not wm:
                r.add("step.other_deltas*=factor", FAILED, "symex", 0, "unscaled")
            else:
                U.discharge_eq_real(r, "step.other_deltas*=factor", hy + [tm.not_(reactant)], wm[-1], d0 * fac)
    r.add("reach.step", DISCHARGED if seen == {"reactant", "other"} else UNDECIDED, "symex", 0, repr(seen), kind="vacuity")
    # (d) amounts: PP and SS components lose delta[i]; element totals gain x[i]->delta
    for text, label, sign in (("x[i]->moles -= delta[i]", "reactant.moles-=delta", -1), ("x[i]->moles += x[i]->delta", "element_total.moles+=element_delta", +1)):
        sts = find_nodes(fn, MODEL, lambda t, x: t.startswith(text.replace(" ", "")), kinds=("CompoundAssignOperator",))
        if not sts:
            r.add("update.%s.present" % label, FAILED, "syntactic", 0, "statement `%s` not found" % text); continue
        for j, stn in enumerate(sts):
            f, ex, fin, info = region(MODEL, Q, [stn])
            for s in live(fin):
                xi = vec_elem(ex, s, "x", tm.sym("L_i", "I"))
                w = [v for ix, v in writes(s, ("f", "moles", "R")) if ix == (xi,)]
                if len(w) != 1:
                    r.add("update.%s[%d].writes_moles" % (label, j), FAILED, "symex", 0, ""); continue
                dd = delta_ix(ex, s)
                d = tm.select(entry_arr(ex, s, ("m", "R")), dd, tm.sym("L_i", "I")) if sign < 0 else fld0(ex, s, "delta", "R", xi)
                U.discharge_eq_real(r, "update.%s[%d]" % (label, j), list(s.pc), w[0], fld0(ex, s, "moles", "R", xi) + (d if sign > 0 else tm.neg(d)))
    r.assumptions += ["sum_delta entries are those stored by build_model/store_sum_deltas (not under this contract)", "the clamps (MIN_TOTAL_SS, equal-within-ineq_tol -> 0) are not pinned",
                      "gas-phase deltas and the computation of the factors themselves are not under this contract", "doubles as reals"]
    return r
