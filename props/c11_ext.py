"""C11 (extension units): stagnant-zone exchange (mix_stag, the mobile/immobile mix records built in transport(), the scratch
numbers of run_reactions), heat mixing factors (init_heat_mix / heat_mix), the dispersive call site of transport(), the cell
bookkeeping of set_transport / set_advection, and the multicomponent-diffusion flux code (calc_b_ij, the J_ij loop of find_J,
the interface loop of multi_D, the mole bookkeeping at the end of diffuse_implicit, add_MCD_moles).

Every unit executes the real function / loop body / region from an ARBITRARY state (Engine B) and compares call events and
final terms with what the property statement demands; see the docstring of each unit for its contract."""
import re
from props.common import *
from vf.core import FAILED, DISCHARGED, UNDECIDED, Undecided

TR = "src/phreeqcpp/transport.cpp"
KIN = "src/phreeqcpp/kinetics.cpp"
GS = "src/phreeqcpp/global_structures.h"
I = lambda v: tm.num(v, "I")
R = lambda v: tm.num(v)


def macro(name):
    """value of an integer #define of global_structures.h (DISP, STAG, NOMIX, MIX_BS, TRUE, ...)"""
    m = re.search(r"^\s*#define\s+%s\s+(-?\d+)\b" % name, src(GS).decode("latin1"), re.M)
    if not m:
        raise Undecided("macro %s not found in global_structures.h" % name)
    return int(m.group(1))


_MEMO = {}


def proved(hyps, goal):
    if goal is tm.TRUE:
        return True
    hyps = list(hyps)
    if goal in hyps:
        return True
    if tm.not_(goal) in hyps:
        return False if B.z3_sat(hyps) != "unsat" else True
    key = (frozenset(hyps), goal)
    if key not in _MEMO:
        _MEMO[key] = B.z3_prove(hyps, goal, timeout_ms=8000)[0] == "proved"
    return _MEMO[key]


def refuted(hyps, goal):
    return B.z3_prove(list(hyps), goal, timeout_ms=8000)[0] == "refuted"


def same(hyps, a, b):
    """a == b under hyps (terms of any scalar sort)"""
    if a is b:
        return True
    try:
        return proved(hyps, tm.eq(a, b))
    except Exception:
        return False


def split(hyps, conds):
    """case analysis: the list of hypothesis sets hyps + (c or not c) for every condition the path leaves open (satisfiable cases only)"""
    out = [list(hyps)]
    for c in conds:
        nxt = []
        nc = tm.not_(c)
        for h in out:
            if c in h or nc in h or proved(h, c) or proved(h, nc):
                nxt.append(h); continue
            for cc in (c, tm.not_(c)):
                if B.z3_sat(h + [cc]) != "unsat":
                    nxt.append(h + [cc])
        out = nxt
    return out


import threading
_TW = threading.local()


class _StopTwin(Exception):
    def __init__(self, r):
        Exception.__init__(self, "twin failed")
        self.r = r


def fast_twin(f):
    """the must-fail twin only has to exhibit ONE failing obligation: stop the perturbed run at the first failure"""
    def g(twin=False):
        if not twin:
            return f()
        _TW.on = True
        try:
            return f(twin=True)
        except _StopTwin as e:
            return e.r
        finally:
            _TW.on = False
    g.__doc__ = f.__doc__
    return g


class Agg(object):
    """one obligation per name over all paths: FAILED if it fails on some path, UNDECIDED if undecided on some and failing on none"""
    def __init__(self, r):
        self.r, self.d, self.order = r, {}, []

    def put(self, name, ok, detail="", kind="post"):
        if name not in self.d:
            self.d[name] = [0, 0, 0, "", kind]; self.order.append(name)
        e = self.d[name]
        if ok is True:
            e[0] += 1
        elif ok is False:
            e[1] += 1
            e[3] = e[3] or str(detail)[:400]
            if getattr(_TW, "on", False):
                self.flush()
                raise _StopTwin(self.r)
        else:
            e[2] += 1
            e[3] = e[3] or str(detail)[:400]

    def eq(self, name, hyps, a, b, kind="post"):
        """real/integer equality, sympy first for field identities then z3"""
        if a is b:
            return self.put(name, True, kind=kind)
        try:
            ok, res, _ = B.sympy_equal(a, b)
            if ok:
                return self.put(name, True, kind=kind)
        except Exception:
            res = "not a field term"
        st = B.z3_prove(list(hyps), tm.eq(a, b), timeout_ms=8000)[0]
        if st == "proved":
            return self.put(name, True, kind=kind)
        self.put(name, False if (st == "refuted" or (res and not str(res).startswith("not a field"))) else None, "code %r  spec %r  residue %s" % (a, b, res), kind=kind)

    def valid(self, name, hyps, goal, kind="post"):
        st = B.z3_prove(list(hyps), goal, timeout_ms=8000)[0] if goal is not tm.TRUE else "proved"
        self.put(name, True if st == "proved" else (False if st == "refuted" else None), "goal %r" % (goal,), kind=kind)

    def flush(self):
        for name in self.order:
            ok, bad, und, det, kind = self.d[name]
            st = FAILED if bad else (UNDECIDED if und else DISCHARGED)
            self.r.add(name, st, "symex+z3", 0, ("%d paths ok, %d failing, %d undecided. " % (ok, bad, und)) + det, kind=kind)


def evs(s, short, iteration=True):
    es = U.iter_events(s) if iteration else s.events
    return [e for e in es if e.name.split("::")[-1] == short]


def pos(s, e, iteration=True):
    es = U.iter_events(s) if iteration else s.events
    return next(k for k, x in enumerate(es) if x is e)


def state_head(r, rel, qual, loops, k, init, cond, why, name):
    """the unit states the loop head itself (ascending unit steps from `init` while `cond`) and exempts it from the generic
    'canonical full traversal' test of the driver"""
    lp = loops[k]
    ti, tc, tn = text_of(rel, lp["inner"][0]).rstrip(";"), text_of(rel, lp["inner"][2]), text_of(rel, lp["inner"][3])
    v = init.split("=")[0]
    ok = ti == init and tc in cond and tn in (v + "++", "++" + v, v + "+=1")
    r.add(name, DISCHARGED if ok else FAILED, "syntactic", 0, "for (%s; %s; %s)" % (ti, tc, tn), kind="establishment")
    if not hasattr(r, "head_exempt"):
        r.head_exempt = {}
    r.head_exempt[(qual, k)] = why


def reach(r, name, n, need=1):
    r.add("reach." + name, DISCHARGED if n >= need else UNDECIDED, "symex", 0, "%d paths" % n, kind="vacuity")


def _mix_stag_interior(ag, s, hy, info, kspec, i_, n_, impl, mD, nstag, pim, rr, sw, md, STAG, NOMIX):
    want = tm.app("call:Rxn_find", (tm.NULL, tm.app("fld:Rxn_solution_map", (THIS,), "P"), kspec), "P")
    ag.put("interior.partner_is_solution_i+1+n*count_cells", same(hy, pim, want), "ptr_imm = %r" % (pim,))
    ag.put("interior.partner_reacted_exactly_once", len(rr) == 1, "%d run_reactions" % len(rr))
    if len(rr) != 1:
        return
    e = rr[0]
    ag.put("interior.partner_reacted_as_cell_k", same(hy, e.args[0], kspec), e)
    ag.put("interior.partner_time_step_and_fraction_are_the_callers", e.args[1] is tm.sym("L_kin_time", "R") and e.args[3] is tm.sym("L_step_fraction", "R"), e)
    is_impl = proved(hy, tm.not_(tm.eq(impl, I(0))))
    ag.put("interior.partner_uses_its_own_stagnant_mix(STAG;NOMIX_when_implicit)", same(hy, e.args[2], I(NOMIX if is_impl else STAG)), e)
    ag.put("interior.cell_no==k_while_partner_is_reacted", same(hy, e.snap["cell_no"], kspec), e.snap)
    # result saved before anything else is run
    after = U.iter_events(s)[pos(s, e) + 1:]
    nxt = [x for x in after if x.name.split("::")[-1] in ("saver", "run_reactions", "set_and_run_wrapper", "multi_D")]
    ag.put("interior.partner_result_saved_next", bool(nxt) and nxt[0].name.endswith("saver"), [x.name for x in nxt][:3])
    for x in after:
        if x.name.endswith("fill_spec"):
            ag.put("interior.species_table_refreshed_for_cell_k", same(hy, x.args[0], kspec), x)
    # mobile side
    stag_sw = [x for x in sw if not same(hy, x.args[1], I(NOMIX))]
    first = proved(hy, tm.eq(n_, I(1)))
    does_mobile = first and (not is_impl or proved(hy, tm.lt(I(1), nstag)))
    if not does_mobile:
        ag.put("interior.mobile_cell_not_mixed_again(n>1_or_implicit_single_layer)", not stag_sw and not md, [x.args for x in stag_sw + md])
        ag.put("interior.nothing_else_run", not sw, [x.args for x in sw])
        return
    ag.put("interior.mobile_cell_mixed_exactly_once", len(stag_sw) == 1, [x.args for x in stag_sw])
    if len(stag_sw) != 1:
        return
    m = stag_sw[0]
    ag.put("interior.mobile_mixed_as_cell_i_with_its_own_mix(STAG)", same(hy, m.args[0], i_) and same(hy, m.args[1], I(STAG)), m)
    ag.put("interior.mobile_mix_saved_to_scratch_-2_without_kinetics_or_reaction_step", same(hy, m.args[3], I(-2)) and same(hy, m.args[2], I(0)) and same(hy, m.args[4], R(0)), m)
    ag.put("interior.cell_no==i_while_mobile_is_mixed", same(hy, m.snap["cell_no"], i_), m.snap)
    ag.put("interior.mobile_mix_precedes_partner", pos(s, m) < pos(s, e), "")
    a2 = [x for x in U.iter_events(s)[pos(s, m) + 1:] if x.name.split("::")[-1] in ("saver", "run_reactions", "set_and_run_wrapper", "multi_D")]
    ag.put("interior.mobile_result_saved_next", bool(a2) and a2[0].name.endswith("saver"), [x.name for x in a2][:3])
    if proved(hy, tm.eq(mD, I(1))):
        okm = len(md) == 1 and same(hy, md[0].args[1], i_) and same(hy, md[0].args[0], R(1)) and same(hy, md[0].args[2], I(2)) and pos(s, md[0]) < pos(s, m)
        ag.put("interior.MCD_exchange_multi_D(1,i,2)_once_before_the_mobile_equilibration", okm, md)
    else:
        ag.put("interior.no_MCD_exchange_without_multi_D", not md, md)
    # nothing else is mixed: the remaining equilibrations are NOMIX of cell x saved into x
    for x in sw:
        if x is m:
            continue
        ag.put("interior.other_equilibrations_are_NOMIX_of_x_saved_in_x", same(hy, x.args[1], I(NOMIX)) and same(hy, x.args[0], x.args[3]) and (same(hy, x.args[0], i_) or same(hy, x.args[0], kspec)), x)


# ------------------------------------------------------------------------------------------------------------ mix_stag
def unit_mix_stag(twin=False):
    """Phreeqc::mix_stag(i, kin_time, punch, step_fraction), one pass of the layer loop (n arbitrary) and one pass of the final
    copy loop, from an arbitrary state.  Contract (interior mobile cell i, layer n):
      * the immobile partner is cell k = i + 1 + n*count_cells of the solution store;
      * if it exists: it is reacted/mixed exactly once, as cell k, with ITS OWN stored mix (run_reactions(k, kin_time, STAG, ..),
        NOMIX when the implicit scheme has done the exchange), and the result is saved (saver) before anything else is run;
      * the mobile cell is mixed exactly once per call (n == 1 only), as cell i with ITS OWN stored mix, into scratch cell -2
        (set_and_run_wrapper(i, STAG, FALSE, -2, 0)), preceded by multi_D(1, i, 2) iff multicomponent diffusion is on;
      * nothing else is mixed: every other equilibration in the pass is NOMIX of cell x saved into x;
      * if the partner does not exist nothing is run or saved;
      * copy loop, explicit scheme: immobile cell k := scratch -2-k, and (n == 1) mobile cell i := scratch -2; nothing else is copied;
        implicit scheme: the partner was saved in place, nothing is copied over it (scratch -2-k would be stale).
        (This clause failed on the tree as found - the copy was unconditional; natively confirmed by /var/tmp/agent_3_out/demo/stale.cpp:
        an explicit stagnant TRANSPORT followed by an implicit one in the same session lost 96 % of the immobile cells' potassium -
        and was repaired by /repo commit afdcdd1d, which guards the copy with `if (!implicit)`.)
    The scratch numbers are tied to run_reactions by unit C11.run_reactions.scratch_cell_numbers."""
    q = "Phreeqc::mix_stag"
    fn = A.find_function(TR, q)
    r = U.new_unit("C11.mix_stag.each_cell_mixed_once_with_its_own_record_and_both_sides_updated", TR, q, fn)
    STAG, NOMIX = macro("STAG"), macro("NOMIX")
    c = ctx(functional=("Rxn_find",))
    c.snapshot = {"run_reactions": [("cell_no", "I")], "set_and_run_wrapper": [("cell_no", "I")], "fill_spec": [("cell_no", "I")]}
    k0 = loop_ordinal(fn, TR, init_text="n=1", nth=0)
    f, ex, its, info = U.run_loop_isolated(TR, q, k0, ctx=c)
    ag = Agg(r)
    i_, n_ = tm.sym("L_i", "I"), tm.sym("iter_n", "I")
    n_int = n_imm = n_none = n_bnd = 0
    for s in live(its, ("run", "cont")):
        hy = list(s.pc)
        cc = fld0(ex, s, "count_cells", "I")
        impl = fld0(ex, s, "implicit", "I")
        mD = fld0(ex, s, "multi_Dflag", "I")
        nstag = tm.select(entry_arr(ex, s, ("f", "count_stag", "I")), tm.app("fld:stag_data", (THIS,), "P"))
        interior = proved(hy, tm.and_(tm.not_(tm.eq(i_, I(0))), tm.not_(tm.eq(i_, cc + 1))))
        rr, sw, sv, md = evs(s, "run_reactions"), evs(s, "set_and_run_wrapper"), evs(s, "saver"), evs(s, "multi_D")
        pim = local(info, s, "ptr_imm")
        kk = local(info, s, "k")
        if not interior:
            n_bnd += 1
            # boundary cells (0 and count_cells + 1): whatever partner the stored mix of the boundary cell names; same discipline
            for e in rr:
                ag.put("boundary.partner_is_reacted_as_the_cell_found(k)", same(hy, e.args[0], kk), e)
            for e in sw:
                if tm.isnum(e.args[1]) and e.args[1].args[0] == STAG:
                    ag.put("boundary.mobile_side_mixed_as_cell_i_into_scratch_-2", same(hy, e.args[0], i_) and same(hy, e.args[3], I(-2)), e)
            continue
        n_int += 1
        kspec = i_ + 1 + n_ * cc if not twin else i_ + n_ * cc
        if pim.op == "sym" and not proved(hy, tm.eq(pim, tm.NULL)):
            # partner pointer left over from an earlier pass (k >= all_cells): excluded by all_cells = (1 + count_stag)*count_cells + 2
            continue
        for hy0 in split(hy, [tm.eq(pim, tm.NULL)]):
            if proved(hy0, tm.eq(pim, tm.NULL)):
                n_none += 1
                ag.put("no_partner.nothing_is_run_or_saved", not rr and not sw and not sv and not md, [e.name for e in rr + sw + sv + md])
                continue
            n_imm += 1
            for hy1 in split(hy0, [tm.eq(impl, I(0)), tm.eq(n_, I(1)), tm.lt(I(1), nstag), tm.eq(mD, I(1))]):
                _mix_stag_interior(ag, s, hy1, info, kspec, i_, n_, impl, mD, nstag, pim, rr, sw, md, STAG, NOMIX)
        continue
        for hy in split(list(s.pc), [tm.eq(impl, I(0)), tm.eq(n_, I(1)), tm.lt(I(1), nstag), tm.eq(mD, I(1))]):
            _mix_stag_interior(ag, s, hy, info, kspec, i_, n_, impl, mD, nstag, pim, rr, sw, md, STAG, NOMIX)
    reach(r, "layer_pass.interior", n_int, 8); reach(r, "layer_pass.partner_present", n_imm, 8); reach(r, "layer_pass.partner_absent", n_none); reach(r, "layer_pass.boundary", n_bnd)
    # ---- final copy loop
    k1 = loop_ordinal(fn, TR, init_text="n=1", nth=1)
    f, ex, its, info = U.run_loop_isolated(TR, q, k1, ctx=ctx(functional=("Rxn_find",)))
    ncp = 0
    smap = tm.app("fld:Rxn_solution_map", (THIS,), "P")
    for s in live(its, ("run", "cont")):
        hy = list(s.pc)
        cc = fld0(ex, s, "count_cells", "I"); impl = fld0(ex, s, "implicit", "I")
        kspec = i_ + 1 + n_ * cc
        cp = evs(s, "Rxn_copy")
        found = tm.app("call:Rxn_find", (tm.NULL, smap, kspec), "P")
        lk = [e for e in evs(s, "Rxn_find")]
        ag.put("copy.partner_looked_up_at_i+1+n*count_cells", len(lk) == 1 and same(hy, lk[0].args[1], kspec) and lk[0].args[0] is smap, lk)
        if proved(hy, tm.eq(found, tm.NULL)):
            ag.put("copy.nothing_copied_when_partner_absent", not cp, cp); continue
        ncp += 1
        for hy in split(list(s.pc), [tm.eq(n_, I(1)), tm.eq(impl, I(0))]):
            ag.put("copy.all_copies_within_the_solution_store", all(e.args[0] is smap for e in cp), cp)
            imm = [e for e in cp if same(hy, e.args[2], kspec)]
            if proved(hy, tm.eq(impl, I(0))):
                ag.put("copy.explicit_scheme:immobile_cell_k_receives_scratch_-2-k(written_by_run_reactions(k,STAG)_in_this_call)", len(imm) == 1 and same(hy, imm[0].args[1], I(-2) - kspec), cp)
            else:
                # implicit scheme: the layer pass reacted k with NOMIX, i.e. saved it IN PLACE (run_reactions: nsaver = k); scratch -2-k was not
                # written in this call, so whatever it holds is left over from an earlier run and must not replace cell k
                ag.put("copy.implicit_scheme:partner_was_saved_in_place->no_stale_scratch_-2-k_copied_over_cell_k", not imm, cp)
            rest = [e for e in cp if e not in imm]
            if proved(hy, tm.and_(tm.eq(n_, I(1)), tm.eq(impl, I(0)))):
                ag.put("copy.mobile_cell_i_receives_scratch_-2(first_layer,explicit)", len(rest) == 1 and same(hy, rest[0].args[1], I(-2)) and same(hy, rest[0].args[2], i_), cp)
            else:
                ag.put("copy.nothing_else_copied", not rest, rest)
    reach(r, "copy_pass.partner_present", ncp, 2)
    ag.flush()
    r.assumptions += ["callees (run_reactions, set_and_run_wrapper, saver, multi_D, fill_spec, Rxn_copy, Rxn_find) by name and arguments; Rxn_find(map, key) is a function of the store and the key",
                      "all_cells = (1 + count_stag)*count_cells + 2 (read_transport), hence i + 1 + n*count_cells < all_cells for every layer: paths that keep a partner pointer from an earlier pass are excluded",
                      "STAG/NOMIX values read from global_structures.h", "done_mixing guard of the copy loop and the heat exchange block (temperatures) are not under this contract",
                      "the induction over the passes is stated, not mechanised; machine integers as mathematical integers"]
    return r


UNITS = [
    ("C11.mix_stag.each_cell_mixed_once_with_its_own_record_and_both_sides_updated", unit_mix_stag),
]


# ------------------------------------------------------------------------------------ set_transport / set_advection
FAMILIES = [  # (use-name, store, has a save record)
    ("pp_assemblage", "Rxn_pp_assemblage_map", True), ("reaction", "Rxn_reaction_map", False), ("exchange", "Rxn_exchange_map", True),
    ("surface", "Rxn_surface_map", True), ("temperature", "Rxn_temperature_map", False), ("pressure", "Rxn_pressure_map", False),
    ("gas_phase", "Rxn_gas_phase_map", True), ("ss_assemblage", "Rxn_ss_assemblage_map", True)]


def _top(fn):
    return [x for x in A.body_of(fn).get("inner", [])]


def _find_of(store, key):
    return tm.app("call:Rxn_find", (tm.NULL, tm.app("fld:" + store, (THIS,), "P"), key), "P")


def _save(ex, s, name):
    return tm.select(ex.heap_arr(s, ("f", name, "I")), tm.app("fld:save", (THIS,), "P"))


def _is_true(v):
    return v is tm.TRUE or (tm.isnum(v) and v.args[0] == 1)


def _is_false(v):
    return v is tm.FALSE or (tm.isnum(v) and v.args[0] == 0)


def unit_set_cell(which, twin=False):
    """Phreeqc::set_transport / set_advection(i, use_mix, use_kinetics, nsaver): the reactants the next equilibration uses and the
    numbers its result is saved under.  Contract, per family X (pure phases, reaction, exchange, surface, temperature, pressure,
    gas, solid solutions, kinetics): the pointer handed to `use` is the entry of X's OWN store under key i; if it exists X is
    switched on under number i and (where X is saved) saved back under number i, else switched off and not saved.  Solution: saved
    under nsaver.  Mixing record (set_transport): DISP -> Dispersion_mix_map[i]; STAG without multicomponent diffusion, or MIX_BS ->
    Rxn_mix_map[i] when present; otherwise no mix and solution i itself.  (set_advection: Rxn_mix_map[i] iff use_mix == TRUE and present.)"""
    q = "Phreeqc::" + which
    fn = A.find_function(KIN, q)
    uid = "C11.%s.cell_i_reactants_from_their_own_stores_saved_under_i_solution_under_nsaver" % which
    r = U.new_unit(uid, KIN, q, fn)
    ag = Agg(r)
    top = _top(fn)
    txt = [text_of(KIN, x) for x in top]
    i_, ns = tm.sym("L_i", "I"), tm.sym("L_nsaver", "I")
    mk = lambda: ctx(functional=("Rxn_find",) + tuple("Get_%s_ptr" % f[0] for f in FAMILIES) + ("Get_kinetics_ptr", "Get_mix_ptr", "Get_solution_ptr"))
    nfam = 0
    for fam, store, saved in FAMILIES + [("kinetics", "Rxn_kinetics_map", True)]:
        idx = [k for k, t in enumerate(txt) if t.startswith("use.Set_%s_ptr(" % fam)]
        if not idx:
            raise Undecided("no top-level use.Set_%s_ptr(...) in %s" % (fam, which))
        a = idx[0]
        b = next((k for k in range(a, len(top)) if top[k].get("kind") == "IfStmt"), None)
        if b is None:
            raise Undecided("no if-statement after use.Set_%s_ptr in %s" % (fam, which))
        f, ex, fin, info = region(KIN, q, top[a:b + 1], mk())
        found_t = _find_of(store if not (twin and fam == "exchange") else "Rxn_surface_map", i_)
        for s in live(fin):
            nfam += 1
            hy = list(s.pc)
            sp = evs(s, "Set_%s_ptr" % fam, iteration=False)
            got = sp[-1].args[0] if sp else None
            uk = tm.sym("L_use_kinetics", "I")
            getp = tm.app("call:Get_%s_ptr" % fam, (tm.app("fld:use", (THIS,), "P"),), "P")
            sin = evs(s, "Set_%s_in" % fam, False)
            snu = evs(s, "Set_n_%s_user" % fam, False)
            for hy1 in split(hy, ([tm.eq(uk, I(macro("TRUE")))] if fam == "kinetics" else []) + [tm.eq(getp, tm.NULL)]):
                if fam == "kinetics" and not proved(hy1, tm.eq(uk, I(macro("TRUE")))):
                    ag.put("kinetics.off_unless_asked_for", got is not None and same(hy1, got, tm.NULL) and bool(sin) and _is_false(sin[-1].args[0]) and same(hy1, _save(ex, s, "kinetics"), I(0)), sp)
                    continue
                ag.put("%s.pointer_is_entry_i_of_its_own_store" % fam, got is not None and same(hy1, got, found_t), "got %r want %r" % (got, found_t))
                if proved(hy1, tm.not_(tm.eq(getp, tm.NULL))):
                    ag.put("%s.present->switched_on_under_number_i" % fam, bool(sin) and _is_true(sin[-1].args[0]) and bool(snu) and same(hy1, snu[-1].args[0], i_), sin + snu)
                    if saved:
                        ag.put("%s.present->saved_back_under_number_i" % fam, same(hy1, _save(ex, s, fam), I(1)) and same(hy1, _save(ex, s, "n_%s_user" % fam), i_) and same(hy1, _save(ex, s, "n_%s_user_end" % fam), i_),
                               (_save(ex, s, fam), _save(ex, s, "n_%s_user" % fam), _save(ex, s, "n_%s_user_end" % fam)))
                else:
                    ag.put("%s.absent->switched_off" % fam, bool(sin) and _is_false(sin[-1].args[0]) and not snu, sin + snu)
                    if saved:
                        ag.put("%s.absent->not_saved" % fam, same(hy1, _save(ex, s, fam), I(0)), _save(ex, s, fam))
    reach(r, "family_blocks", nfam, 18)
    # ---- solution / mix block: from the start to the statement that sets save.n_solution_user_end
    e_ = next((k for k, t in enumerate(txt) if t.startswith("save.n_solution_user_end=")), None)
    if e_ is None:
        raise Undecided("save.n_solution_user_end assignment not found at top level of %s" % which)
    f, ex, fin, info = region(KIN, q, top[:e_ + 1], mk())
    um = tm.sym("L_use_mix", "I")
    mD = None
    nmix = 0
    DISP, STAG, MIX_BS, TRUE_ = macro("DISP"), macro("STAG"), macro("MIX_BS"), macro("TRUE")
    for s in live(fin):
        mD = fld0(ex, s, "multi_Dflag", "I")
        conds = [tm.eq(um, I(DISP)), tm.eq(um, I(STAG)), tm.eq(um, I(MIX_BS)), tm.eq(mD, I(TRUE_))] if which == "set_transport" else [tm.eq(um, I(TRUE_))]
        getm = tm.app("call:Get_mix_ptr", (tm.app("fld:use", (THIS,), "P"),), "P")
        for hy in split(list(s.pc), conds + [tm.eq(getm, tm.NULL)]):
            nmix += 1
            ag.put("solution.saved_under_nsaver", same(hy, _save(ex, s, "solution"), I(1)) and same(hy, _save(ex, s, "n_solution_user"), ns) and same(hy, _save(ex, s, "n_solution_user_end"), ns),
                   (_save(ex, s, "n_solution_user"), _save(ex, s, "n_solution_user_end")))
            mp = evs(s, "Set_mix_ptr", False); mi = evs(s, "Set_mix_in", False); sp = evs(s, "Set_solution_ptr", False); nu = evs(s, "Set_n_mix_user", False)
            if which == "set_transport":
                disp = proved(hy, tm.eq(um, I(DISP)))
                stored = (proved(hy, tm.eq(um, I(STAG))) and proved(hy, tm.not_(tm.eq(mD, I(TRUE_))))) or proved(hy, tm.eq(um, I(MIX_BS)))
                if twin and stored:
                    stored, disp = False, True
                want_store = "Dispersion_mix_map" if disp else ("Rxn_mix_map" if stored else None)
            else:
                want_store = "Rxn_mix_map"
                disp = False
                stored = proved(hy, tm.eq(um, I(TRUE_)))
            if disp:
                ag.put("mix.DISP->dispersion_record_of_cell_i_switched_on", bool(mp) and same(hy, mp[-1].args[0], _find_of("Dispersion_mix_map", i_)) and bool(mi) and _is_true(mi[-1].args[0]) and bool(nu) and same(hy, nu[-1].args[0], i_), mp + mi + nu)
                ag.put("mix.DISP->no_separate_solution_selected", not sp, sp)
                continue
            if stored:
                ag.put("mix.stored->stored_record_of_cell_i", bool(mp) and same(hy, mp[-1].args[0], _find_of("Rxn_mix_map", i_)), mp)
                if proved(hy, tm.not_(tm.eq(getm, tm.NULL))):
                    ag.put("mix.stored_and_present->switched_on_under_number_i", bool(mi) and _is_true(mi[-1].args[0]) and bool(nu) and same(hy, nu[-1].args[0], i_), mi + nu)
                    continue
            # no mix: solution i itself
            ag.put("nomix.mix_switched_off", bool(mi) and _is_false(mi[-1].args[0]) and (stored or which == "set_advection" or (bool(mp) and same(hy, mp[-1].args[0], tm.NULL))), mp + mi)
            snu = evs(s, "Set_n_solution_user", False); ssi = evs(s, "Set_solution_in", False)
            ag.put("nomix.solution_i_of_the_solution_store_switched_on", bool(sp) and same(hy, sp[-1].args[0], _find_of("Rxn_solution_map", i_)) and bool(snu) and same(hy, snu[-1].args[0], i_) and bool(ssi) and _is_true(ssi[-1].args[0]), sp + snu + ssi)
    reach(r, "mix_cases", nmix, 4 if which == "set_transport" else 2)
    ag.flush()
    r.assumptions += ["use.Get_X_ptr() returns what the last use.Set_X_ptr stored (accessor pair of cxxUse, not under this contract); Rxn_find(store, key) is a function of store and key",
                      "each family block is executed on its own from an arbitrary state (blocks are independent top-level statement groups); located by the text `use.Set_<X>_ptr(` of its first statement",
                      "the error exit for a missing solution is not pinned; DISP/STAG/MIX_BS/TRUE values read from global_structures.h"]
    return r


UNITS += [
    ("C11.set_transport.cell_i_reactants_from_their_own_stores_saved_under_i_solution_under_nsaver", lambda twin=False: unit_set_cell("set_transport", twin)),
    ("C11.set_advection.cell_i_reactants_from_their_own_stores_saved_under_i_solution_under_nsaver", lambda twin=False: unit_set_cell("set_advection", twin)),
]


# ------------------------------------------------------------------------------------------ run_reactions scratch numbers
def unit_run_reactions_nsaver(twin=False):
    """Phreeqc::run_reactions(i, kin_time, use_mix, step_fraction), the block that chooses the number the result is saved under, and the
    two places that use it.  Contract: TRANSPORT/PHAST: DISP -> -2 (the dispersive sweep reads the old neighbours), STAG -> -2 - i (what
    mix_stag copies back), otherwise i; ADVECTION -> -2; any other state -> i.  The equilibration (no kinetics) and rk_kinetics get exactly
    (i, use_mix, nsaver, step_fraction) of this call."""
    q = "Phreeqc::run_reactions"
    fn = A.find_function(KIN, q)
    r = U.new_unit("C11.run_reactions.scratch_cell_numbers(DISP->-2,STAG->-2-i,else_i)", KIN, q, fn)
    top = _top(fn)
    txt = [text_of(KIN, x) for x in top]
    a = next((k for k, t in enumerate(txt) if t.startswith("nsaver=")), None)
    if a is None:
        raise Undecided("nsaver initialisation not found at top level of run_reactions")
    b = a + 1
    while b < len(top) and top[b].get("kind") == "IfStmt" and "nsaver=" in txt[b] and "set_and_run_wrapper" not in txt[b]:
        b += 1
    ag = Agg(r)
    f, ex, fin, info = region(KIN, q, top[a:b], ctx())
    i_, um = tm.sym("L_i", "I"), tm.sym("L_use_mix", "I")
    DISP, STAG = macro("DISP"), macro("STAG")
    TRANSPORT, PHAST, ADVECTION = macro("TRANSPORT"), macro("PHAST"), macro("ADVECTION")
    n = 0
    for s in live(fin):
        st = fld0(ex, s, "state", "I")
        ns = local(info, s, "nsaver")
        for hy in split(list(s.pc), [tm.eq(st, I(TRANSPORT)), tm.eq(st, I(PHAST)), tm.eq(st, I(ADVECTION)), tm.eq(um, I(DISP)), tm.eq(um, I(STAG))]):
            n += 1
            if proved(hy, tm.or_(tm.eq(st, I(TRANSPORT)), tm.eq(st, I(PHAST)))):
                if proved(hy, tm.eq(um, I(DISP))):
                    ag.eq("transport.DISP->scratch_-2", hy, ns, I(-2))
                elif proved(hy, tm.eq(um, I(STAG))):
                    ag.eq("transport.STAG->scratch_-2-i", hy, ns, I(-2) - i_ if not twin else I(-2))
                else:
                    ag.eq("transport.otherwise->cell_i_itself", hy, ns, i_)
            elif proved(hy, tm.eq(st, I(ADVECTION))):
                ag.eq("advection->scratch_-2", hy, ns, I(-2))
            else:
                ag.eq("other_states->cell_i_itself", hy, ns, i_)
    reach(r, "nsaver_cases", n, 5)
    # the two consumers
    for label, short, want in (("equilibration_without_kinetics", "set_and_run_wrapper", lambda e: (e.args[0], e.args[1], e.args[3], e.args[4])),
                               ("rk_kinetics", "rk_kinetics", lambda e: (e.args[0], e.args[2], e.args[3], e.args[4]))):
        cands = [x for x in A.walk(fn) if x.get("kind") in ("CXXMemberCallExpr", "CallExpr") and text_of(KIN, x).startswith(short + "(") and "nsaver" in text_of(KIN, x) and "use_mix" in text_of(KIN, x)]
        if not cands:
            r.add("consumer.%s.found" % label, FAILED, "ast-scan", 0, "no call %s(.., use_mix, .., nsaver, ..) in run_reactions" % short, kind="structural"); continue
        f, ex, fin, info = region(KIN, q, [cands[0]], ctx())
        for s in live(fin):
            e = evs(s, short, False)
            ok = len(e) == 1 and want(e[0]) == (i_, um, tm.sym("L_nsaver", "I"), tm.sym("L_step_fraction", "R"))
            ag.put("consumer.%s.gets(i,use_mix,nsaver,step_fraction)" % label, ok, e)
            if short == "rk_kinetics" and e:
                ag.put("consumer.rk_kinetics.gets_the_callers_time_step", e[0].args[1] is tm.sym("L_kin_time", "R"), e)
            if short == "set_and_run_wrapper" and e:
                ag.put("consumer.equilibration.without_kinetics", same(list(s.pc), e[0].args[2], I(0)), e)
    ag.flush()
    r.assumptions += ["the CVODE branch (which equilibrates into i and restores afterwards) is not under this contract", "state and mode constants read from global_structures.h",
                      "the two consumer calls are located by callee name and by mentioning use_mix and nsaver"]
    return r


UNITS += [("C11.run_reactions.scratch_cell_numbers(DISP->-2,STAG->-2-i,else_i)", unit_run_reactions_nsaver)]


# ------------------------------------------------------------------------------------ dispersive call site of transport()
def _parent_and_index(fn, node):
    for x in A.walk(fn):
        inner = x.get("inner") or []
        for k, c in enumerate(inner):
            if c is node:
                return x, k
    return None, None


def unit_dispersive_call_site(twin=False):
    """Phreeqc::transport(), the two cell sweeps of a mixrun (`for (i = 0; i <= count_cells + 1; i++)` containing run_reactions(.., DISP, ..)),
    one pass for an arbitrary i from an arbitrary state, and the statement after each sweep.  Contract:
      * column cell i (1..count_cells) is mixed exactly once, as cell i, with its own dispersion record (DISP), with the caller's
        sub-step time and step fraction, while cell_no == i;
      * its result (scratch -2, see run_reactions) is saved once, and the PREVIOUS cell's result is moved from scratch -2 into
        cell i-1 after cell i has been mixed and before cell i's result is saved (so every cell is mixed with the old neighbours);
        no move for i <= 1;
      * boundary cells 0 and count_cells+1: untouched (nothing run, saved or copied) unless an electrical field (dV_dcell) or the
        implicit scheme is active, then reacted in place without dispersion record (MIX_BS resp. NOMIX);
      * after the sweep, without electrical field, cell count_cells receives scratch -2."""
    q = "Phreeqc::transport"
    fn = A.find_function(TR, q)
    r = U.new_unit("C11.transport.dispersive_sweep_mixes_each_cell_once_with_old_neighbours", TR, q, fn)
    DISP, NOMIX, MIX_BS = macro("DISP"), macro("NOMIX"), macro("MIX_BS")
    loops = [x for x in A.walk(fn) if x.get("kind") in ("ForStmt", "WhileStmt", "DoStmt")]
    def has_rr(lp):
        return any(c.get("kind") == "CXXMemberCallExpr" and text_of(TR, c).startswith("run_reactions(") for c in A.walk(lp["inner"][-1]))
    # the sweeps: for-loops over the cells INCLUDING both boundary cells (condition mentions count_cells+1) that react cells
    def body_has(lp, txt):
        return txt in text_of(TR, lp["inner"][-1])
    sweeps = [k for k, lp in enumerate(loops) if lp.get("kind") == "ForStmt" and has_rr(lp) and body_has(lp, "Rxn_copy(Rxn_solution_map,") and body_has(lp, "saver()")
              and not any(l2.get("kind") in ("ForStmt", "WhileStmt") and l2 is not lp and has_rr(l2) for l2 in A.walk(lp["inner"][-1]))]
    r.add("reach.sweeps_found", DISCHARGED if len(sweeps) == 2 else UNDECIDED, "ast-scan", 0, "%d cell sweeps 0..count_cells+1 that call run_reactions" % len(sweeps), kind="vacuity")
    if not sweeps:
        raise Undecided("no dispersive sweep found in transport()")
    ag = Agg(r)
    smap = tm.app("fld:Rxn_solution_map", (THIS,), "P")
    for j, k in enumerate(sweeps):
        c = ctx()
        c.snapshot = {"run_reactions": [("cell_no", "I")]}
        f, ex, its, info = U.run_loop_isolated(TR, q, k, ctx=c)
        i_ = tm.sym("iter_i", "I")
        tag = "sweep%d" % j
        nin = nb = 0
        for s in live(its, ("run", "cont")):
            cc = fld0(ex, s, "count_cells", "I"); dV = tm.sym("G.dV_dcell", "R"); impl = fld0(ex, s, "implicit", "I"); mD = fld0(ex, s, "multi_Dflag", "I")
            rr, sv, cp, fs = evs(s, "run_reactions"), evs(s, "saver"), evs(s, "Rxn_copy"), evs(s, "fill_spec")
            kt, sf = local(info, s, "kin_time"), local(info, s, "step_fraction")
            for hy in split(list(s.pc), [tm.eq(i_, I(0)), tm.eq(i_, cc + 1), tm.eq(dV, R(0)), tm.eq(impl, I(0)), tm.lt(I(1), i_)]):
                bnd = proved(hy, tm.or_(tm.eq(i_, I(0)), tm.eq(i_, cc + 1)))
                if bnd and proved(hy, tm.and_(tm.eq(dV, R(0)), tm.eq(impl, I(0)))):
                    nb += 1
                    ag.put(tag + ".boundary_cell_untouched(no_field,explicit)", not rr and not sv and not cp and not evs(s, "set_and_run_wrapper"), rr + sv + cp)
                    continue
                ag.put(tag + ".cell_reacted_exactly_once", len(rr) == 1, rr)
                if len(rr) != 1:
                    continue
                e = rr[0]
                if bnd:
                    nb += 1
                    mode = MIX_BS if proved(hy, tm.not_(tm.eq(dV, R(0)))) else NOMIX
                    ag.put(tag + ".boundary_cell_reacted_in_place(MIX_BS_with_field,else_NOMIX)", same(hy, e.args[0], i_) and same(hy, e.args[2], I(mode)), e)
                else:
                    nin += 1
                    ag.put(tag + ".column_cell_mixed_as_cell_i_with_its_dispersion_record(DISP)", same(hy, e.args[0], i_) and same(hy, e.args[2], I(DISP if not twin else NOMIX)), e)
                ag.put(tag + ".sub_step_time_and_step_fraction_of_this_mixrun", e.args[1] is kt and e.args[3] is sf, e)
                ag.put(tag + ".cell_no==i_while_reacted", same(hy, e.snap["cell_no"], i_), e.snap)
                ag.put(tag + ".result_saved_exactly_once_afterwards", len(sv) == 1 and pos(s, sv[0]) > pos(s, e), sv)
                if proved(hy, tm.lt(I(1), i_)):
                    okc = len(cp) == 1 and cp[0].args[0] is smap and same(hy, cp[0].args[1], I(-2)) and same(hy, cp[0].args[2], i_ - 1)
                    ag.put(tag + ".previous_result_moved_scratch_-2->cell_i-1", okc, cp)
                    if okc and len(sv) == 1:
                        ag.put(tag + ".move_is_after_mixing_cell_i_and_before_saving_it", pos(s, e) < pos(s, cp[0]) < pos(s, sv[0]), "")
                else:
                    ag.put(tag + ".no_move_for_i<=1", not cp, cp)
                for x in fs:
                    ag.put(tag + ".species_table_refreshed_for_cell_i_before_saving", same(hy, x.args[0], i_) and (len(sv) != 1 or pos(s, e) < pos(s, x) < pos(s, sv[0])), x)
                if proved(hy, tm.eq(mD, I(macro("TRUE")))):
                    ag.put(tag + ".species_table_refreshed_when_multi_D", len(fs) == 1, fs)
        reach(r, tag + ".column_cells", nin, 2); reach(r, tag + ".boundary_cells", nb, 2)
        state_head(r, TR, q, loops, k, "i=0", ("i<=count_cells+1", "i<count_cells+2"), "the sweep visits 0 .. count_cells+1 (both boundary cells) in ascending unit steps: stated by the unit",
                   tag + ".header_visits_0..count_cells+1_ascending")
        # statement after the sweep
        par, idx = _parent_and_index(fn, loops[k])
        nxt = par["inner"][idx + 1] if par is not None and idx + 1 < len(par["inner"]) else None
        if nxt is None:
            r.add(tag + ".statement_after_sweep_found", UNDECIDED, "ast-scan", 0, "", kind="structural"); continue
        f, ex, fin, info = region(TR, q, [nxt], ctx())
        for s in live(fin):
            cc = fld0(ex, s, "count_cells", "I"); dV = tm.sym("G.dV_dcell", "R")
            cp = evs(s, "Rxn_copy", False)
            for hy in split(list(s.pc), [tm.eq(dV, R(0))]):
                if proved(hy, tm.eq(dV, R(0))):
                    ag.put(tag + ".after_sweep.last_column_cell_receives_scratch_-2(no_field)", len(cp) == 1 and cp[0].args[0] is smap and same(hy, cp[0].args[1], I(-2)) and same(hy, cp[0].args[2], cc), cp)
                else:
                    ag.put(tag + ".after_sweep.nothing_copied_with_field(done_in_the_sweep)", not cp, cp)
    ag.flush()
    r.assumptions += ["run_reactions(i, t, DISP, f) mixes cell i with Dispersion_mix_map[i] and leaves the result under scratch -2 (units C11.set_transport.*, C11.run_reactions.scratch_cell_numbers)",
                      "saver() stores the last result under save.n_solution_user; Rxn_copy by its contract (C14)", "the sweeps are located as the innermost for-loops whose body reacts a cell, moves a scratch solution (Rxn_copy) and saves", "dV_dcell is the file-level variable of transport.cpp; multi_Dflag is TRUE or FALSE",
                      "that the sweep header visits 0..count_cells+1 in ascending order once is read from the header, not proved; the mixrun loops around it are not under this contract"]
    return r


UNITS += [("C11.transport.dispersive_sweep_mixes_each_cell_once_with_old_neighbours", unit_dispersive_call_site)]


# ------------------------------------------------------------------------- mobile/immobile mix records built in transport()
def _stag(ex, s, name, sort="R"):
    return tm.select(entry_arr(ex, s, ("f", name, sort)), tm.app("fld:stag_data", (THIS,), "P"))


def _apps(t, fname):
    return [x for x in tm.subterms(t) if x.op == "app" and x.args[0] == fname]


def unit_stagnant_mix_records(twin=False):
    """Phreeqc::transport(), the block that builds the first-order mobile/immobile exchange (TRANSPORT -stagnant 1 alpha th_m th_im).
    (a) the two factors are the manual's:  beta = th_m/(th_m+th_im),  mixf_im = beta*(1 - exp(-alpha*t/(beta*th_im))),
        mixf_m = mixf_im*th_im/th_m   (so that th_m*mixf_m == th_im*mixf_im: what the mobile pore volume loses the immobile one gains);
    (b) one pass of the cell loop: cell j gets the record {j: 1-mixf_m, j_im: mixf_m*W_m/W_im}, cell j_im = j+1+count_cells gets
        {j_im: 1-mixf_im, j: mixf_im*W_im/W_m}, stored under their own numbers; with add_solution scaling whole solutions this keeps the
        water of both cells, and - when the water ratio equals the porosity ratio - the sum of every solute over the two cells."""
    q = "Phreeqc::transport"
    fn = A.find_function(TR, q)
    r = U.new_unit("C11.transport.stagnant_mix_records_conserve_water_and_solute", TR, q, fn)
    ag = Agg(r)
    blocks = [x for x in A.walk(fn) if x.get("kind") == "IfStmt" and "mix_f_imm=" in text_of(TR, x["inner"][1]) and "temp_mix.Add(" in text_of(TR, x["inner"][1])]
    if len(blocks) != 1:
        raise Undecided("block defining mix_f_imm not found (%d)" % len(blocks))
    body = blocks[0]["inner"][1].get("inner", [])
    lp = next((k for k, x in enumerate(body) if x.get("kind") == "ForStmt"), None)
    if lp is None or lp == 0:
        raise Undecided("cell loop of the stagnant mix block not found")
    f, ex, fin, info = region(TR, q, body[:lp], ctx())
    na = 0
    for s in live(fin):
        na += 1
        thm, thim, al = _stag(ex, s, "th_m"), _stag(ex, s, "th_im"), _stag(ex, s, "exch_f")
        t = tm.sym("L_stagkin_time", "R")
        fi, fm = local(info, s, "mix_f_imm"), local(info, s, "mix_f_m")
        beta = thm / (thm + thim)
        E = _apps(fi, "exp")
        if len(E) != 1:
            ag.put("factors.one_exponential_in_mixf_im", False, fi); continue
        ag.eq("factors.exponent==-alpha*t/(beta*th_im)", list(s.pc), E[0].args[1], -(al * t) / (beta * thim))
        ag.eq("factors.mixf_im==beta*(1-exp(..))", list(s.pc), fi, beta * (R(1) - E[0]) if not twin else beta * E[0])
        ag.eq("factors.mixf_m==mixf_im*th_im/th_m", list(s.pc), fm, fi * thim / thm)
        ag.eq("factors.pore_volume_balance(th_m*mixf_m==th_im*mixf_im)", list(s.pc), thm * fm, thim * fi)
    reach(r, "factors", na)
    # the guard: the first-order exchange model is built exactly when an exchange factor is given with ONE stagnant layer
    f, ex, fin, info = region(TR, q, [blocks[0]], ctx())
    for s in live(fin):
        taken = local(info, s, "mix_f_imm") is not tm.sym("L_mix_f_imm", "R")
        guard = tm.and_(tm.lt(R(0), _stag(ex, s, "exch_f")), tm.eq(_stag(ex, s, "count_stag", "I"), I(1)))
        ag.valid("guard.records_built_iff_exchange_factor>0_and_exactly_one_stagnant_layer", list(s.pc), guard if taken else tm.not_(guard))
    loops = [x for x in A.walk(fn) if x.get("kind") in ("ForStmt", "WhileStmt", "DoStmt")]
    k = next(i for i, x in enumerate(loops) if x is body[lp])
    f, ex, its, info = U.run_loop_isolated(TR, q, k, ctx=ctx(functional=("Rxn_find", "Get_mass_water")))
    j_ = tm.sym("iter_j", "I")
    smap = tm.app("fld:Rxn_solution_map", (THIS,), "P")
    nb = nskip = 0
    for s in live(its, ("run", "cont")):
        hy = list(s.pc)
        cc = fld0(ex, s, "count_cells", "I")
        jim = j_ + 1 + cc
        adds = evs(s, "Add")
        pim = tm.app("call:Rxn_find", (tm.NULL, smap, jim), "P")
        if proved(hy, tm.eq(pim, tm.NULL)):
            nskip += 1
            ag.put("pass.no_record_without_immobile_solution", not adds and not evs(s, "operator="), adds); continue
        if proved(hy, tm.eq(tm.app("call:Rxn_find", (tm.NULL, smap, j_), "P"), tm.NULL)):
            continue            # error exit (mobile solution missing): not pinned
        nb += 1
        recs = {}
        for e in adds:
            recs.setdefault(e.recv, []).append((e.args[0], e.args[1]))
        ag.put("pass.two_records_of_two_entries", len(recs) == 2 and all(len(v) == 2 for v in recs.values()), adds)
        if not (len(recs) == 2 and all(len(v) == 2 for v in recs.values())):
            continue
        def water_of(cell):
            for e in evs(s, "Get_mass_water"):
                rv = e.recv
                if rv.op == "app" and rv.args[0] == "call:Rxn_find" and rv.args[2] is smap and same(hy, rv.args[3], cell):
                    return e.result
            return None
        Wm, Wi = water_of(j_), water_of(jim)
        ag.put("pass.water_masses_read_from_solutions_j_and_j+1+count_cells", Wm is not None and Wi is not None, evs(s, "Get_mass_water"))
        if Wm is None or Wi is None:
            continue
        fm, fi = tm.sym("L_mix_f_m", "R"), tm.sym("L_mix_f_imm", "R")
        def frac(rec, cell):
            v = [fr for c_, fr in rec if same(hy, c_, cell)]
            return v[0] if len(v) == 1 else None
        owner = {}
        for rv, rec in recs.items():
            nu = [e for e in evs(s, "Set_n_user") if e.recv is rv]
            nue = [e for e in evs(s, "Set_n_user_end") if e.recv is rv]
            st = [e for e in evs(s, "operator=") if e.args and e.args[0] is rv]
            who = "mobile" if nu and same(hy, nu[0].args[0], j_) else ("immobile" if nu and same(hy, nu[0].args[0], jim) else None)
            ag.put("pass.record_numbered_j_or_j+1+count_cells", who is not None and bool(nue) and same(hy, nue[0].args[0], nu[0].args[0]), nu)
            if who is None:
                continue
            owner[who] = rec
            key = j_ if who == "mobile" else jim
            want = tm.app("fld:second", (tm.app("mnode", (tm.app("miter", (tm.app("fld:Rxn_mix_map", (THIS,), "P"), key), "P"),), "P"),), "P")
            ag.put("pass.%s_record_stored_in_Rxn_mix_map_under_its_own_number" % who, len(st) == 1 and (st[0].recv is want or same(hy, st[0].recv, want)), st)
        if set(owner) != {"mobile", "immobile"}:
            continue
        a1, a2 = frac(owner["mobile"], j_), frac(owner["mobile"], jim)
        b1, b2 = frac(owner["immobile"], jim), frac(owner["immobile"], j_)
        ag.put("pass.each_record_mixes_the_cell_with_its_partner_only", None not in (a1, a2, b1, b2), adds)
        if None in (a1, a2, b1, b2):
            continue
        ag.eq("pass.mobile.own_fraction==1-mixf_m", hy, a1, R(1) - fm)
        ag.eq("pass.immobile.own_fraction==1-mixf_im", hy, b1, R(1) - fi)
        ag.eq("pass.mobile.water_kept((1-f)*W_m+f'*W_im==W_m)", hy, a1 * Wm + a2 * Wi, Wm)
        ag.eq("pass.immobile.water_kept", hy, b1 * Wi + b2 * Wm, Wi)
        # solute inventory of the pair, under W_im/W_m == th_im/th_m and th_m*mixf_m == th_im*mixf_im
        thm, thim = tm.sym("th_m", "R"), tm.sym("th_im", "R")
        sub = {Wi: Wm * thim / thm, fm: fi * thim / thm}
        ag.eq("pass.pair_inventory.what_leaves_mobile_enters_immobile(coefficient_of_M_m)", hy, tm.substitute(a1 + b2, sub), R(1))
        ag.eq("pass.pair_inventory.what_leaves_immobile_enters_mobile(coefficient_of_M_im)", hy, tm.substitute(a2 + b1, sub), R(1))
    reach(r, "pass.both_solutions_present", nb); reach(r, "pass.immobile_absent", nskip)
    ag.flush()
    r.assumptions += ["add_mix/add_solution scale a whole solution (water and solutes) by the stored fraction (C02 units)", "retardation factors R_m = R_im = 1 as in the code",
                      "pair inventory is stated under the user's set-up W_im/W_m == th_im/th_m (the code warns otherwise for multi_D); doubles as reals; exp uninterpreted",
                      "oracle for (a): PHREEQC manual, first-order exchange between mobile and immobile zone"]
    return r


UNITS += [("C11.transport.stagnant_mix_records_conserve_water_and_solute", unit_stagnant_mix_records)]


# --------------------------------------------------------------------------------------------- init_heat_mix / heat_mix
def loops_of(fn):
    return [x for x in A.walk(fn) if x.get("kind") in ("ForStmt", "WhileStmt", "DoStmt")]


def loop_where(fn, rel, pred, what):
    ks = [k for k, lp in enumerate(loops_of(fn)) if lp.get("kind") == "ForStmt" and pred(text_of(rel, lp["inner"][0]), text_of(rel, lp["inner"][2]), text_of(rel, lp["inner"][-1]))]
    if not ks:
        raise Undecided("loop not found: " + what)
    return ks


def _arr(ex, s, name, idx, entry=True):
    """value of the LDBLE array member `name` at idx"""
    p = (fld0 if entry else fld)(ex, s, name, "P")
    mem = entry_arr(ex, s, ("m", "R")) if entry else ex.heap_arr(s, ("m", "R"))
    return tm.select(mem, p, idx)


def _cd(ex, s, idx, field, sort="R"):
    """cell_data[idx].field at loop entry (cell_data is a std::vector member)"""
    data = tm.select(entry_arr(ex, s, ("f", "#vdata", "P")), tm.app("fld:cell_data", (THIS,), "P"))
    return data, field


def unit_heat_mix(twin=False):
    """Phreeqc::init_heat_mix(nmix) and Phreeqc::heat_mix(n): thermal diffusion as convex, symmetric mixing.
      * one factor per interface, stored once (heat_mix_array[i+1] for the interface i | i+1), a symmetric function of the two cell
        lengths; the stability bookkeeping sees it (maxmix >= factor; boundary cells: 2*factor with constant boundary, 0 otherwise);
      * explicit scheme: number of heat sub-mixes 1 + floor(3*maxmix) and every factor divided by it, hence f[j] + f[j+1] < 2/3 < 1
        (arithmetic lemma), so the self weight stays positive;
      * heat_mix: new T[j] = a*T[j-1] + b*T[j+1] + (1-a-b)*T[j] with a = f[j]*phi[j], b = f[j+1]*phi[j+1] (phi = viscosity ratio of the
        cell on the far side of the interface with multi_D, else 1): weights sum to one, and cell j takes from j+1 with the SAME
        weight f[j+1]*phi[j+1] with which cell j+1 takes from j (conservative exchange)."""
    q = "Phreeqc::init_heat_mix"
    fn = A.find_function(TR, q)
    r = U.new_unit("C11.heat_mix.symmetric_convex_factors", TR, q, fn)
    ag = Agg(r)
    # ---- interior interfaces
    k = loop_where(fn, TR, lambda i, c, b: "heat_mix_array[" in b and "mixf" in b and "lav" not in c and "/=" not in b and "/l_nmix" not in b, "interior factor loop of init_heat_mix")[0]
    f, ex, its, info = U.run_loop_isolated(TR, q, k, ctx=ctx())
    i_ = tm.sym("iter_i", "I")
    n = 0
    for s in live(its, ("run", "cont")):
        n += 1
        hy = list(s.pc)
        hp = fld0(ex, s, "heat_mix_array", "P")
        w = [(ix, v) for ix, v in writes(s, ("m", "R")) if isinstance(ix, tuple) and ix[0] is hp]
        ag.put("interior.one_factor_written_for_interface_i|i+1_at_index_i+1", len(w) == 1 and same(hy, w[0][0][1], i_ + 1), w)
        if len(w) != 1:
            continue
        val = w[0][1]
        mm = local(info, s, "maxmix")
        ag.valid("interior.maxmix>=factor", hy, tm.le(val, mm))
        # symmetric in the two lengths: swapping cell_data[i].length and cell_data[i+1].length leaves the factor unchanged
        lens = [x for x in tm.subterms(val) if x.op == "select" and x.sort == "R" and x.args[0].op == "sym" and "length" in x.args[0].args[0]]
        if len(lens) != 2:
            # lengths are read through the vector model; fall back to the two distinct atoms that are not scalars of `this`
            ag.put("interior.factor_depends_on_exactly_the_two_adjacent_lengths", False if len(lens) else None, "%d length atoms: %r" % (len(lens), lens)); continue
        a, b = lens
        idxs = sorted([a.args[1][-1] if isinstance(a.args[1], tuple) else a.args[1], b.args[1][-1] if isinstance(b.args[1], tuple) else b.args[1]], key=repr)
        swapped = tm.substitute(val, {a: b, b: a})
        ag.eq("interior.factor_symmetric_in_the_two_cell_lengths", hy, val, swapped if not twin else swapped * R(2))
        ag.put("interior.the_two_lengths_are_those_of_cells_i_and_i+1", (same(hy, _len_index(a), i_) and same(hy, _len_index(b), i_ + 1)) or (same(hy, _len_index(b), i_) and same(hy, _len_index(a), i_ + 1)), (a, b))
    reach(r, "interior", n)
    state_head(r, TR, q, loops_of(fn), k, "i=1", ("i<count_cells", "i<=count_cells-1"), "interior interfaces i|i+1 for i = 1 .. count_cells-1 (all of them): stated by the unit", "interior.header_visits_interfaces_1..count_cells-1")
    # ---- boundary interfaces: the two if/else statements that write heat_mix_array[1] and heat_mix_array[count_cells+1]
    top = _top(fn)
    for which, flag, idxf in (("first", "bcon_first", lambda cc: I(1)), ("last", "bcon_last", lambda cc: cc + 1)):
        wtxt = "heat_mix_array[1]=" if which == "first" else "heat_mix_array[count_cells+1]="
        st = [x for x in top if x.get("kind") == "IfStmt" and wtxt in text_of(TR, x["inner"][1]) and len(x["inner"]) > 2 and wtxt in text_of(TR, x["inner"][2])]
        if len(st) != 1:
            raise Undecided("boundary statement writing %s in both branches not found" % wtxt)
        f, ex, fin, info = region(TR, q, st, ctx())
        for s in live(fin):
            cc = fld0(ex, s, "count_cells", "I")
            hp = fld0(ex, s, "heat_mix_array", "P")
            bc = fld0(ex, s, flag, "I")
            w = [(ix, v) for ix, v in writes(s, ("m", "R")) if isinstance(ix, tuple) and ix[0] is hp]
            for hy in split(list(s.pc), [tm.eq(bc, I(1))]):
                ag.put("boundary_%s.one_factor_written_at_its_index" % which, len(w) == 1 and same(hy, w[0][0][1], idxf(cc)), w)
                if len(w) != 1:
                    continue
                if proved(hy, tm.eq(bc, I(1))):
                    ag.valid("boundary_%s.constant->maxmix>=factor" % which, hy, tm.le(w[0][1], local(info, s, "maxmix")))
                    ag.valid("boundary_%s.constant->factor_is_twice_the_half_cell_value" % which, hy, tm.eq(w[0][1], R(2) * local(info, s, "mixf")))
                else:
                    ag.eq("boundary_%s.closed_or_flux->no_heat_exchange_with_the_boundary_solution" % which, hy, w[0][1], R(0))
    # ---- explicit scheme: sub-mix count and scaling
    sc = loop_where(fn, TR, lambda i, c, b: "heat_mix_array[i]/=l_heat_nmix" in b, "scaling loop of init_heat_mix")[0]
    f, ex, its, info = U.run_loop_isolated(TR, q, sc, ctx=ctx())
    for s in live(its, ("run", "cont")):
        hy = list(s.pc)
        hp = fld0(ex, s, "heat_mix_array", "P")
        w = [(ix, v) for ix, v in writes(s, ("m", "R")) if isinstance(ix, tuple) and ix[0] is hp]
        ok = bool(w) and all(same(hy, ix[1], i_) for ix, v in w)
        ag.put("scaling.only_entry_i_written", ok, w)
        if not ok:
            continue
        old = tm.select(entry_arr(ex, s, ("m", "R")), hp, i_)
        nh, nm = local(info, s, "l_heat_nmix"), local(info, s, "l_nmix")
        mD, nmx = fld0(ex, s, "multi_Dflag", "I"), fld0(ex, s, "nmix", "I")
        for hy1 in split(hy, [tm.eq(mD, I(0)), tm.le(I(2), nmx)]):
            extra = proved(hy1, tm.and_(tm.not_(tm.eq(mD, I(0))), tm.le(I(2), nmx)))
            ag.eq("scaling.entry_divided_by_the_number_of_heat_sub-mixes" + ("_and_by_nmix(multi_D,nmix>=2)" if extra else ""), hy1, w[-1][1], old / nh / nm if extra else old / nh)
    state_head(r, TR, q, loops_of(fn), sc, "i=1", ("i<=count_cells+1", "i<count_cells+2"), "scaling visits entries 1 .. count_cells+1 (every interface): stated by the unit", "scaling.header_visits_1..count_cells+1")
    nmixst = [x for x in A.walk(fn) if x.get("kind") == "BinaryOperator" and x.get("opcode") == "=" and text_of(TR, x["inner"][0]) == "l_heat_nmix" and "floor" in text_of(TR, x["inner"][1])]
    if len(nmixst) != 1:
        r.add("nmix.statement_found", UNDECIDED, "ast-scan", 0, "%d assignments l_heat_nmix = ..floor.." % len(nmixst), kind="structural")
    else:
        f, ex, fin, info = region(TR, q, nmixst, ctx())
        for s in live(fin):
            nh = local(info, s, "l_heat_nmix"); mm = tm.sym("L_maxmix", "R")
            fl = _apps(nh, "floor")
            if len(fl) != 1:
                ag.put("nmix.uses_floor_once", False, nh); continue
            x = fl[0].args[1]
            ax = [tm.le(fl[0], x), tm.lt(x, fl[0] + R(1)), tm.eq(tm.to_real(tm.to_int(fl[0])), fl[0])]
            # lemma: with f, g <= maxmix (bookkeeping above) and n = this value, (f + g)/n < 2/3
            fa, fb = tm.sym("f_a", "R"), tm.sym("f_b", "R")
            hyp = [tm.le(R(0), fa), tm.le(R(0), fb), tm.le(fa, mm), tm.le(fb, mm)] + ax
            goal = tm.and_(tm.le(I(1), nh), tm.lt((fa + fb) / tm.to_real(nh), R(2) / R(3) if not twin else R(1) / R(3)))
            ag.valid("nmix.two_adjacent_factors_scaled_by_it_sum_below_2/3(self_weight_positive)", list(s.pc) + hyp, goal)
    # ---- heat_mix: the update of one cell
    q2 = "Phreeqc::heat_mix"
    fn2 = A.find_function(TR, q2)
    k2 = loop_where(fn2, TR, lambda i, c, b: "temp2[j]=" in b and "for(" not in b, "cell update loop of heat_mix")[0]
    def prep(ex_, s_, info_):
        vf, vf1 = U.local_of(info_, s_, "viscos_f"), U.local_of(info_, s_, "viscos_f1")
        mD_ = tm.select(ex_.heap_arr(s_, ("f", "multi_Dflag", "I")), THIS)
        s_.assume(tm.or_(tm.not_(tm.eq(mD_, I(0))), tm.and_(tm.eq(vf, R(1)), tm.eq(vf1, R(1)))))
    f, ex, its, info = U.run_loop_isolated(TR, q2, k2, ctx=ctx(), prepare=prep)
    j_ = tm.sym("iter_j", "I")
    nu = 0
    for s in live(its, ("run", "cont")):
        hy = list(s.pc)
        t2 = fld0(ex, s, "temp2", "P")
        w = [(ix, v) for ix, v in writes(s, ("m", "R")) if isinstance(ix, tuple) and ix[0] is t2]
        ag.put("update.writes_only_the_new_temperature_of_cell_j", len(w) == 1 and same(hy, w[0][0][1], j_) and len(writes(s, ("m", "R"))) == 1, writes(s, ("m", "R")))
        if len(w) != 1:
            continue
        nu += 1
        T = lambda d: _arr(ex, s, "temp1", j_ + d if d else j_)
        H = lambda d: _arr(ex, s, "heat_mix_array", j_ + d if d else j_)
        mD = fld0(ex, s, "multi_Dflag", "I")
        sd = fld0(ex, s, "sol_D", "P")
        v25 = fld0(ex, s, "viscos_0_25", "R")
        def phi(d, hy1):
            if proved(hy1, tm.eq(mD, I(0))):
                return R(1)
            v0 = tm.select(entry_arr(ex, s, ("f", "viscos_0", "R")), tm.add(sd, j_ + d) if d else tm.add(sd, j_))
            return v25 / v0
        for hy1 in split(hy, [tm.eq(mD, I(0))]):
            a = H(0) * phi(0, hy1)
            b = H(1) * phi(1, hy1)
            spec = a * T(-1) + b * T(1) + (R(1) - a - b) * T(0)
            if twin:
                spec = a * T(-1) + b * T(1) + (R(1) - a) * T(0)
            ag.eq("update.T[j]=a*T[j-1]+b*T[j+1]+(1-a-b)*T[j]_with_a=f[j]*phi[j],b=f[j+1]*phi[j+1](weights_sum_to_1,symmetric_per_interface)", hy1, w[0][1], spec)
    reach(r, "heat_mix.update", nu)
    ag.flush()
    r.assumptions += ["viscos_f, viscos_f1 are 1 unless multi_D (declared `= 1`, assigned only under multi_Dflag): assumed at iteration entry", "floor(x) <= x < floor(x)+1, integer valued",
                      "symmetry of exchange: the weight of T[j+1] in cell j, f[j+1]*phi[j+1], is by the same formula the weight of T[j] in cell j+1 (index shift of the contract, not mechanised)",
                      "with multi_D the viscosity ratio phi may exceed 1; the 2/3 bound is for the stored factors", "the implicit-scheme branch (factors handed to diffuse_implicit) and the decision whether heat is modelled at all are not under this contract",
                      "doubles as reals; temp1, temp2, heat_mix_array are distinct allocations"]
    return r


def _len_index(sel):
    """index i of an atom cell_data[i].length"""
    ix = sel.args[1]
    p = ix[0] if isinstance(ix, tuple) else ix
    if p.op == "+" and p.sort == "P":
        a, b = p.args
        return b if a.sort == "P" else a
    return I(0)


UNITS += [("C11.heat_mix.symmetric_convex_factors", unit_heat_mix)]


# ------------------------------------------------------------------------------------------------------------ calc_b_ij
def unit_calc_b_ij(twin=False):
    """Phreeqc::calc_b_ij(icell, jcell, k, b_i, b_j, g_i, g_j, free_i, free_j, stagnant): the conductance of species k across the
    interface icell|jcell.  Whole function, arbitrary arguments.  Contract for an interior interface of the column (icell not 0,
    count_cells, count_cells+1; no stagnant boundary special case): the value stored in ct[icell].v_m[k].b_ij is a SYMMETRIC function
    of the two sides, f(b_i,g_i,free_i ; b_j,g_j,free_j) = f(b_j,g_j,free_j ; b_i,g_i,free_i) - the same porosity/tortuosity/double-layer
    correction is applied whichever side is called i - and only that entry is written; charged species add b_ij*zc*z to the interface's
    Dz2c (the normaliser of the electro-neutrality term of find_J), neutral ones add nothing."""
    q = "Phreeqc::calc_b_ij"
    fn0 = A.find_function(TR, q)
    r = U.new_unit("C11.calc_b_ij.interface_conductance_symmetric_in_the_two_sides", TR, q, fn0)
    fn, ex, fin, info = U.run_function(TR, q, ctx=ctx())
    ag = Agg(r)
    P = {p.get("name"): tm.sym("P%d_%s" % (i, p.get("name")), "I" if p.get("name") in ("icell", "jcell", "k", "stagnant") else "R") for i, p in enumerate(A.params_of(fn))}
    swap = {P["b_i"]: P["b_j"], P["b_j"]: P["b_i"], P["g_i"]: P["g_j"], P["g_j"]: P["g_i"], P["free_i"]: P["free_j"], P["free_j"]: P["free_i"]}
    fs = live(fin, ("run", "ret"))
    vals = []
    for s in fs:
        cc = fld0(ex, s, "count_cells", "I")
        w = writes(s, ("f", "b_ij", "R"))
        if not w:
            ag.put("conductance_written", False, "no write of b_ij on a path"); continue
        tgt = {ix for ix, v in w}
        ag.put("only_entry_v_m[k]_of_interface_icell_written", len(tgt) == 1, tgt)
        vals.append((s, w[-1][1], cc))
        # Dz2c bookkeeping
        z = None
        dz = writes(s, ("f", "Dz2c", "R"))
        zs = [x for x in tm.subterms(tm.and_(*s.pc)) if x.op == "select" and x.args[0].op == "sym" and ".z:" in x.args[0].args[0]] if s.pc else []
        if dz:
            old = tm.select(entry_arr(ex, s, ("f", "Dz2c", "R")), dz[-1][0][0] if isinstance(dz[-1][0], tuple) else dz[-1][0])
            inc = dz[-1][1] - old
            zc = [x for x in tm.subterms(inc) if x.op == "select" and x.args[0].op == "sym" and ".zc:" in x.args[0].args[0]]
            zz = [x for x in tm.subterms(inc) if x.op == "select" and x.args[0].op == "sym" and ".z:" in x.args[0].args[0]]
            ok = len(zc) == 1 and len(zz) == 1
            ag.put("charged.Dz2c_increment_mentions_zc_and_z_of_the_species", ok, inc)
            if ok:
                ag.eq("charged.Dz2c+=b_ij*zc*z", list(s.pc), inc, w[-1][1] * zc[0] * zz[0] if not twin else w[-1][1] * zc[0])
                ag.valid("charged.only_for_z!=0", list(s.pc), tm.not_(tm.eq(zz[0], R(0))))
        else:
            ag.put("neutral.Dz2c_untouched_only_when_z==0", any(proved(list(s.pc), tm.eq(x, R(0))) for x in zs), s.pc)
    # pairwise symmetry on interior interfaces
    npairs = 0
    for s1, v1, cc in vals:
        interior = [tm.not_(tm.eq(P["icell"], I(0))), tm.not_(tm.eq(P["icell"], cc)), tm.not_(tm.eq(P["icell"], cc + 1)), tm.le(P["stagnant"], I(1))]
        for s2, v2, _ in vals:
            hy = list(s1.pc) + [tm.substitute(c_, swap) for c_ in s2.pc] + interior
            if B.z3_sat(hy) == "unsat":
                continue
            npairs += 1
            ag.eq("interior.b_ij(i-side,j-side)==b_ij(j-side,i-side)", hy, v1, tm.substitute(v2, swap))
    reach(r, "interior_path_pairs", npairs, 4)
    ag.flush()
    r.assumptions += ["doubles as reals (division by b_i + b_j etc. as field operations)", "the boundary-cell special cases (icell 0 / count_cells / stagnant > 1 reservoirs) are one-sided by design and not under the symmetry clause",
                      "ct[icell].v_m[k].z, zc are read, not written"]
    return r


UNITS += [("C11.calc_b_ij.interface_conductance_symmetric_in_the_two_sides", unit_calc_b_ij)]


# ------------------------------------------------------------------------------------------ find_J: the flux loop (J_ij)
def unit_find_J_flux(twin=False):
    """Phreeqc::find_J(icell, jcell, mixf, DDt, stagnant), the loop that fills ct[icell].J_ij (explicit multicomponent diffusion), one pass
    for an arbitrary species i from an arbitrary state, together with the loop that sums Sum_zM.  Contract:
      * antisymmetry: the amount booked as entering jcell (tot2) IS the amount booked as leaving icell (tot1), same entry i;
      * tot1 = (-grad_i + [charged, no field, Dz2c > 0] Sum_zM*zc_i/Dz2c) * b_ij_i * (DDt | 2*mixf for stagnant); J_ij[i].charge = z_i;
      * zero net charge flux: z_i*tot1_i = F*(-dS_i + Sum_zM*dD_i/Dz2c) with dS_i = the term the Sum_zM loop adds for species i and
        dD_i = b_ij*zc*z the term calc_b_ij adds to Dz2c, so that summing over i gives F*(-Sum_zM + Sum_zM*Dz2c/Dz2c) = 0: diffusion moves
        no net charge between the two cells;
      * only entry i of icell's J_ij (tot1, tot2, charge) and the per-call save record are written."""
    q = "Phreeqc::find_J"
    fn = A.find_function(TR, q)
    r = U.new_unit("C11.find_J.flux_leaving_icell_enters_jcell_and_carries_no_net_charge", TR, q, fn)
    ag = Agg(r)
    kS = loop_where(fn, TR, lambda i, c, b: "Sum_zM+=" in b and "grad" in b and "v_m_il" not in b, "Sum_zM loop of find_J")[0]
    kJ = loop_where(fn, TR, lambda i, c, b: "J_map[" in b, "J_ij loop of find_J")[0]
    f, ex, itS, infoS = U.run_loop_isolated(TR, q, kS, ctx=ctx())
    dS = {}
    for s in live(itS, ("run", "cont")):
        dS[tuple(s.pc[1:])] = (list(s.pc), local(infoS, s, "Sum_zM") - tm.sym("iter_Sum_zM", "R"))
    f, ex, its, info = U.run_loop_isolated(TR, q, kJ, ctx=ctx())
    i_ = tm.sym("iter_i", "I")
    ic = tm.sym("L_icell", "I")
    n = nch = 0
    for s in live(its, ("run", "cont")):
        n += 1
        ctp = tm.add(tm.sym("G.ct", "P"), ic)
        J = tm.add(tm.select(entry_arr(ex, s, ("f", "J_ij", "P")), ctp), i_)
        V = tm.add(tm.select(entry_arr(ex, s, ("f", "v_m", "P")), ctp), i_)
        g = lambda name: tm.select(entry_arr(ex, s, ("f", name, "R")), V)
        Dz2c = tm.select(entry_arr(ex, s, ("f", "Dz2c", "R")), ctp)
        S = tm.sym("L_Sum_zM", "R")
        dV = tm.sym("G.dV_dcell", "R")
        w1, w2, wc = writes(s, ("f", "tot1", "R")), writes(s, ("f", "tot2", "R")), writes(s, ("f", "charge", "R"))
        hy0 = list(s.pc)
        okw = bool(w1) and bool(w2) and all(same(hy0, ix[0], J) for ix, v in w1 + w2 + wc)
        ag.put("writes_only_entry_i_of_icell's_J_ij", okw, (w1, w2))
        if not okw:
            continue
        t1, t2 = w1[-1][1], w2[-1][1]
        ag.eq("antisymmetry.tot2(enters_jcell)==tot1(leaves_icell)", hy0, t2, t1 if not twin else -t1)
        ag.eq("charge_of_entry_is_z_of_the_species", hy0, wc[-1][1] if wc else R(0), g("z"))
        for hy in split(hy0, [tm.eq(dV, R(0)), tm.eq(g("z"), R(0)), tm.lt(R(0), Dz2c), tm.eq(tm.sym("L_stagnant", "I"), I(0))]):
            F = tm.sym("L_DDt", "R") if proved(hy, tm.eq(tm.sym("L_stagnant", "I"), I(0))) else R(2) * tm.sym("L_mixf", "R")
            coupled = proved(hy, tm.and_(tm.eq(dV, R(0)), tm.not_(tm.eq(g("z"), R(0))), tm.lt(R(0), Dz2c)))
            drive = -g("grad") + (S * g("zc") / Dz2c if coupled else R(0))
            ag.eq("tot1==(-grad+coupling)*b_ij*(DDt|2*mixf)", hy, t1, drive * g("b_ij") * F)
            if coupled:
                nch += 1
                # the Sum_zM loop's increment for a charged species
                inc = [d for pc_, d in dS.values() if B.z3_sat(hy + pc_) != "unsat" and proved(hy + pc_, tm.not_(tm.eq(g("z"), R(0))))]
                if len(inc) != 1:
                    ag.put("neutrality.Sum_zM_increment_for_a_charged_species_found", False, dS); continue
                dD = g("b_ij") * g("zc") * g("z")
                ag.eq("neutrality.z*tot1==F*(-dS_i+Sum_zM*dD_i/Dz2c)(sums_to_zero_over_the_species)", hy, g("z") * t1, F * (-inc[0] + S * dD / Dz2c))
    for pc_, d in dS.values():
        ag.valid("neutrality.Sum_zM_counts_charged_species_only", pc_, tm.or_(tm.eq(d, R(0)), tm.not_(tm.eq(tm.select(entry_arr(ex, itS[0], ("f", "z", "R")), tm.add(tm.select(entry_arr(ex, itS[0], ("f", "v_m", "P")), tm.add(tm.sym("G.ct", "P"), ic)), i_)), R(0)))))
    reach(r, "flux_pass", n, 4); reach(r, "flux_pass.charged_coupled", nch, 2)
    lp = loops_of(fn)
    sameh = all(text_of(TR, lp[kS]["inner"][j]) == text_of(TR, lp[kJ]["inner"][j]) for j in (0, 2, 3))
    r.add("neutrality.Sum_zM_loop_and_flux_loop_run_over_the_same_species_range", DISCHARGED if sameh else FAILED, "syntactic", 0, "for (%s %s; %s)" % tuple(text_of(TR, lp[kJ]["inner"][j]) for j in (0, 2, 3)), kind="structural")
    ag.flush()
    r.assumptions += ["Dz2c of the interface is the sum of b_ij*zc*z over the same species (unit C11.calc_b_ij: one increment per charged species; reset before the species loop not under contract)",
                      "summation over the species is the stated induction, not mechanised; doubles as reals", "the electro-migration second pass (dV_dcell != 0) and the interlayer fluxes are not under this contract except tot2 == tot1 where written in this loop",
                      "ct and dV_dcell are file-level variables of transport.cpp"]
    return r


UNITS += [("C11.find_J.flux_leaving_icell_enters_jcell_and_carries_no_net_charge", unit_find_J_flux)]


# ------------------------------------------------------------------------------------- multi_D: one interface of the sweep
def _sel_named(t, frag):
    return [x for x in tm.subterms(t) if x.op == "select" and x.args[0].op == "sym" and ("." + frag + ":") in x.args[0].args[0]]


def frame_eqs(pc, names, first=()):
    """the opaque inner loops/calls of a pass rename every memory component; members that the function never assigns keep their value:
    equalities between all versions of `this->name` met on the path"""
    out = []
    allt = tm.and_(*pc) if pc else tm.TRUE
    for nm in names:
        vs = [x for x in first if ("." + nm + ":") in x.args[0].args[0]] + [x for x in _sel_named(allt, nm) if x.args[1] == (THIS,) or x.args[1] is THIS]
        for v in vs[1:]:
            out.append(tm.eq(vs[0], v))
    return out


def unit_multi_D_interface(twin=False):
    """Phreeqc::multi_D(DDt, mobile_cell, stagnant), one pass of the interface loop from an arbitrary state.  Contract:
      * the fluxes are computed once for the ordered pair (icell, jcell) = the arguments of find_J; regular column: (i, i+1, mixf 1, DDt);
      * the element amounts of THAT interface (fill_m_s of ct[icell].J_ij, icell) are subtracted from solution icell of the solution store
        and added to solution jcell: total H / total O of icell become old - tot1_h/o, those of jcell old + tot2_h/o; no other
        solution is selected in between;
      * without electrical field a boundary solution is left alone: nothing is taken from icell = 0 / count_cells+1 and nothing is given to
        jcell = count_cells+1 (constant-concentration reservoirs), everything else is updated on both sides."""
    q = "Phreeqc::multi_D"
    fn = A.find_function(TR, q)
    r = U.new_unit("C11.multi_D.interface_amounts_leave_icell_and_enter_jcell", TR, q, fn)
    ag = Agg(r)
    k = loop_where(fn, TR, lambda i, c, b: "find_J(" in b and "for(i=first_c" not in b, "interface loop of multi_D")[0]
    f, ex, its, info = U.run_loop_isolated(TR, q, k, ctx=ctx(functional=("Rxn_find",)))
    i_ = tm.sym("iter_i", "I")
    smap = tm.app("fld:Rxn_solution_map", (THIS,), "P")
    dV = tm.sym("G.dV_dcell", "R")
    nreg = nupd = 0
    for s in live(its, ("run", "cont")):
        hy0 = list(s.pc) + frame_eqs(list(s.pc), ["count_cells"], first=[fld0(ex, s, "count_cells", "I")])
        E = U.iter_events(s)
        fJ = evs(s, "find_J")
        if not fJ:
            continue
        ag.put("fluxes_computed_once_per_interface", len(fJ) == 1, fJ)
        a, b = fJ[0].args[0], fJ[0].args[1]
        stg = tm.sym("L_stagnant", "I")
        if proved(hy0, tm.eq(stg, I(0))):
            nreg += 1
            ag.put("regular_column.interface_is(i,i+1)_with_unit_mix_factor_and_the_callers_time", same(hy0, a, i_) and same(hy0, b, i_ + 1 if not twin else i_) and same(hy0, fJ[0].args[2], R(1)) and fJ[0].args[3] is tm.sym("L_DDt", "R") and fJ[0].args[4] is stg, fJ[0])
        fm = evs(s, "fill_m_s")
        if not fm:
            continue            # nothing diffuses / current-finding pass
        nupd += 1
        cc = fld0(ex, s, "count_cells", "I")
        ag.put("element_amounts_are_those_of_interface_icell", len(fm) == 1 and same(hy0, fm[0].args[2], a) and pos(s, fm[0]) > pos(s, fJ[0]), fm)
        # segments: which solution is selected when total H / O are set
        upd = []
        cur = None
        for e in E:
            sh = e.name.split("::")[-1]
            if sh == "Set_solution_ptr":
                x = e.args[0]
                cur = x.args[3] if (x.op == "app" and x.args[0] == "call:Rxn_find" and x.args[2] is smap) else False
            elif sh in ("Set_total_h", "Set_total_o"):
                upd.append((sh, cur, e, pos(s, e)))
        for hy in split(hy0, [tm.eq(dV, R(0)), tm.eq(a, I(0)), tm.eq(a, cc + 1), tm.eq(b, cc + 1)]):
            nofield = proved(hy, tm.eq(dV, R(0)))
            skip_d = nofield and proved(hy, tm.or_(tm.eq(a, I(0)), tm.eq(a, cc + 1)))
            skip_r = nofield and proved(hy, tm.eq(b, cc + 1))
            for sh, el in (("Set_total_h", "h"), ("Set_total_o", "o")):
                us = [u for u in upd if u[0] == sh]
                don = [u for u in us if _sel_named(u[2].args[0], "tot1_" + el)]
                rec = [u for u in us if _sel_named(u[2].args[0], "tot2_" + el)]
                ag.put("total_%s.every_update_uses_the_interface_amounts" % el.upper(), len(don) + len(rec) == len(us), us)
                if skip_d:
                    ag.put("total_%s.nothing_taken_from_a_boundary_solution(no_field)" % el.upper(), not don, don)
                else:
                    ok = len(don) == 1 and don[0][1] is not None and don[0][1] is not False and same(hy, don[0][1], a)
                    ag.put("total_%s.donor_is_solution_icell_of_the_store" % el.upper(), ok, don)
                    if ok:
                        e = don[0][2]
                        g = [x for x in E[:don[0][3]] if x.name.endswith("Get_total_" + el)]
                        X = _sel_named(e.args[0], "tot1_" + el)[0]
                        ag.eq("total_%s.donor:new==old-tot1" % el.upper(), hy, e.args[0], (g[-1].result - X) if g else R(0))
                if skip_r:
                    ag.put("total_%s.nothing_given_to_boundary_solution_count_cells+1(no_field)" % el.upper(), not rec, rec)
                else:
                    ok = len(rec) == 1 and rec[0][1] is not None and rec[0][1] is not False and same(hy, rec[0][1], b)
                    ag.put("total_%s.receiver_is_solution_jcell_of_the_store" % el.upper(), ok, rec)
                    if ok:
                        e = rec[0][2]
                        g = [x for x in E[:rec[0][3]] if x.name.endswith("Get_total_" + el)]
                        X = _sel_named(e.args[0], "tot2_" + el)[0]
                        ag.eq("total_%s.receiver:new==old+tot2" % el.upper(), hy, e.args[0], (g[-1].result + X) if g else R(0))
                        if don and not skip_d:
                            ag.put("total_%s.donor_updated_before_receiver_is_selected" % el.upper(), don[0][3] < rec[0][3], "")
    reach(r, "interface_pass.regular_column", nreg, 2); reach(r, "interface_pass.with_updates", nupd, 4)
    ag.flush()
    r.assumptions += ["use.Get_solution_ptr() returns the solution selected by the last use.Set_solution_ptr (accessor pair)", "the per-element totals loops (it->second -= m_s[l].tot1 / += tot2) are under unit C11.multi_D.moles_move_under_the_same_element (text) and are havocked here",
                      "tot1 == tot2 per species from find_J (unit C11.find_J.*) and per element from fill_m_s (unit C11.fill_m_s.*)", "stagnant passes: icell/jcell come from the stored mix of icell (cxxMix::Vectorize), only the pairing with find_J's arguments is demanded",
                      "ct, dV_dcell are file-level variables", "count_cells is not assigned by multi_D or its callees (frame): all its versions on a path are equal"]
    return r


UNITS += [("C11.multi_D.interface_amounts_leave_icell_and_enter_jcell", unit_multi_D_interface)]


# ------------------------------------------------------------------- moles_from_redox_states / moles_from_donnan_layer
def unit_borrowed_moles(twin=False):
    """Phreeqc::moles_from_redox_states(solution, element) and Phreeqc::moles_from_donnan_layer(surface, element, needed): the helpers
    the implicit scheme uses to cover a shortage.  One pass of the totals loop each, arbitrary state.  Contract: what is returned
    (accumulated in dum) is exactly what is removed from the totals entry visited - amounts are moved, never created; an entry is touched
    only if its key belongs to the element (redox states: strlen(element) == length of the key before '(' and equal prefix; Donnan layer:
    equal name, never H or O); the Donnan entry is not overdrawn (stays >= 0 for needed >= 0)."""
    q1, q2 = "Phreeqc::moles_from_redox_states", "Phreeqc::moles_from_donnan_layer"
    r = U.new_unit("C11.borrowed_moles.moved_from_the_entry_not_created", TR, q1, A.find_function(TR, q1))
    ag = Agg(r)
    n = 0
    for q in (q1, q2):
        fn = A.find_function(TR, q)
        lps = loops_of(fn)
        ks = [k for k, lp in enumerate(lps) if "kit->second" in text_of(TR, lp["inner"][-1]) and not any(l2 is not lp and l2.get("kind") in ("ForStmt",) and "kit->second" in text_of(TR, l2) for l2 in A.walk(lp["inner"][-1]))]
        if len(ks) != 1:
            raise Undecided("totals loop of %s not found" % q)
        f, ex, its, info = U.run_loop_isolated(TR, q, ks[0], ctx=ctx())
        short = q.split("::")[-1]
        for s in live(its, ("run", "cont")):
            hy = list(s.pc)
            d = local(info, s, "dum") - tm.sym("iter_dum", "R")
            w = writes(s, ("f", "second", "R"))
            node = tm.app("mnode", (tm.sym("iter_kit", "P"),), "P")
            old = tm.select(entry_arr(ex, s, ("f", "second", "R")), node)
            ok = all(ix == (node,) or ix is node for ix, v in w)
            ag.put(short + ".only_the_visited_entry_is_written", ok and len(s.heap.get(("m", "R"), tm.TRUE).args) >= 0, w)
            new = w[-1][1] if w else old
            n += 1
            ag.eq(short + ".returned_amount==amount_removed_from_the_entry", hy, d, (old - new) if not twin else (new - old))
            if w:
                if short == "moles_from_redox_states":
                    sl = [e for e in evs(s, "strcspn")]
                    sn = [e for e in evs(s, "strncmp")]
                    okk = len(sl) == 1 and len(sn) == 1 and proved(hy, tm.and_(tm.eq(tm.sym("L_length", "I"), sl[0].result), tm.eq(sn[0].result, I(0)))) and sn[0].args[0] is tm.sym("L_name", "P") and sl[0].args[0] is sn[0].args[1] \
                        and (same(hy, sn[0].args[2], sl[0].result) or same(hy, sn[0].args[2], tm.sym("L_length", "I")))
                    ag.put(short + ".entry_taken_only_if_its_key_is_a_redox_state_of_the_element(equal_length_and_prefix)", okk, sl + sn)
                    ag.eq(short + ".entry_emptied", hy, new, R(0))
                else:
                    sc = evs(s, "strcmp")
                    hit = [e for e in sc if tm.sym("L_name", "P") in e.args and proved(hy, tm.eq(e.result, I(0)))]
                    ag.put(short + ".entry_taken_only_if_its_key_equals_the_element_name", len(hit) == 1, sc)
                    ag.valid(short + ".entry_not_overdrawn", hy + [tm.le(R(0), old), tm.le(R(0), tm.sym("L_moles_needed", "R"))], tm.le(R(0), new))
                    ag.valid(short + ".never_more_than_needed_from_one_entry", hy + [tm.le(R(0), old), tm.le(R(0), tm.sym("L_moles_needed", "R"))], tm.le(d, tm.sym("L_moles_needed", "R")))
    # length is strlen(name)
    fn = A.find_function(TR, q1)
    st = [x for x in A.walk(fn) if x.get("kind") == "BinaryOperator" and x.get("opcode") == "=" and text_of(TR, x["inner"][0]) == "length"]
    if st:
        f, ex, fin, info = region(TR, q1, [st[0]], ctx())
        for s in live(fin):
            e = evs(s, "strlen", False)
            ag.put("moles_from_redox_states.length_is_strlen_of_the_element_name", len(e) == 1 and e[0].args[0] is tm.sym("L_name", "P") and same(list(s.pc), local(info, s, "length"), e[0].result), e)
    else:
        r.add("moles_from_redox_states.length_assignment_found", UNDECIDED, "ast-scan", 0, "", kind="structural")
    reach(r, "passes", n, 5)
    ag.flush()
    r.assumptions += ["strlen/strcspn/strncmp/strcmp by their C meaning (opaque results, arguments checked)", "summation over the entries is the stated induction",
                      "moles_from_donnan_layer may draw up to `needed` from EACH surface charge (no running remainder): amounts are still only moved",
                      "add_MCD_moles has no caller in the tree (dead code) and is not under contract"]
    return r


UNITS += [("C11.borrowed_moles.moved_from_the_entry_not_created", unit_borrowed_moles)]


# ------------------------------------------------------------------------- diffuse_implicit: booking the element amounts
def _opaque_maps(c):
    def opaque(ex_, st, n, name, recv, args):
        res = SX.fresh("ret_" + name.split("::")[-1], "P")
        st.events.append(SX.Event(name, recv, args, res, n))
        return [(st, res)]
    for nm in ("insert", "erase", "make_pair", "clear", "find"):
        c.handlers[nm] = opaque
    return c


def unit_diffuse_implicit_booking(twin=False):
    """Phreeqc::diffuse_implicit(DDt, stagnant), step 3 (the solved element transfers ct[icell].m_s[cp] are booked into the solutions), the
    statements of one pass (interface icell | icell+1, element cp) executed as regions from an arbitrary state.  Contract:
      * the two solutions are entries icell and icell+1 of the solution store;
      * H and O: whatever is subtracted from solution icell is added to solution icell+1 / the stagnant partner - the net change over the
        solutions touched is zero - for every interface inside the column (0 < icell < ilast, icell != c) and, with an electrical field or
        fixed current (boundary solutions are part of the balance), for every interface;
      * other elements, both sides inside the balance, no shortage: solution icell gets old - tot1 (- tot_stag), solution icell+1 gets
        old + tot1, under the SAME element name; with a shortage the solution is left with min_mol and the deficit is logged in neg_moles
        under the same cell and element."""
    q = "Phreeqc::diffuse_implicit"
    fn = A.find_function(TR, q)
    r = U.new_unit("C11.diffuse_implicit.element_amounts_leave_icell_and_enter_icell+1", TR, q, fn)
    ag = Agg(r)
    mk = lambda: _opaque_maps(ctx(functional=("Rxn_find",)))
    smap = tm.app("fld:Rxn_solution_map", (THIS,), "P")
    ic = tm.sym("L_icell", "I")
    # the two solutions
    for var, key in (("sptr1", ic), ("sptr2", ic + 1)):
        st = [x for x in A.walk(fn) if x.get("kind") == "BinaryOperator" and x.get("opcode") == "=" and text_of(TR, x["inner"][0]) == var and "Rxn_solution_map" in text_of(TR, x["inner"][1])
              and "icell" in text_of(TR, x["inner"][1])]
        if not st:
            r.add("solutions.%s_assignment_found" % var, UNDECIDED, "ast-scan", 0, "", kind="structural"); continue
        f, ex, fin, info = region(TR, q, [st[0]], mk())
        for s in live(fin):
            ag.put("solutions.%s_is_entry_%s_of_the_solution_store" % (var, "icell" if var == "sptr1" else "icell+1"), same(list(s.pc), local(info, s, var), _find_of("Rxn_solution_map", key)), local(info, s, var))
    dV = tm.sym("G.dV_dcell", "R")
    nH = 0
    for el, setter, getter in (("H", "Set_total_h", "Get_total_h"), ("O", "Set_total_o", "Get_total_o")):
        cand = [x for x in A.walk(fn) if x.get("kind") == "IfStmt" and (setter + "(") in text_of(TR, x["inner"][1])]
        blk = [x for x in cand if not any(y is not x and any(z is x for z in A.walk(y["inner"][1])) for y in cand)]      # outermost if whose then-branch sets the total
        if len(blk) != 1:
            raise Undecided("block booking total %s in diffuse_implicit not found (%d)" % (el, len(blk)))
        f, ex, fin, info = region(TR, q, blk, mk())
        for s in live(fin, ("run", "cont")):
            sets = evs(s, setter, False)
            fixc = fld0(ex, s, "fix_current", "R")
            il, c_ = tm.sym("L_ilast", "I"), tm.sym("L_c", "I")
            deltas = {}
            for e in sets:
                g = [x for x in s.events[:pos(s, e, False)] if x.name.endswith(getter) and x.recv is e.recv]
                if not g:
                    ag.put("total_%s.update_is_relative_to_the_current_value" % el, False, e); continue
                deltas[e.recv] = deltas.get(e.recv, R(0)) + (e.args[0] - g[-1].result)
            sc = [e for e in evs(s, "strcmp", False) if any(a.op == "str" and a.args[0].strip('"') == el for a in e.args)]
            if sets or s.status == "cont":
                ag.put("total_%s.booked_only_for_the_element_%s(strcmp(name,\"%s\")==0)" % (el, el, el), len(sc) >= 1 and proved(list(s.pc), tm.eq(sc[0].result, I(0))), sc)
            else:
                ag.put("total_%s.block_skipped_only_for_other_elements" % el, len(sc) >= 1 and proved(list(s.pc), tm.not_(tm.eq(sc[0].result, I(0)))), sc)
            if not sets:
                continue
            for hy in split(list(s.pc), [tm.eq(dV, R(0)), tm.eq(fixc, R(0)), tm.and_(tm.lt(I(0), ic), tm.lt(ic, il)), tm.eq(ic, c_)]):
                closed = proved(hy, tm.or_(tm.not_(tm.eq(dV, R(0))), tm.not_(tm.eq(fixc, R(0))))) or proved(hy, tm.and_(tm.lt(I(0), ic), tm.lt(ic, il), tm.not_(tm.eq(ic, c_))))
                if not closed:
                    continue
                nH += 1
                tot = R(0)
                for v in deltas.values():
                    tot = tot + v
                ag.eq("total_%s.net_change_over_the_solutions_touched_is_zero(inside_the_balance)" % el, hy, tot, R(0) if not twin else tm.sym("L_dummy", "R"))
                t1 = tm.select(entry_arr(ex, s, ("f", "tot1", "R")), tm.add(tm.select(entry_arr(ex, s, ("f", "m_s", "P")), tm.add(tm.sym("G.ct", "P"), ic)), tm.sym("L_cp", "I")))
                s1 = tm.sym("L_sptr1", "P")
                if proved(hy, tm.eq(tm.sym("L_sptr_stag", "P"), tm.NULL)):
                    ag.eq("total_%s.solution_icell_loses_exactly_tot1(no_stagnant_partner)" % el, hy, deltas.get(s1, R(0)), -t1)
    reach(r, "H_and_O_blocks.inside_the_balance", nH, 4)
    # ---- other elements: the two update statements
    D = [x for x in A.walk(fn) if x.get("kind") == "IfStmt" and text_of(TR, x["inner"][1]).startswith("{dum=ct[icell].m_s[cp].tot1;")]
    if len(D) != 2:
        raise Undecided("donor/receiver update statements of diffuse_implicit not found (%d)" % len(D))
    f, ex, fin, info = region(TR, q, D, mk())
    nE = nS = 0
    for s in live(fin, ("run", "cont")):
        hy0 = list(s.pc)
        mv = writes(s, ("m2", "#mval", "R", "S"))
        gt = evs(s, "Get_totals", False)
        own = {e.result: e.recv for e in gt}
        d1, d2, mm = tm.sym("L_dum1", "R"), tm.sym("L_dum2", "R"), tm.sym("L_min_mol", "R")
        msp = tm.add(tm.select(entry_arr(ex, s, ("f", "m_s", "P")), tm.add(tm.sym("G.ct", "P"), ic)), tm.sym("L_cp", "I"))
        t1 = tm.select(entry_arr(ex, s, ("f", "tot1", "R")), msp)
        ts = tm.select(entry_arr(ex, s, ("f", "tot_stag", "R")), msp)
        nm = tm.app("string_of", (tm.select(entry_arr(ex, s, ("f", "name", "P")), msp),), "S")
        by = {}
        for ix, v in mv:
            by[own.get(ix[0])] = (ix[1], v)
        ag.put("elements.only_solutions_icell_and_icell+1_written", set(by) <= {tm.sym("L_sptr1", "P"), tm.sym("L_sptr2", "P")}, by.keys())
        ag.put("elements.written_under_the_element's_own_name", all(k is nm for k, v in by.values()), [k for k, v in by.values()])
        both = tm.sym("L_sptr1", "P") in by and tm.sym("L_sptr2", "P") in by
        stg = tm.sym("L_stagnant", "I")
        if both:
            v1, v2 = by[tm.sym("L_sptr1", "P")][1], by[tm.sym("L_sptr2", "P")][1]
            for hy in split(hy0, [tm.eq(stg, I(0)), tm.lt(R(0), d1 - t1), tm.lt(R(0), d2 + t1)]):
                if proved(hy, tm.and_(tm.eq(stg, I(0)), tm.lt(R(0), d1 - t1), tm.lt(R(0), d2 + t1))):
                    nE += 1
                    ag.eq("elements.no_shortage:solution_icell==old-tot1", hy, v1, d1 - t1)
                    ag.eq("elements.no_shortage:solution_icell+1==old+tot1", hy, v2, d2 + t1)
                    ag.eq("elements.no_shortage:equal_and_opposite", hy, (v1 - d1) + (v2 - d2), R(0))
                    ag.put("elements.no_shortage:no_deficit_logged", not evs(s, "insert", False), evs(s, "insert", False))
        # shortage on the donor side: left with min_mol, deficit logged under (icell, name)
        if tm.sym("L_sptr1", "P") in by:
            v1 = by[tm.sym("L_sptr1", "P")][1]
            for hy in split(hy0, [tm.eq(stg, I(0)), tm.lt(d1 - t1, R(0))]):
                if proved(hy, tm.and_(tm.eq(stg, I(0)), tm.lt(d1 - t1, R(0)))):
                    nS += 1
                    ag.eq("elements.shortage:solution_icell_left_with_min_mol", hy, v1, mm)
                    mp = [e for e in evs(s, "make_pair", False)]
                    logged = [e for e in mp if len(e.args) == 2 and e.args[1].sort == "R"]
                    keyed = [e for e in mp if len(e.args) == 2 and e.args[0] is ic]
                    ag.put("elements.shortage:deficit_logged_in_neg_moles_under_cell_icell_and_the_element", bool(logged) and bool(keyed) and any(tm.sym("L_dum1", "R") in tm.subterms(e.args[1]) for e in logged)
                           and any(e.recv is not None and "neg_moles" in repr(e.recv) for e in evs(s, "insert", False)), mp)
    reach(r, "element_updates.no_shortage", nE); reach(r, "element_updates.shortage", nS)
    ag.flush()
    r.assumptions += ["dum1, dum2 hold the current totals of the element in solutions icell, icell+1 at the update statements (read a few statements earlier, not under this contract)",
                      "the linear solve that produces ct[icell].m_s[cp].tot1 and the redox/Donnan borrowing in between (unit C11.borrowed_moles.*) are outside; stagnant passes only through the H/O balance",
                      "neg_moles / els map operations are opaque events; ct, dV_dcell, neg_moles are file-level variables", "regions are located by the text of their guarding condition / first statement"]
    return r


UNITS += [("C11.diffuse_implicit.element_amounts_leave_icell_and_enter_icell+1", unit_diffuse_implicit_booking)]


# ------------------------------------------------------------------ find_J: pore-geometry factors of the two half cells
def unit_find_J_geometry(twin=False):
    """Phreeqc::find_J, the statement that computes the pore-geometry factors A1 (icell side) and A2 (jcell side) and the statements that
    form the two half-cell conductances handed to calc_b_ij when the species is present on both sides.  Regions, arbitrary state.
    Contract: interior interface: A2 is A1 with the roles of the two cells exchanged (water t_aq1<->t_aq2, cell icell<->jcell): the same
    porosity / length / tortuosity (por^-n) correction on both sides; boundary interfaces (icell = 0 or count_cells): both sides use the
    column cell next to the boundary, A1 == A2; b_i = A1*Dwt(species in icell), b_j = A2*Dwt(species in jcell): each side with its own
    temperature/viscosity-corrected diffusion coefficient."""
    q = "Phreeqc::find_J"
    fn = A.find_function(TR, q)
    r = U.new_unit("C11.find_J.same_porosity_tortuosity_correction_on_both_sides", TR, q, fn)
    ag = Agg(r)
    st = _outer_ifs([x for x in A.walk(fn) if x.get("kind") == "IfStmt" and "tort1=" in text_of(TR, x["inner"][1]) and len(x["inner"]) > 2 and "tort2=pow(" in text_of(TR, x["inner"][2])])
    if len(st) != 1:
        raise Undecided("statement computing tort1/tort2/A1/A2 not found (%d)" % len(st))
    f, ex, fin, info = region(TR, q, st, ctx())
    ic, jc = tm.sym("L_icell", "I"), tm.sym("L_jcell", "I")
    swap = {ic: jc, jc: ic, tm.sym("L_t_aq1", "R"): tm.sym("L_t_aq2", "R"), tm.sym("L_t_aq2", "R"): tm.sym("L_t_aq1", "R")}
    nI = nB = 0
    for s in live(fin):
        cc = fld0(ex, s, "count_cells", "I")
        A1, A2 = local(info, s, "A1"), local(info, s, "A2")
        for hy in split(list(s.pc), [tm.eq(ic, I(0)), tm.eq(ic, cc)]):
            if proved(hy, tm.or_(tm.eq(ic, I(0)), tm.eq(ic, cc))):
                nB += 1
                ag.eq("boundary_interface.both_sides_use_the_adjacent_column_cell(A1==A2)", hy, A1, A2)
                continue
            nI += 1
            sw = tm.substitute(A1, swap)
            ag.eq("interior_interface.A2_is_A1_with_the_two_cells_exchanged", hy, A2, sw if not twin else sw * R(2))
            t1 = local(info, s, "tort1")
            pw = _apps(t1, "pow")
            ag.put("interior_interface.tortuosity_is_a_power_of_the_cell's_own_porosity", len(pw) == 1 and "por" in repr(pw[0].args[1]) and ic in tm.subterms(pw[0].args[1]) and jc not in tm.subterms(pw[0].args[1]), t1)
            ag.eq("interior_interface.tort2_is_tort1_with_the_two_cells_exchanged", hy, local(info, s, "tort2"), tm.substitute(t1, swap))
    reach(r, "interior", nI, 2); reach(r, "boundary", nB, 2)
    # both species present: the call site whose two arguments each carry a Dwt
    calls = [x for x in A.walk(fn) if x.get("kind") == "CXXMemberCallExpr" and text_of(TR, x).startswith("calc_b_ij(")]
    nb = 0
    for cs in calls:
        par, idx = _parent_and_index(fn, cs)
        if par is None or idx < 2:
            continue
        prev = par["inner"][idx - 2:idx]
        if not all(p.get("kind") == "BinaryOperator" and p.get("opcode") == "=" for p in prev):
            continue
        if sorted(text_of(TR, p["inner"][0]) for p in prev) != ["b_i", "b_j"]:
            continue
        f, ex, fin, info = region(TR, q, prev + [cs], ctx())
        for s in live(fin):
            e = [x for x in s.events if x.name.endswith("calc_b_ij")]
            if len(e) != 1:
                continue
            nb += 1
            bi, bj = e[0].args[3], e[0].args[4]
            ag.put("both_present.call_is_for_this_interface", e[0].args[0] is ic and e[0].args[1] is jc, e[0].args[:3])
            di, dj = _sel_named(bi, "Dwt"), _sel_named(bj, "Dwt")
            okd = len(di) == 1 and len(dj) == 1 and ic in tm.subterms(di[0]) and jc not in tm.subterms(di[0]) and jc in tm.subterms(dj[0]) and ic not in tm.subterms(dj[0])
            ag.put("both_present.each_side_uses_the_coefficient_of_its_own_cell", okd, (bi, bj))
            if okd:
                ag.eq("both_present.b_i==A1*Dwt_icell", list(s.pc), bi, tm.sym("L_A1", "R") * di[0])
                ag.eq("both_present.b_j==A2*Dwt_jcell", list(s.pc), bj, tm.sym("L_A2", "R") * dj[0])
    reach(r, "both_present_call_site", nb)
    ag.flush()
    r.assumptions += ["pow uninterpreted; t_aq1 / t_aq2 are the pore-water amounts of icell / jcell computed earlier in find_J (not under this contract)",
                      "the call sites where a species is present on one side only use the present side's coefficient with the other side's viscosity correction: not under this contract",
                      "sol_D[cell].spec[..].Dwt is filled by fill_spec (temperature and viscosity correction of the cell itself)"]
    return r


def _inner_ifs(cands):
    return [x for x in cands if not any(y is not x and any(z is y for z in A.walk(x)) for y in cands)]


def _outer_ifs(cands):
    return [x for x in cands if not any(y is not x and any(z is x for z in A.walk(y)) for y in cands)]


UNITS += [("C11.find_J.same_porosity_tortuosity_correction_on_both_sides", unit_find_J_geometry)]


# ------------------------------------------------------------------------------------------------------------ fill_spec
def unit_fill_spec_factors(twin=False):
    """Phreeqc::fill_spec(cell, ref_cell): the porosity / viscosity factors and the corrected diffusion coefficient stored per species.
    Regions, arbitrary state.  Contract: the porosity used for cell c is the cell's own (boundary solutions 0 and count_cells+1 take the
    adjacent column cell's); viscosities are those of solution c of the solution store and are recorded in sol_D[c]; the factor applied to
    every aqueous diffusion coefficient is viscos_0(25 C)/viscos_0(c) (0 below the porosity limit); Dwt of an aqueous species =
    Dw * that factor [* exp(dw_t/T - dw_t/298.15)] [* (viscos_0/viscos)^a_v_dif], written to sol_D[c].spec[count_spec] - the cell's own
    slot - so that find_J combines two coefficients each corrected for its own cell."""
    q = "Phreeqc::fill_spec"
    fn = A.find_function(TR, q)
    r = U.new_unit("C11.fill_spec.diffusion_coefficients_corrected_with_the_cell's_own_factors", TR, q, fn)
    ag = Agg(r)
    top = _top(fn)
    txt = [text_of(TR, x) for x in top]
    a = next((k for k, t in enumerate(txt) if t.startswith("viscos_f0=")), None)
    b = next((k for k, t in enumerate(txt) if t.startswith("viscos_f*=")), None)
    if a is None or b is None or b <= a:
        raise Undecided("factor block of fill_spec not found")
    f, ex, fin, info = region(TR, q, top[a:b + 1], ctx(functional=("Rxn_find", "Get_viscosity", "Get_viscos_0")))
    c_ = tm.sym("L_l_cell_no", "I")
    n = 0
    for s in live(fin):
        cc = fld0(ex, s, "count_cells", "I")
        sol = _find_of("Rxn_solution_map", c_)
        v = tm.app("call:Get_viscosity", (sol,), "R"); v0 = tm.app("call:Get_viscos_0", (sol,), "R")
        por = local(info, s, "por")
        lim = fld0(ex, s, "multi_Dpor_lim", "R")
        v25 = fld0(ex, s, "viscos_0_25", "R")
        cd = tm.select(entry_arr(ex, s, ("f", "#vdata", "P")), tm.app("fld:cell_data", (THIS,), "P"))
        porf = lambda idx: tm.select(entry_arr(ex, s, ("f", "por", "R")), tm.add(cd, idx))
        for hy in split(list(s.pc), [tm.eq(c_, I(0)), tm.eq(c_, cc + 1), tm.eq(v0, R(0))]):
            n += 1
            own = I(1) if proved(hy, tm.eq(c_, I(0))) else (cc if proved(hy, tm.eq(c_, cc + 1)) else c_)
            p0 = porf(own)
            for hy1 in split(hy, [tm.lt(p0, lim)]):
                small = proved(hy1, tm.lt(p0, lim))
                ag.eq("porosity_is_the_cell's_own(boundary_solutions:adjacent_column_cell;0_below_the_limit)", hy1, por, R(0) if small else p0)
                vz = v if proved(hy1, tm.eq(v0, R(0))) else v0
                ag.eq("factor_for_Dw==viscos_0(25C)/viscos_0(cell)(0_below_the_porosity_limit)", hy1, local(info, s, "viscos_f0"), R(0) if small else (v25 / vz if not twin else vz / v25))
                sd = tm.add(fld0(ex, s, "sol_D", "P"), c_)
                ag.eq("viscosity_of_solution_c_recorded_in_sol_D[c]", hy1, tm.select(ex.heap_arr(s, ("f", "viscos", "R")), sd), v)
                ag.eq("viscos_0_of_solution_c_recorded_in_sol_D[c]", hy1, tm.select(ex.heap_arr(s, ("f", "viscos_0", "R")), sd), vz)
                ag.eq("local_viscosities_are_those_of_solution_c", hy1, local(info, s, "viscos0") + local(info, s, "viscos"), vz + v)
    reach(r, "factor_block", n, 4)
    # aqueous species: Dwt
    blk = _inner_ifs([x for x in A.walk(fn) if x.get("kind") == "IfStmt" and "Dwt=default_Dw*viscos_f0" in text_of(TR, x["inner"][1])])
    dv = _inner_ifs([x for x in A.walk(fn) if x.get("kind") == "IfStmt" and "pow(viscos0/viscos," in text_of(TR, x["inner"][1])])
    if len(blk) != 1 or len(dv) != 1:
        raise Undecided("Dwt statements of the aqueous species not found (%d, %d)" % (len(blk), len(dv)))
    f, ex, fin, info = region(TR, q, blk + dv, ctx())
    m = 0
    for s in live(fin):
        hy = list(s.pc)
        sp = tm.sym("L_s_ptr", "P")
        g = lambda nm: tm.select(entry_arr(ex, s, ("f", nm, "R")), sp)
        w = writes(s, ("f", "Dwt", "R"))
        tgt = {ix for ix, v in w}
        slot = tm.add(tm.select(entry_arr(ex, s, ("f", "spec", "P")), tm.add(fld0(ex, s, "sol_D", "P"), c_)), tm.sym("L_count_spec", "I"))
        ag.put("Dwt_written_to_the_cell's_own_slot_sol_D[c].spec[count_spec]", len(tgt) == 1 and all(same(hy, ix[0], slot) for ix in tgt), tgt)
        if not w:
            continue
        m += 1
        val = w[-1][1]
        f0 = tm.sym("L_viscos_f0", "R")
        for hy1 in split(hy, [tm.eq(g("dw"), R(0)), tm.eq(g("dw_t"), R(0)), tm.eq(g("dw_a_v_dif"), R(0))]):
            base = fld0(ex, s, "default_Dw", "R") if proved(hy1, tm.eq(g("dw"), R(0))) else g("dw")
            spec = base * f0
            E = _apps(val, "exp"); Pw = _apps(val, "pow")
            if not proved(hy1, tm.eq(g("dw"), R(0))) and not proved(hy1, tm.eq(g("dw_t"), R(0))):
                if len(E) != 1:
                    ag.put("temperature_correction_present_when_dw_t_given", False, val); continue
                ag.eq("temperature_correction_exponent==dw_t/T-dw_t/298.15", hy1, E[0].args[1], g("dw_t") / tm.sym("L_l_tk_x", "R") - g("dw_t") / tm.num("298.15"))
                spec = spec * E[0]
            if not proved(hy1, tm.eq(g("dw_a_v_dif"), R(0))):
                if len(Pw) != 1:
                    ag.put("viscosity_power_present_when_a_v_dif_given", False, val); continue
                ag.eq("viscosity_power_base==viscos_0/viscos_of_the_cell", hy1, Pw[0].args[1], tm.sym("L_viscos0", "R") / tm.sym("L_viscos", "R"))
                ag.eq("viscosity_power_exponent==a_v_dif_of_the_species", hy1, Pw[0].args[2], g("dw_a_v_dif"))
                spec = spec * Pw[0]
            ag.eq("Dwt==Dw*factor[*temperature][*viscosity_power]", hy1, val, spec)
    reach(r, "Dwt_block", m, 3)
    ag.flush()
    r.assumptions += ["exp/pow uninterpreted; accessors of cxxSolution functional; sol_D, cell_data entries addressed by the cell number",
                      "-correct_Dw (Dwt replaced by the species' dw_corr), exchange species and the implicit-scheme species alignment are not under this contract"]
    return r


UNITS += [("C11.fill_spec.diffusion_coefficients_corrected_with_the_cell's_own_factors", unit_fill_spec_factors)]


UNITS = [(uid, fast_twin(f)) for uid, f in UNITS]
from props.c11_ext3 import UNITS as _U3; UNITS = UNITS + _U3
from props.c11_ext4 import UNITS as _U4; UNITS = UNITS + _U4
