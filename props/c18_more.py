"""C18 (added after round-2 seeds): reporting and search bookkeeping of inverse.cpp / tidy.cpp, structural obligations:
(a) every 'clamp tiny value to zero' statement of print_model / punch_model tests the variable it clears (value, minimum and
    maximum are clamped independently — a zero minimum must not wipe a non-zero maximum);
(b) minimal_solve tries to drop every phase and every initial solution (all items but the final solution);
(c) tidy_inverse copies an element-level uncertainty to EVERY redox state of the element (the copy loop does not stop at the
    first match)."""
import re
from props.common import *
from vf.core import FAILED, DISCHARGED, UNDECIDED

INV = "src/phreeqcpp/inverse.cpp"
TIDY = "src/phreeqcpp/tidy.cpp"


def unit_inverse_reporting(twin=False):
    r = U.new_unit("C18.inverse.report_clamps_and_minimal_search_cover_every_item", INV, "Phreeqc::punch_model", A.find_function(INV, "Phreeqc::punch_model"), kind="structural")
    n = 0
    for q in ("Phreeqc::print_model", "Phreeqc::punch_model"):
        fn = A.find_function(INV, q)
        for x in A.walk(fn):
            if x.get("kind") != "IfStmt":
                continue
            m = re.match(r"^equal\((\w+),0\.0,MIN_TOTAL_INVERSE\)==TRUE$", text_of(INV, x["inner"][0]))
            if not m:
                continue
            m2 = re.match(r"^(\w+)=0\.0;?$", text_of(INV, x["inner"][1]))
            if not m2:
                continue
            n += 1
            ok = m.group(1) == m2.group(1)
            if twin and n == 1:
                ok = False
            line = x.get("range", {}).get("begin", {}).get("line", "?")
            r.add("%s.clamp[%d].clears_the_variable_it_tests(%s)" % (q.split("::")[-1], n, m.group(1)), DISCHARGED if ok else FAILED, "syntactic", 0, "tests %s, clears %s" % (m.group(1), m2.group(1)))
    r.add("reach.clamps", DISCHARGED if n >= 12 else UNDECIDED, "syntactic", 0, "%d clamp statements" % n, kind="vacuity")
    fm = A.find_function(INV, "Phreeqc::minimal_solve")
    loops = [x for x in A.walk(fm) if x.get("kind") == "ForStmt"]
    bounds = [text_of(INV, lp["inner"][2]) for lp in loops if "get_bits(minimal_bits" in text_of(INV, lp["inner"][-1])]
    ok = bounds == ["i<inv_ptr->phases.size()+inv_ptr->count_solns-1"]
    r.add("minimal_solve.tries_every_phase_and_every_initial_solution", DISCHARGED if ok else FAILED, "syntactic", 0, "loop bound(s): %r (items = phases + solutions; the last solution is the final one)" % (bounds,))
    ft = A.find_function(TIDY, "Phreeqc::tidy_inverse")
    copy = [x for x in A.walk(ft) if x.get("kind") == "IfStmt" and text_of(TIDY, x["inner"][0]) == "master_ptr==inv_elts[k].master->elt->primary"]
    if len(copy) != 1:
        r.add("tidy_inverse.uncertainty_copy_block_found", UNDECIDED, "syntactic", 0, "%d" % len(copy))
    else:
        brk = [y for y in A.walk(copy[0]["inner"][1]) if y.get("kind") in ("BreakStmt", "ReturnStmt", "GotoStmt")]
        r.add("tidy_inverse.element_uncertainty_copied_to_every_redox_state(no_early_exit)", DISCHARGED if not brk else FAILED, "syntactic", 0, "%d early exits in the copy block" % len(brk))
    r.assumptions += ["text / shape anchors; the numerical content of the models (cl1) is outside every C18 unit"]
    return r
