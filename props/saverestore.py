"""Save / restore brackets (used by C04 and C09): a local that saves a switch or state variable (`save = X; X = temporary; ...;
X = save;`) is restored INTO the variable it was taken from, in the same block in which it was saved (so that every execution of
the save is matched by a restore, and a value saved from one switch is not written into another)."""
import re, os
from props.common import *
from vf.core import FAILED, DISCHARGED, UNDECIDED, REPO
from vf import callsites as CS


def _parent_map(fn):
    par = {}
    def rec(n):
        for c in n.get("inner", []) or []:
            if isinstance(c, dict):
                par[id(c)] = n
                rec(c)
    rec(fn)
    return par


def unit_save_restore(uid, files, twin=False):
    r = U.new_unit(uid, files[0], "(several)", None, kind="structural")
    n = 0
    for rel in files:
        txt = src(rel).decode("latin1")
        if not re.search(r"\b\w*[sS]ave\w*\s*=", txt):
            continue
        cands = set()
        for m in re.finditer(r"\b(\w*[sS]ave\w*)\s*=\s*[^=;]+;", txt):
            cands.add(m.group(1))
        funcs = set()
        for name in cands:
            for q, _ in CS.enclosing_functions(rel, name):
                funcs.add(q)
        for q in sorted(funcs):
            try:
                fn = A.find_function(rel, q)
            except Exception:
                continue
            par = _parent_map(fn)
            def block_of(node):
                p = par.get(id(node))
                while p is not None and p.get("kind") != "CompoundStmt":
                    p = par.get(id(p))
                return p
            saves = {}      # local decl id -> (name, saved expr text, node)
            for x in A.walk(fn):
                if x.get("kind") == "VarDecl" and x.get("init") and re.search(r"[sS]ave", x.get("name", "")) and x.get("inner"):
                    q_t = (x.get("type", {}).get("qualType") or "")
                    if q_t in ("bool", "int", "double", "LDBLE") or q_t.endswith("*"):
                        saves[x["id"]] = (x["name"], text_of(rel, x["inner"][-1]), x)
                if x.get("kind") == "BinaryOperator" and x.get("opcode") == "=":
                    l = strip(x["inner"][0])
                    if l.get("kind") == "DeclRefExpr" and re.search(r"[sS]ave", l.get("referencedDecl", {}).get("name", "")) and l["referencedDecl"].get("kind") == "VarDecl":
                        rt = text_of(rel, x["inner"][1])
                        if re.match(r"^[\w\.\->:]+$", rt):
                            saves[l["referencedDecl"]["id"]] = (l["referencedDecl"]["name"], rt, x)
            for did, (name, saved, snode) in saves.items():
                restores = []
                for x in A.walk(fn):
                    if x.get("kind") == "BinaryOperator" and x.get("opcode") == "=":
                        rr = strip(x["inner"][1])
                        if rr.get("kind") == "DeclRefExpr" and rr.get("referencedDecl", {}).get("id") == did:
                            restores.append((text_of(rel, x["inner"][0]), x))
                if not restores:
                    continue
                n += 1
                norm = lambda t: t.replace("this->", "")
                for tgt, rnode in restores:
                    same = norm(tgt) == norm(saved)
                    if twin and n == 1:
                        same = False
                    r.add("%s.%s.restored_into_what_it_saved" % (q.split("::")[-1], name), DISCHARGED if same else FAILED, "syntactic", 0, "saved from %s, written back to %s" % (saved, tgt))
                    sb, rb = block_of(snode), block_of(rnode)
                    # the restore must be in the block of the save or in a block nested in the same iteration (never outside a loop the save is in)
                    def loops_above(node):
                        out = []; p = par.get(id(node))
                        while p is not None:
                            if p.get("kind") in ("ForStmt", "WhileStmt", "DoStmt"): out.append(id(p))
                            p = par.get(id(p))
                        return out
                    ok = set(loops_above(snode)) <= set(loops_above(rnode))
                    r.add("%s.%s.restored_in_every_iteration_that_saves" % (q.split("::")[-1], name), DISCHARGED if ok else FAILED, "syntactic", 0,
                          "" if ok else "the save is inside a loop the restore is outside of")
    r.add("reach.brackets", DISCHARGED if n >= 1 else UNDECIDED, "syntactic", 0, "%d save/restore brackets" % n, kind="vacuity")
    r.assumptions += ["brackets are recognised by a local whose name contains 'save' that is later assigned back", "what happens between save and restore is not under this unit"]
    return r
