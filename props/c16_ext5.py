"""C16 (fifth wave): sit.cpp sit(): the loop "Add F and CSUM terms to sit_LGAMMA".  Every ion of ion_list receives, exactly once, the
Debye-Hueckel contribution z_i^2 * F to its log10 gamma, with F the value the Debye-Hueckel block computed; that increment is the Gibbs-Duhem
partner of the Debye-Hueckel part of OSMOT (d OSMOT_DH / dI == sum_k m_k d(z_k^2 F)/dI with sum_k m_k z_k^2 = 2 I); the accumulator
sit_LGAMMA[i] is zeroed for every solute loaded before the sums, and what is reported (lg_pitzer) is the accumulator of the same species.

(pitzer() TYPE_C0: already under contract by C16.pitzer.binary_and_Debye_Hueckel_terms_obey_Gibbs_Duhem - TYPE_C0.Gibbs_Duhem.* and
TYPE_C0.symmetric_in_the_two_ions - and C16.pitzer.every_term_of_the_sum...; a changed divisor in one of the two LGAMMA statements fails
three obligations there, so no duplicate unit is added.)"""
import sympy
from props.common import *
from vf.core import FAILED, DISCHARGED, UNDECIDED

SIT = "src/phreeqcpp/sit.cpp"
Q = "Phreeqc::sit"


def _loops(fn):
    return [x for x in A.walk(fn) if x.get("kind") in ("ForStmt", "WhileStmt", "DoStmt")]


def _roles(fn):
    """loops of sit() located by what their bodies touch (not by their bounds, steps or the arithmetic inside)"""
    role = {}
    for k, lp in enumerate(_loops(fn)):
        t = text_of(SIT, lp["inner"][-1])
        if "OSUM" in t: key = "sums"
        elif "sit_LGAMMA" not in t: continue
        elif "sit_params" in t: key = "eps"
        elif "lg_pitzer" in t: key = "store"
        else: key = "dh"
        if key in role:
            raise Undecided("sit(): two loops look like the `%s` loop" % key)
        role[key] = k
    if set(role) != {"eps", "store", "sums", "dh"}:
        raise Undecided("sit(): loops over sit_LGAMMA not recognised: %r" % (role,))
    return role


def _vdata(ex, s, name):
    return tm.select(entry_arr(ex, s, ("f", "#vdata", "P")), tm.app("fld:" + name, (THIS,), "P"))


def _vsize(ex, s, name):
    return tm.select(entry_arr(ex, s, ("f", "#vsize", "I")), tm.app("fld:" + name, (THIS,), "P"))


def unit_sit_dh_loop(twin=False):
    fn = A.find_function(SIT, Q)
    r = U.new_unit("C16.sit.every_ion_gets_z^2*F_once_the_Gibbs_Duhem_partner_of_the_DH_osmotic_term", SIT, Q, fn)
    role = _roles(fn)
    c = ctx(functional=("fabs",))
    # ---- the Debye-Hueckel loop: one iteration from an arbitrary state
    f, ex, its, info = U.run_loop_isolated(SIT, Q, role["dh"], ctx=c)
    lv = live(its, ("run", "cont"))
    nd = 0
    delta_over_z2 = None
    for s in lv:
        j = tm.sym("iter_j", "I")
        idx = tm.select(entry_arr(ex, s, ("m", "I")), _vdata(ex, s, "ion_list"), j)
        LG = _vdata(ex, s, "sit_LGAMMA")
        memR = entry_arr(ex, s, ("m", "R"))
        wr = writes(s, ("m", "R"))
        one = len(wr) == 1 and wr[0][0][0] is LG
        r.add("DH.one_update_of_sit_LGAMMA_per_ion", DISCHARGED if one else FAILED, "symex", 0, repr([ix for ix, v in wr])[:200], kind="frame")
        if not one:
            continue
        (ix, val) = wr[0]
        U.discharge_valid(r, "DH.the_ion_updated_is_ion_list[j]", list(s.pc), tm.eq(ix[1], idx))
        sp = tm.select(entry_arr(ex, s, ("m", "P")), _vdata(ex, s, "spec"), idx)
        z = fld0(ex, s, "z", "R", sp)
        Fv = tm.sym("L_F", "R")
        want = tm.select(memR, LG, idx) + (z * z * Fv if not twin else z * Fv)
        U.discharge_eq_real(r, "DH.log_gamma[i]+=z_i^2*F", list(s.pc), val, want)
        try:
            okF = local(info, s, "F") is Fv
        except KeyError:
            raise Undecided("local F of sit() not found (renamed?)")
        r.add("DH.F_is_the_same_for_every_ion(not_modified_in_the_loop)", DISCHARGED if okF else FAILED, "symex", 0, "", kind="frame")
        oth = [k for k in s.heap if k != ("m", "R") and s.heap[k].op == "store" and k not in (("f", "#vdata", "P"),) and writes(s, k)]
        r.add("DH.nothing_else_written", DISCHARGED if not oth else FAILED, "symex", 0, repr(oth)[:200], kind="frame")
        nd += 1
        delta_over_z2 = (val - tm.select(memR, LG, idx), z)
    r.add("reach.DH_iteration", DISCHARGED if nd == 1 else UNDECIDED, "symex", 0, "%d" % nd, kind="vacuity")
    if lv:
        check_loop_range(r, "DH", ex, c, info, lv, "j", tm.num(0, "I"), lambda v: tm.lt(v, _vsize(ex, lv[0], "ion_list")))
    # ---- F used there is the F of the Debye-Hueckel block (nearest preceding assignment; the epsilon loop in between leaves it alone)
    stF = find_stmt(fn, SIT, "F =", prefix=True, kinds=("BinaryOperator",))
    a = initial_value_before(fn, SIT, loop_node(fn, role["dh"]), "F")
    okA = a is not None and a[0] == "=" and A.squeeze(a[1]) == A.squeeze(text_of(SIT, stF["inner"][1]))
    r.add("DH.F_of_the_loop_is_the_F_of_the_Debye_Hueckel_block", DISCHARGED if okA else FAILED, "syntactic", 0, repr(a)[:160], kind="structural")
    f3, ex3, its3, info3 = U.run_loop_isolated(SIT, Q, role["eps"], ctx=stop_on_error_msg(ctx()))
    keep = [local(info3, s, "F") is tm.sym("L_F", "R") for s in live(its3, ("run", "cont", "brk"))]
    r.add("DH.epsilon_loop_leaves_F_alone", DISCHARGED if keep and all(keep) else (FAILED if keep else UNDECIDED), "symex", 0, "%d paths" % len(keep), kind="frame")
    # ---- Gibbs-Duhem pairing with the Debye-Hueckel part of OSMOT: the increment of the loop with F of the block substituted
    sts = [find_stmt(fn, SIT, t, prefix=True, kinds=("BinaryOperator",)) for t in ("DI =", "AGAMMA =", "A =", "B =", "F =", "T =", "OSMOT =")]
    f2, ex2, fin2, info2 = region(SIT, Q, sts, ctx())
    ng = 0
    for s in live(fin2):
        if delta_over_z2 is None:
            break
        cv = B.SymConv()
        I = sympy.Symbol("I", positive=True)
        i0 = cv.conv(tm.sym("L_I", "R"))
        Fb = cv.conv(local(info2, s, "F")).subs(i0, I)
        OS = cv.conv(local(info2, s, "OSMOT")).subs(i0, I)
        OS = OS.replace(lambda e: getattr(e, "func", None) is not None and str(e.func) == "uf_log", lambda e: sympy.log(e.args[0]))
        d, z = delta_over_z2
        zs = sympy.Symbol("z", positive=True)
        ds = cv.conv(d).subs(cv.conv(z), zs).subs(cv.conv(tm.sym("L_F", "R")), Fb)
        # sum_k m_k d(dlg_k)/dI with dlg_k = z_k^2 * phi(I): (sum_k m_k z_k^2) phi'(I) = 2 I phi'(I)
        phi = sympy.simplify(ds / zs ** 2)
        okz = not phi.has(zs)
        r.add("GD.increment_is_z^2_times_a_function_of_I_only", DISCHARGED if okz else FAILED, "sympy", 0, str(phi)[:160])
        lhs = sympy.diff(OS, I) * (1 if not twin else 2)
        res = sympy.simplify(lhs - 2 * I * sympy.diff(phi, I))
        r.add("GD.dOSMOT_DH/dI==sum_k(m_k*d(z_k^2*F)/dI)(sum_m_z^2=2I)", DISCHARGED if res == 0 else FAILED, "sympy.diff", 0, "" if res == 0 else str(res)[:200])
        ng += 1
    r.add("reach.GD", DISCHARGED if ng == 1 else UNDECIDED, "symex", 0, "%d" % ng, kind="vacuity")
    # ---- the accumulator is zeroed for every solute loaded, in the loop that forms the sums
    f4, ex4, its4, info4 = U.run_loop_isolated(SIT, Q, role["sums"], ctx=c)
    nz = 0
    for s in live(its4, ("run", "cont")):
        idx = tm.select(entry_arr(ex4, s, ("m", "I")), _vdata(ex4, s, "s_list"), tm.sym("iter_j", "I"))
        LG = _vdata(ex4, s, "sit_LGAMMA")
        wr = [(ix, v) for ix, v in writes(s, ("m", "R")) if ix[0] is LG]
        ok = len(wr) == 1 and B.z3_prove(list(s.pc), tm.eq(wr[0][0][1], idx))[0] == "proved" and B.z3_prove(list(s.pc), tm.eq(wr[0][1], tm.num(0)))[0] == "proved"
        r.add("reset.log_gamma[s_list[j]]=0_before_the_terms_are_added", DISCHARGED if ok else FAILED, "z3", 0, repr(wr)[:200])
        nz += 1
    r.add("reach.reset", DISCHARGED if nz else UNDECIDED, "symex", 0, "%d" % nz, kind="vacuity")
    # ---- what is reported: lg_pitzer of species s_list[j] is its own accumulator
    f5, ex5, its5, info5 = U.run_loop_isolated(SIT, Q, role["store"], ctx=c)
    ns = 0
    for s in live(its5, ("run", "cont")):
        idx = tm.select(entry_arr(ex5, s, ("m", "I")), _vdata(ex5, s, "s_list"), tm.sym("iter_j", "I"))
        sp = tm.select(entry_arr(ex5, s, ("m", "P")), _vdata(ex5, s, "spec"), idx)
        wr = writes(s, ("f", "lg_pitzer", "R"))
        val = tm.select(entry_arr(ex5, s, ("m", "R")), _vdata(ex5, s, "sit_LGAMMA"), idx)
        ok = len(wr) == 1 and B.z3_prove(list(s.pc), tm.eq(wr[0][0] if not isinstance(wr[0][0], tuple) else wr[0][0][0], sp))[0] == "proved"
        r.add("store.lg_pitzer_of_species_s_list[j]_written", DISCHARGED if ok else FAILED, "z3", 0, repr(wr)[:200])
        if len(wr) == 1:
            U.discharge_eq_real(r, "store.lg_pitzer==sit_LGAMMA_of_the_same_species", list(s.pc), wr[0][1], val)
        ns += 1
    r.add("reach.store", DISCHARGED if ns else UNDECIDED, "symex", 0, "%d" % ns, kind="vacuity")
    r.assumptions += ["ion_list holds the charged solutes present (unit C16.sit_make_lists...), each once", "sum_k m_k z_k^2 = 2 I with I the ionic strength the block used (mu_x, as coded)",
                      "the loops are recognised by the members their bodies touch (sit_LGAMMA with sit_params / lg_pitzer / OSUM / none of them); locals read by name: F, OSMOT, I, j",
                      "that no statement between the Debye-Hueckel block and the loop re-assigns F is read off the statement list (nearest preceding assignment) plus the iteration contract of the epsilon loop",
                      "doubles as reals; log as the real logarithm"]
    return r


UNITS = [("C16.sit.every_ion_gets_z^2*F_once_the_Gibbs_Duhem_partner_of_the_DH_osmotic_term", unit_sit_dh_loop)]
