"""C17 extension 2: the drivers of the interpreter (basic_compile / basic_run / basic_renumber / basic_main), the commands that start and end
a run (RUN, END, NEW, BYE) and the error handler of exec."""
from props.c17_ext_model import *
from props.c17_ext_loops import pv
from props.c17_ext2_parse import thrower, equivalent
from props.c17_ext2_lines import cond_of

BASES = (("linebase", 1), ("varbase", 2), ("loopbase", 3))


def dctx():
    c = mkctx()
    c.functional.update({"strlen", "P_eof"})
    c.handlers["Phreeqc::malloc_error"] = thrower
    stop_on_error_msg(c)

    def h_parseinput(ex_, st, n, name, recv, args):
        """parseinput(&buf): tokenizes the line buffer; leaves the line number in curline (0: immediate) and the tokens in *l_buf"""
        st.events.append(SX.Event(name, recv, args, ZI, n))
        ex_.store(st, ("field", "curline", ex_.ctx.this), fresh("curline", "I"), "I")
        ex_.store(st, ex_.deref(st, args[0]), fresh("tokens", "P"), "P")
        return [(st, ZI)]
    c.handlers["PBasic::parseinput"] = h_parseinput

    def h_exec(ex_, st, n, name, recv, args):
        e_ = SX.Event(name, recv, args, ZI, n)
        e_.snap = {k: F(ex_, st, k, "P", ex_.ctx.this) for k in ("stmtline", "stmttok", "buf")}
        st.events.append(e_)
        for k, so in (("exitflag", "B"), ("P_escapecode", "I"), ("stmtline", "P"), ("stmttok", "P"), ("linebase", "P"), ("varbase", "P"), ("loopbase", "P")):
            ex_.store(st, ("field", k, ex_.ctx.this), fresh("after_exec_" + k, so), so)
        return [(st, ZI)]
    c.handlers["PBasic::exec"] = h_exec

    def h_sget(ex_, st, n, name, recv, args):
        """sget_logical_line(&ptr, &l, line): EOF at the end of the command text, otherwise the next logical line copied into `line`"""
        out = []
        a, b = st.clone(), st
        ea = SX.Event(name, recv, args, tm.num(-1, "I"), n)
        a.events.append(ea)
        out.append((a, tm.num(-1, "I")))
        eb = SX.Event(name, recv, args, tm.num(1, "I"), n)
        b.events.append(eb)
        out.append((b, tm.num(1, "I")))
        return out
    c.handlers["PBasic::sget_logical_line"] = h_sget
    return c


def loc(ex, info, s, name, sort):
    """value of a local, also when it lives in memory because its address is taken"""
    v = s.locals.get(info["names"][name])
    if isinstance(v, tuple) and v[0] == "obj":
        return tm.select(ex.heap_arr(s, ("m", sort)), v[1], ZI)
    return v


def the_loops(fn):
    lps = loops_of(fn)
    dos = [l for l in lps if l["kind"] == "DoStmt"]
    inner = [l for l in dos if any(o is not l and any(y is l for y in A.walk(o)) for o in dos)]
    outer = [l for l in dos if l not in inner]
    if len(inner) != 1 or len(outer) != 1:
        raise Undecided("driver: retry loop / line loop not found")
    return lps.index(outer[0]), lps.index(inner[0])


def catch_body(fn, type_text):
    for x in A.walk(fn):
        if x.get("kind") == "CXXCatchStmt" and x.get("inner") and x["inner"][0].get("kind") == "VarDecl" and type_text in x["inner"][0].get("type", {}).get("qualType", ""):
            return x["inner"][-1]
    return None


def _line_loop(r, q, tag, twin=False):
    """one pass of the line loop of a driver (iteration contract)"""
    fn = A.find_function(PB, q)
    o_outer, o_inner = the_loops(fn)
    f, ex, its, info = run_iter(q, o_inner, dctx())
    n = {"immediate": 0, "empty": 0, "numbered": 0, "eof": 0}
    for s in alive(its, ("run", "cont")):
        E = U.iter_events(s)
        sg = [e for e in E if e.name.endswith("sget_logical_line")]
        pi = [e for e in E if e.name.endswith("parseinput")]
        xs = [e for e in E if e.name.endswith("::exec")]
        dt = [e for e in E if e.name.endswith("disposetokens")]
        if not ok(r, "%s.line.one_logical_line_is_fetched_then_parsed_once" % tag, len(sg) == 1 and len(pi) == 1 and E.index(sg[0]) < E.index(pi[0]), "%d %d" % (len(sg), len(pi))):
            continue
        ib = tm.select(entry_arr(ex, s, ("f", "inbuf", "P")), THIS)
        ok(r, "%s.line.fetched_into_the_line_buffer_that_is_parsed" % tag, sg[0].args[2] is ib and pi[0].args[0] is tm.app("fld:buf", (THIS,), "P"), "%s" % (sg[0].args,))
        cp = [e for e in E if e.name == "strcpy"]
        if sg[0].result is tm.num(-1, "I"):
            n["eof"] += 1
            if q.endswith("basic_renumber"):
                ok(r, "%s.line.at_the_end_of_the_text_one_closing_command_is_supplied" % tag, len(cp) <= 1 and all(e.args[0] is ib and e.args[1].op == "str" for e in cp), "%s" % cp)
            else:
                ok(r, "%s.line.at_the_end_of_the_text_the_command_bye_is_supplied" % tag, len(cp) == 1 and cp[0].args[0] is ib and cp[0].args[1].op == "str" and cp[0].args[1].args[0] == '"bye"', "%s" % cp)
        else:
            ok(r, "%s.line.a_fetched_line_is_parsed_as_it_is" % tag, not cp, "%s" % cp)
        cur = F(ex, s, "curline", "I", THIS) if not xs else None
        hy = hyp(s)
        curv = [v for ix, v in writes(s, ("f", "curline", "I"))]
        toks = [v for ix, v in writes(s, ("m", "P"))] + [v for ix, v in writes(s, ("f", "buf", "P"))]
        curv = curv[0] if curv else None
        tok = None
        for t_ in list(s.pc) + [x for e in xs for x in e.snap.values()] + [a for e in dt for a in e.args]:
            for x in tm.subterms(t_):
                if x.op == "sym" and x.args[0].startswith("tokens!"):
                    tok = x
        if curv is None:
            ok(r, "%s.line.number_read_after_parsing" % tag, False, ""); continue
        if xs:
            n["immediate"] += 1
            U.discharge_valid(r, "%s.line.executed_only_without_a_line_number_and_with_tokens" % tag, hy, tm.and_(tm.eq(curv, ZI), tm.not_(tm.eq(xs[0].snap["buf"], NULLP))))
            ok(r, "%s.line.executed_once_from_its_first_token_with_no_current_line" % tag, len(xs) == 1 and xs[0].snap["stmtline"] is NULLP and xs[0].snap["stmttok"] is xs[0].snap["buf"] and (not twin), "%s" % xs[0].snap)
            ok(r, "%s.line.its_tokens_are_released_once_after_execution" % tag, len(dt) == 1 and dt[0].args[0] is tm.app("fld:buf", (THIS,), "P") and E.index(dt[0]) > E.index(xs[0]), "%s" % dt)
        else:
            for hy2, imm in cases(hy, tm.eq(curv, ZI)):
                if imm:
                    n["empty"] += 1
                    U.discharge_valid(r, "%s.line.not_executed_only_when_it_has_no_tokens" % tag, hy2, tm.eq(F(ex, s, "buf", "P", THIS), NULLP))
                    ok(r, "%s.line.immediate_line_without_tokens_is_released_all_the_same" % tag, len(dt) == 1, "%s" % dt)
                else:
                    n["numbered"] += 1
                    ok(r, "%s.line.numbered_line_is_neither_executed_nor_released(it_belongs_to_the_program)" % tag, not dt, "%s" % dt)
    reach(r, "%s.reach.line(immediate,empty,numbered,end_of_text)" % tag, min(n.values()))
    cond = cond_of(q, o_inner, dctx())
    spec = tm.not_(tm.or_(F0("exitflag", "B", THIS), tm.not_(tm.eq(tm.app("call:P_eof", (THIS,), "I"), ZI))))
    ok(r, "%s.line.loop_goes_on_until_BYE_or_the_end_of_input" % tag, equivalent(cond, spec), repr(cond)[:200])


def unit_compile(twin=False):
    """basic_compile builds a NEW program: error state cleared, the three bases (lines, variables, loop stack) empty before the first
    line is read, every logical line of the command text parsed (numbered lines stored, immediate ones executed); at the end the three
    bases are handed back, each through ITS pointer (also on the path of an input error that stops the run), the line buffer is released
    and the escape code is the result."""
    q = "PBasic::basic_compile"
    fn = A.find_function(PB, q)
    r = U.new_unit("C17.basic_compile.new_program_starts_from_empty_bases_and_is_handed_back_through_the_callers_three_pointers", PB, q, fn)
    o_outer, o_inner = the_loops(fn)
    snaps = {}
    f, ex, fin, info = run_fn(q, dctx(), loop=snap_and_havoc(snaps, assume_exit=False))
    ne = 0
    for s in alive(snaps.get(o_outer, [])):
        ne += 1
        pv(r, "entry.error_state_cleared", s, tm.and_(tm.eq(F(ex, s, "P_escapecode", "I", THIS), ZI), tm.eq(F(ex, s, "P_ioresult", "I", THIS), ZI), tm.not_(F(ex, s, "exitflag", "B", THIS))))
        pv(r, "entry.the_three_bases_are_empty(a_new_program)", s, tm.and_(*[tm.eq(F(ex, s, k, "P", THIS), NULLP) for k, _ in BASES]))
        al = evs(s, "PHRQ_calloc")
        ok(r, "entry.line_buffer_allocated_with_the_engine's_line_length", len(al) == 1 and F(ex, s, "inbuf", "P", THIS) is al[0].result and al[0].args[0] is F0("max_line", "I", F0("PhreeqcPtr", "P", THIS)), "%s" % al)
        pv(r, "entry.reading_starts_at_the_beginning_of_the_command_text", s, tm.eq(loc(ex, info, s, "ptr", "P"), tm.sym("P0_commands", "P")))
    nf = 0
    for s in alive(fin, ("ret",)):
        nf += 1
        _handback(r, ex, s, "exit", twin)
        U.discharge_valid(r, "exit.result_is_the_escape_code", hyp(s), tm.eq(s.ret, F(ex, s, "P_escapecode", "I", THIS)))
        fr = [e for e in after(s) if e.name.endswith("PHRQ_free")]
        ok(r, "exit.line_buffer_released_once", len(fr) == 1 and fr[0].args[0] is Fb(ex, s, "inbuf", "P", THIS), "%s" % fr)
    # the handler of an input error that stops the run
    cb = catch_body(fn, "PhreeqcStop")
    nh = 0
    if cb is None:
        r.add("stop.handler_found", UNDECIDED, "ast", 0, "")
    else:
        f2, ex2, fin2, info2 = run_stmts(q, [cb], dctx())
        for s in alive(fin2):
            nh += 1
            ok(r, "stop.the_error_is_passed_on_to_the_caller", s.status == "throw", s.status)
            _handback(r, ex2, s, "stop", False, params={1: tm.sym("L_lnbase", "P"), 2: tm.sym("L_vbase", "P"), 3: tm.sym("L_lpbase", "P")})
            ok(r, "stop.tokens_of_the_line_at_hand_and_the_line_buffer_are_released", len(evs(s, "disposetokens")) == 1 and len(evs(s, "PHRQ_free")) == 1, "")
    _line_loop(r, q, "compile", twin=False)
    reach(r, "reach.compile(entry,exit,stop_handler)", min(ne, nf, nh))
    r.assumptions += ["the loops are summarised (everything they write is arbitrary behind them); the body of the line loop is under the iteration contract `compile.line.*`", "the handler of PBasicStop only reports; try body executed on the no-throw path",
                      "parseinput / exec / sget_logical_line by their contracts (units C17.parseinput..., C17.exec...)", "allocation failure ends the run"]
    return r


def _handback(r, ex, s, tag, twin, params=None):
    mem = ex.heap_arr(s, ("m", "P"))
    for k, (field, pi) in enumerate(BASES):
        p = (params or {}).get(pi) or tm.sym("P%d_%s" % (pi, {1: "lnbase", 2: "vbase", 3: "lpbase"}[pi]), "P")
        want = F(ex, s, field if not (twin and field == "varbase") else "linebase", "P", THIS)
        U.discharge_valid(r, "%s.%s_is_handed_back_through_its_own_pointer" % (tag, field), hyp(s) + [tm.not_(tm.eq(tm.sym("P1_lnbase", "P"), tm.sym("P2_vbase", "P"))), tm.not_(tm.eq(tm.sym("P1_lnbase", "P"), tm.sym("P3_lpbase", "P"))), tm.not_(tm.eq(tm.sym("P2_vbase", "P"), tm.sym("P3_lpbase", "P"))),
                                                                                              tm.not_(tm.eq(tm.sym("L_lnbase", "P"), tm.sym("L_vbase", "P"))), tm.not_(tm.eq(tm.sym("L_lnbase", "P"), tm.sym("L_lpbase", "P"))), tm.not_(tm.eq(tm.sym("L_vbase", "P"), tm.sym("L_lpbase", "P")))],
                          tm.eq(tm.select(mem, p, ZI), want))


def unit_run(twin=False):
    """basic_run executes the command text (`run`) on the program the caller hands in: error state cleared, the interpreter's three bases
    are exactly the caller's three (lines, variables, loop stack - each from its own argument) before the first line is read; afterwards
    variables, loop stack and DATA pointer are cleared for the next run, the line buffer is released and the escape code (0: no error)
    is the result."""
    q = "PBasic::basic_run"
    fn = A.find_function(PB, q)
    r = U.new_unit("C17.basic_run.runs_on_the_callers_three_bases_and_leaves_a_clean_state", PB, q, fn)
    o_outer, o_inner = the_loops(fn)
    snaps = {}
    f, ex, fin, info = run_fn(q, dctx(), loop=snap_and_havoc(snaps, assume_exit=False))
    ne = nf = 0
    PAR = {"linebase": tm.sym("P1_lnbase", "P"), "varbase": tm.sym("P2_vbase", "P"), "loopbase": tm.sym("P3_lpbase", "P")}
    for s in alive(snaps.get(o_outer, [])):
        ne += 1
        pv(r, "entry.error_state_cleared", s, tm.and_(tm.eq(F(ex, s, "P_escapecode", "I", THIS), ZI), tm.eq(F(ex, s, "P_ioresult", "I", THIS), ZI), tm.not_(F(ex, s, "exitflag", "B", THIS))))
        for k, _ in BASES:
            pv(r, "entry.%s_is_the_caller's" % k, s, tm.eq(F(ex, s, k, "P", THIS), PAR[k if not (twin and k == "loopbase") else "varbase"]))
        al = evs(s, "PHRQ_calloc")
        ok(r, "entry.line_buffer_allocated_with_the_engine's_line_length", len(al) == 1 and F(ex, s, "inbuf", "P", THIS) is al[0].result and al[0].args[0] is F0("max_line", "I", F0("PhreeqcPtr", "P", THIS)), "%s" % al)
        pv(r, "entry.reading_starts_at_the_beginning_of_the_command_text", s, tm.eq(loc(ex, info, s, "ptr", "P"), tm.sym("P0_commands", "P")))
    for s in alive(fin, ("ret",)):
        nf += 1
        af = [e.name.split("::")[-1] for e in after(s)]
        ok(r, "exit.variables_loop_stack_and_DATA_pointer_are_cleared_once_each", sorted(x for x in af if x in ("clearvars", "clearloops", "restoredata")) == ["clearloops", "clearvars", "restoredata"], "%s" % af)
        fr = [e for e in after(s) if e.name.endswith("PHRQ_free")]
        ok(r, "exit.line_buffer_released_once", len(fr) == 1 and fr[0].args[0] is Fb(ex, s, "inbuf", "P", THIS), "%s" % fr)
        U.discharge_valid(r, "exit.result_is_the_escape_code_of_the_run", hyp(s), tm.eq(s.ret, Fb(ex, s, "P_escapecode", "I", THIS)))
        ok(r, "exit.escape_code_not_touched_behind_the_run", not writes(s, ("f", "P_escapecode", "I")), "", kind="frame")
    _line_loop(r, q, "run", twin=False)
    reach(r, "reach.run(entry,exit)", min(ne, nf))
    r.assumptions += ["the loops are summarised (everything they write is arbitrary behind them); the body of the line loop is under the iteration contract `run.line.*`", "clearvars / clearloops / restoredata: units C17.clearvar..., C17.cmdrun...",
                      "the handler of PBasicStop only reports; try body executed on the no-throw path", "allocation failure ends the run"]
    return r


def unit_siblings(twin=False):
    """basic_renumber and basic_main feed the interpreter like basic_compile does (sibling entry points): cleared error state and empty
    bases before the first line, every logical line parsed once, immediate lines executed once and released; basic_renumber supplies
    RENUM, LIST, NEW, BYE - in that order - at the end of the text and hands the bases back through the caller's three pointers."""
    r = U.new_unit("C17.basic_renumber_main.sibling_drivers_feed_the_interpreter_like_basic_compile", PB, "PBasic::basic_renumber", A.find_function(PB, "PBasic::basic_renumber"))
    n = 0
    for q, tag in (("PBasic::basic_renumber", "renumber"), ("PBasic::basic_main", "main")):
        fn = A.find_function(PB, q)
        o_outer, o_inner = the_loops(fn)
        snaps = {}
        f, ex, fin, info = run_fn(q, dctx(), loop=snap_and_havoc(snaps, assume_exit=False))
        for s in alive(snaps.get(o_outer, [])):
            n += 1
            pv(r, "%s.entry.error_state_cleared" % tag, s, tm.and_(tm.eq(F(ex, s, "P_escapecode", "I", THIS), ZI), tm.eq(F(ex, s, "P_ioresult", "I", THIS), ZI), tm.not_(F(ex, s, "exitflag", "B", THIS))))
            pv(r, "%s.entry.the_three_bases_are_empty" % tag, s, tm.and_(*[tm.eq(F(ex, s, k, "P", THIS), NULLP if not (twin and k == "varbase") else THIS) for k, _ in BASES]))
        for s in alive(fin, ("ret",)):
            n += 1
            if tag == "renumber":
                _handback(r, ex, s, "renumber.exit", False)
                U.discharge_valid(r, "renumber.exit.result_is_the_escape_code", hyp(s), tm.eq(s.ret, F(ex, s, "P_escapecode", "I", THIS)))
        _line_loop(r, q, tag)
    # the closing commands of basic_renumber, in order
    q = "PBasic::basic_renumber"
    fn = A.find_function(PB, q)
    o_outer, o_inner = the_loops(fn)
    f, ex, its, info = run_iter(q, o_inner, dctx())
    seen = {}
    i_ = tm.sym("iter_i", "I")
    for s in alive(its, ("run", "cont")):
        cp = [e for e in U.iter_events(s) if e.name == "strcpy"]
        for e in cp:
            for k in range(0, 6):
                if B.z3_sat(hyp(s) + [tm.eq(i_, tm.num(k, "I"))]) == "sat":
                    seen.setdefault(k + 1, set()).add(e.args[1].args[0].strip('"'))
    want = {1: {"renum"}, 2: {"list"}, 3: {"new"}, 4: {"bye"}}
    ok(r, "renumber.closing_commands_are_RENUM_LIST_NEW_BYE_in_that_order", {k: v for k, v in seen.items() if v} == want, "%s" % seen)
    reach(r, "reach.siblings", n, 4)
    r.assumptions += ["as for basic_compile; the counter of closing commands starts at 0 for each reading of the text (first statement of the try block)"]
    return r


# ------------------------------------------------------------------------------------------------------------------ RUN / END / NEW / BYE
LINK0 = tm.sym("P0_LINK", "P")


def unit_cmdrun(twin=False):
    """RUN: execution continues at the FIRST line of the stored program (RUN n: at line n, which must exist) as a jump, with all variables
    cleared, the loop stack empty and the DATA pointer at the start - on every path."""
    q = "PBasic::cmdrun"
    fn = A.find_function(PB, q)
    r = U.new_unit("C17.cmdrun.starts_at_the_first_line_with_cleared_variables_loops_and_DATA_pointer", PB, q, fn)
    c = mkctx(); c.handlers["Phreeqc::malloc_error"] = thrower
    f, ex, fin, info = run_fn(q, c)
    n = {"first": 0, "numbered": 0}
    for s in alive(fin, ("run", "ret")):
        if any(e.name.endswith("malloc_error") for e in s.events):
            continue
        names = [e.name.split("::")[-1] for e in s.events]
        if "cmdload" in names:
            continue                                   # RUN "file": loads a program from a file first; files are outside the property
        hy = hyp(s)
        t0 = F0("t", "P", LINK0)
        eos = tm.or_(tm.eq(t0, NULLP), tm.eq(F0("kind", "I", t0), tk("tokelse")), tm.eq(F0("kind", "I", t0), tk("tokcolon")))
        sl = F(ex, s, "stmtline", "P", THIS)
        ml = evs(s, "mustfindline")
        if not ml:
            n["first"] += 1
            U.discharge_valid(r, "plain_RUN.only_when_nothing_follows_the_keyword", hy, eos)
            U.discharge_valid(r, "plain_RUN.current_line_becomes_the_first_line_of_the_program", hy, tm.eq(sl, F0("linebase", "P", THIS) if not twin else F0("next", "P", F0("linebase", "P", THIS))))
        else:
            n["numbered"] += 1
            ie = evs(s, "intexpr")
            U.discharge_valid(r, "RUN_n.only_when_a_number_follows", hy, tm.and_(tm.not_(eos), tm.eq(F0("kind", "I", t0), tk("toknum"))))
            ok(r, "RUN_n.current_line_becomes_the_line_of_that_number(which_must_exist)", len(ml) == 1 and len(ie) == 1 and ml[0].args[0] is ie[0].result and sl is ml[0].result, "%s" % ml)
        pv(r, "RUN.is_a_jump(the_rest_of_the_statement's_line_is_abandoned)", s, F(ex, s, "gotoflag", "B", LINK0))
        ok(r, "RUN.variables_loop_stack_and_DATA_pointer_are_cleared_once_each", sorted(x for x in names if x in ("clearvars", "clearloops", "restoredata")) == ["clearloops", "clearvars", "restoredata"], "%s" % names)
        ok(r, "RUN.the_stored_program_is_not_changed", not [k for k in s.heap if k[0] == "f" and k[1] in ("linebase", "next", "num", "txt", "varbase") and writes(s, k)], "", kind="frame")
    reach(r, "reach.cmdrun(first_line,numbered)", min(n.values()))
    r.assumptions += ["iseos / intexpr / mustfindline by their contracts (units C17.iseos, C17.findline)", "clearvars clears every variable (unit C17.clearvar... on each element of the list), clearloops empties the loop stack, restoredata resets the DATA pointer (this module)",
                      "RUN \"file\" (cmdload) is outside the property"]
    return r


def unit_end_new_bye(twin=False):
    """END: no current line and no token left, so exec's statement loop and line loop both end (execution stops, nothing else changes).
    BYE: sets the exit flag the drivers' line loops test.  restoredata: DATA pointer back to `before the first DATA line`.  clearloops /
    clearvars: pop every loop record / clear every variable of the list.  NEW: ends execution, empties loop stack and DATA pointer and
    releases every line and every variable, leaving both lists empty."""
    r = U.new_unit("C17.cmdend_cmdbye_cmdnew.END_stops_execution_BYE_leaves_the_driver_NEW_empties_the_program", PB, "PBasic::cmdend", A.find_function(PB, "PBasic::cmdend"))
    n = 0
    # END
    f, ex, fin, info = run_fn("PBasic::cmdend", mkctx())
    for s in alive(fin, ("run", "ret")):
        n += 1
        pv(r, "END.no_current_line_and_no_token_left", s, tm.and_(tm.eq(F(ex, s, "stmtline", "P", THIS), NULLP), tm.eq(F(ex, s, "t", "P", LINK0) if not twin else F(ex, s, "t", "P", THIS), NULLP)))
        wr = sorted(k[1] for k in s.heap if k[0] == "f" and writes(s, k))
        ok(r, "END.writes_nothing_else", wr == ["stmtline", "t"], "%s" % wr, kind="frame")
    # BYE
    f, ex, fin, info = run_fn("PBasic::cmdbye", mkctx())
    for s in alive(fin, ("run", "ret")):
        n += 1
        pv(r, "BYE.sets_the_exit_flag", s, F(ex, s, "exitflag", "B", THIS))
        wr = sorted(k[1] for k in s.heap if k[0] == "f" and writes(s, k))
        ok(r, "BYE.writes_nothing_else", wr == ["exitflag"], "%s" % wr, kind="frame")
    # restoredata
    f, ex, fin, info = run_fn("PBasic::restoredata", mkctx())
    for s in alive(fin, ("run", "ret")):
        n += 1
        pv(r, "restoredata.DATA_pointer_is_before_the_first_DATA_line", s, tm.and_(tm.eq(F(ex, s, "dataline", "P", THIS), NULLP), tm.eq(F(ex, s, "datatok", "P", THIS), NULLP)))
        wr = sorted(k[1] for k in s.heap if k[0] == "f" and writes(s, k))
        ok(r, "restoredata.writes_nothing_else", wr == ["dataline", "datatok"], "%s" % wr, kind="frame")
    # clearloops: pops until empty
    q = "PBasic::clearloops"
    cond = cond_of(q, 0, mkctx())
    ok(r, "clearloops.runs_until_the_loop_stack_is_empty", equivalent(cond, tm.not_(tm.eq(F0("loopbase", "P", THIS), NULLP))), repr(cond))
    f, ex, its, info = run_iter(q, 0, mkctx())
    for s in alive(its, ("run", "cont")):
        n += 1
        lb = tm.select(entry_arr(ex, s, ("f", "loopbase", "P")), THIS)
        fr = [e for e in U.iter_events(s) if e.name.endswith("PHRQ_free")]
        ok(r, "clearloops.pops_and_releases_the_top_record", len(fr) == 1 and fr[0].args[0] is lb and F(ex, s, "loopbase", "P", THIS) is tm.select(entry_arr(ex, s, ("f", "next", "P")), lb), "%s" % fr)
    # clearvars: every variable of the list
    q = "PBasic::clearvars"
    snaps = {}
    f, ex, fin, info = run_fn(q, mkctx(), loop=snap_and_havoc(snaps))
    for s in alive(snaps.get(0, [])):
        ok(r, "clearvars.starts_at_the_head_of_the_variable_list", local(info, s, "v") is F(ex, s, "varbase", "P", THIS), "")
    cond = cond_of(q, 0, mkctx())
    ok(r, "clearvars.runs_to_the_end_of_the_variable_list", equivalent(cond, tm.not_(tm.eq(tm.sym("L_v", "P"), NULLP))), repr(cond))
    f, ex, its, info = run_iter(q, 0, mkctx())
    v_ = tm.sym("iter_v", "P")
    for s in alive(its, ("run", "cont")):
        n += 1
        cv = [e for e in U.iter_events(s) if e.name.endswith("clearvar")]
        ok(r, "clearvars.clears_the_variable_at_hand_and_steps_to_the_next", len(cv) == 1 and cv[0].args[0] is v_ and local(info, s, "v") is tm.select(entry_arr(ex, s, ("f", "next", "P")), v_), "%s" % cv)
    # NEW
    q = "PBasic::cmdnew"
    fn = A.find_function(PB, q)
    lps = loops_of(fn)
    top = [l for l in lps if l["kind"] == "WhileStmt" and l in A.body_of(fn).get("inner", [])]
    if len(top) != 2:
        raise Undecided("cmdnew: expected the line loop and the variable loop")
    snaps = {}
    f, ex, fin, info = run_fn(q, mkctx(), loop=snap_and_havoc(snaps))
    first = alive(snaps.get(lps.index(top[0]), []))
    for s in first:
        n += 1
        names = [e.name.split("::")[-1] for e in s.events]
        ok(r, "NEW.ends_execution_and_resets_loop_stack_and_DATA_pointer_first", names[:3] == ["cmdend", "clearloops", "restoredata"], "%s" % names)
    for lp, field, what in ((top[0], "linebase", "line"), (top[1], "varbase", "variable")):
        o = lps.index(lp)
        cond = cond_of(q, o, mkctx())
        ok(r, "NEW.%ss_are_released_until_the_list_is_empty" % what, equivalent(cond, tm.not_(tm.eq(F0(field, "P", THIS), NULLP))), repr(cond))
        f2, ex2, its, info2 = run_iter(q, o, mkctx(), loop=lambda ex_, st, n_, o_: ex_.havoc_loop(n_, st))
        k = 0
        for s in alive(its, ("run", "cont")):
            k += 1
            head = tm.select(entry_arr(ex2, s, ("f", field, "P")), THIS)
            fr = [e for e in U.iter_events(s) if e.name.endswith("PHRQ_free")]
            nxt = tm.select(entry_arr(ex2, s, ("f", "next", "P")), head)
            good = len(fr) == 1 and fr[0].args[0] is head
            ok(r, "NEW.each_%s_record_is_released_once" % what, good, "%s" % fr)
            U.discharge_valid(r, "NEW.the_%s_list_advances_to_the_next_record" % what, hyp(s) + [tm.not_(tm.eq(head, THIS))], tm.eq(F(ex2, s, field, "P", THIS), nxt))
            if what == "line":
                dt = [e for e in U.iter_events(s) if e.name.endswith("disposetokens")]
                ok(r, "NEW.the_tokens_of_a_released_line_are_released_with_it", len(dt) == 1 and dt[0].args[0] is tm.app("fld:txt", (head,), "P") and U.iter_events(s).index(dt[0]) < U.iter_events(s).index(fr[0]) if good else False, "%s" % dt)
        n += 1 if k else 0
    reach(r, "reach.end_bye_new", n, 8)
    r.assumptions += ["exec's loops end when there is no token and no current line (unit C17.exec...)", "PHRQ_free releases one record; a havocked variable-release loop inside NEW only frees the variable's own storage",
                      "the released record is not `this` (separation of interpreter object and heap records)"]
    return r


def unit_exec_handler(twin=False):
    """The handler of exec for a BASIC stop (PBasicStop): a BASIC error (escape code 42, already reported by errormsg) and STOP (-20) are
    NOT passed on - exec returns to its driver with the escape code unchanged (the driver returns it, the host turns non-zero into a fatal
    error of the run); the offending line (number and text) is added to the error report when there is a current line; an unknown code is
    raised again with the same code."""
    q = "PBasic::exec"
    fn = A.find_function(PB, q)
    r = U.new_unit("C17.exec.handler_reports_the_line_and_returns_with_the_escape_code_unchanged", PB, q, fn)
    cb = catch_body(fn, "PBasicStop")
    if cb is None:
        raise Undecided("exec: handler of PBasicStop not found")
    n = {"error": 0, "stop": 0, "unknown": 0, "line": 0, "noline": 0}
    for code, tag in ((42, "error"), (-20, "stop"), (-1, "unknown"), (-5, "known_arithmetic")):
        c = mkctx(); stop_on_error_msg(c)
        c.handlers["PBasic::_Escape"] = thrower
        def prep(ex, st, names, code=code):
            st.heap[("f", "P_escapecode", "I")] = tm.store(ex.heap_arr(st, ("f", "P_escapecode", "I")), (THIS,), tm.num(code, "I"))
        f, ex, fin, info = run_stmts(q, [cb], c, prepare=prep)
        for s in alive_lib(fin):
            hy = hyp(s)
            esc = evs(s, "_Escape")
            if tag == "unknown":
                n["unknown"] += 1
                ok(r, "unknown_code.is_raised_again_with_the_same_code", s.status == "throw" and len(esc) == 1 and esc[0].args[0] is tm.num(code, "I"), "%s %s" % (s.status, esc))
                continue
            if tag in n:
                n[tag] += 1
            ok(r, "%s.is_not_passed_on:exec_returns_to_its_driver" % tag, s.status == ("run" if not (twin and tag == "error") else "throw") and not esc, s.status)
            ok(r, "%s.escape_code_is_left_for_the_driver_to_return" % tag, F(ex, s, "P_escapecode", "I", THIS) is tm.num(code, "I"), repr(F(ex, s, "P_escapecode", "I", THIS)), kind="frame")
            sl = F0("stmtline", "P", THIS)
            em = evs(s, "error_msg")
            sf = evs(s, "sformatf")
            for hy2, has in cases(hy, tm.not_(tm.eq(sl, NULLP))):
                if has:
                    n["line"] += 1
                    good = len(em) == 1 and (em[0].args[1] is ZI or em[0].args[1] is tm.FALSE) and any(len(e.args) >= 3 and e.args[1] is F0("num", "I", sl) and e.args[2] is tm.app("fld:inbuf", (sl,), "P") for e in sf)
                    ok(r, "%s.current_line's_number_and_text_are_added_to_the_error_report(not_stopping)" % tag, good, "%s %s" % (em, sf))
                else:
                    n["noline"] += 1
                    ok(r, "%s.no_line_is_reported_for_an_immediate_command" % tag, not em, "%s" % em)
            if tag == "stop":
                ok(r, "stop.is_announced_as_a_break", any(e.args and e.args[0].op == "str" and "Break" in e.args[0].args[0] for e in evs(s, "warning_msg")), "")
    reach(r, "reach.exec_handler(error,stop,unknown,with_line,without_line)", min(n.values()))
    r.assumptions += ["the handler is executed from an arbitrary state with the escape code fixed per case (42 BASIC error, -20 STOP, -5 a known arithmetic code, -1 an unknown code)", "library build (phreeqci_gui false)",
                      "error_msg(text, CONTINUE) adds to the error report and returns; _Escape throws (unit C17.errormsg...)"]
    return r


UNITS = [
    ("C17.basic_compile.new_program_starts_from_empty_bases_and_is_handed_back_through_the_callers_three_pointers", unit_compile),
    ("C17.basic_run.runs_on_the_callers_three_bases_and_leaves_a_clean_state", unit_run),
    ("C17.basic_renumber_main.sibling_drivers_feed_the_interpreter_like_basic_compile", unit_siblings),
    ("C17.cmdrun.starts_at_the_first_line_with_cleared_variables_loops_and_DATA_pointer", unit_cmdrun),
    ("C17.cmdend_cmdbye_cmdnew.END_stops_execution_BYE_leaves_the_driver_NEW_empties_the_program", unit_end_new_bye),
    ("C17.exec.handler_reports_the_line_and_returns_with_the_escape_code_unchanged", unit_exec_handler),
]
