"""C20 extension units (surface complexation laws): more functions / regions under contract.  Helper modules:
props/c20_ext_util.py  (accessor inlining, per-unknown iteration with a concrete type code, role-based identification of locals),
props/c20_ext_resid.py (rows of residuals(): CD-MUSIC planes 0/1/2, site balance),
props/c20_ext_prep.py  (add_cd_music_factors, add_cd_music_charge_balances, add_surface_charge_balance, setup_surface),
props/c20_ext_edl.py   (calc_surface_charge, surf_total, diffuse-layer composition in sum_diffuse_layer / diff_layer_total / molalities,
                        diff_layer_total read-outs, get_edl_species),
props/c20_ext_integ.py (calc_init_g, calc_init_donnan, initial_surface_water)."""
from props import c20_ext_resid as RS
from props import c20_ext_prep as PR
from props import c20_ext_edl as ED
from props import c20_ext_integ as IG

UNITS = [
    ("C20.residuals.CD_MUSIC_plane0_row", RS.unit_plane0),
    ("C20.residuals.CD_MUSIC_plane1_row", RS.unit_plane1),
    ("C20.residuals.CD_MUSIC_plane2_row", RS.unit_plane2),
    ("C20.residuals.SURFACE_site_balance_row", RS.unit_site_balance),
    ("C20.add_cd_music_factors.three_plane_boltzmann_factors", PR.unit_cd_music_factors),
    ("C20.add_cd_music_charge_balances.plane_charge_contributions", PR.unit_cd_music_charge_balances),
    ("C20.add_surface_charge_balance.species_enters_its_surface's_charge_balance", PR.unit_surface_charge_balance),
    ("C20.setup_surface.site_and_charge_unknowns_per_model", PR.unit_setup_surface),
    ("C20.calc_surface_charge.sum_of_z_times_moles_over_the_surface's_species", ED.unit_calc_surface_charge),
    ("C20.surf_total.sum_of_coefficient_times_moles_over_the_surface's_species", ED.unit_surf_total),
    ("C20.diffuse_layer.composition_c*erm*(W_dl+W_aq*g)_in_totals_and_read_out", ED.unit_layer_composition),
    ("C20.diff_layer_total.reported_potential_and_charge_density", ED.unit_readouts),
    ("C20.molalities.moles_held_by_each_diffuse_layer", ED.unit_molalities_layer),
    # fails on the unchanged tree (EDL_SPECIES omits erm_ddl; native demo in the helper's report): kept failing as the brief asks
    ("C20.get_edl_species.species_list_is_the_layer_composition", ED.unit_edl_species),
    ("C20.calc_init_g.first_estimate_of_the_excess_factors", IG.unit_calc_init_g),
    ("C20.calc_init_donnan.boltzmann_excess_and_co_ion_exclusion", IG.unit_calc_init_donnan),
    ("C20.initial_surface_water.layer_water_by_area_and_water_partition", IG.unit_initial_surface_water),
]
from props.c20_ext2 import UNITS as _U2; UNITS = UNITS + _U2
from props.c20_ext3 import UNITS as _U3; UNITS = UNITS + _U3
from props.c20_ext5 import UNITS as _U5; UNITS = UNITS + _U5
