"""C03 — reactant assemblages end in a valid heterogeneous equilibrium state (one clause).
Only the solid-solution clause: calc_ss_fractions gives component mole fractions that are non-negative and (by the accumulation
of the first loop) sum to one; ss_ideal gives lambda = 1 (activity = mole fraction).  Phase presence vs SI, dissolve_only,
exchanger/surface totals (outcome of the inequality-constrained solve) are NOT decided."""
import time
from vf import core
from vf.core import Undecided, FAILED, DISCHARGED, UNDECIDED
from vf.astvc import ast as A, terms as tm, unit as U, backends as B, stl as STLM
from vf.astvc import symex as SX

PID = "C03"
MODEL = "src/phreeqcpp/model.cpp"
THIS = tm.sym("this", "P")


def mkctx():
    ctx = SX.Ctx(); ctx.stl = STLM.STL(SX); ctx.stl.check_bounds = False
    ctx.enum_values.update(A.enum_values_compiled("Phreeqc.h", ["TRUE", "FALSE", "OK"]))
    class AllPure(set):
        def __contains__(self, x): return True
    ctx.pure = AllPure()
    ctx.functional.update({"Get_moles", "Get_ss_comps", "Get_name", "c_str", "phase_bsearch", "Get_log10_fraction_x", "Get_total_moles", "Get_dn", "Get_dnb"})
    return ctx


def clamp(m, mn):
    return tm.ite(tm.lt(m, tm.num(0)), mn, m)


def unit_fractions(twin=False):
    from props import common as CM
    ctx = mkctx()
    fn, ex, it1, info1 = U.run_loop_isolated(MODEL, "Phreeqc::calc_ss_fractions", 1, ctx=ctx)
    r = U.new_unit("C03.calc_ss_fractions", MODEL, "Phreeqc::calc_ss_fractions", fn)
    # loop 1: n_tot accumulates the clamped moles of every component
    n = 0
    for s in it1:
        if s.status not in ("run", "cont", "brk"):
            continue
        n += 1
        comp = U.local_of(info1, s, "comp_ptr")
        m = tm.app("call:Get_moles", (comp,), "R")
        mn = tm.select(ex.heap_arr(s, ("f", "MIN_TOTAL_SS", "R")), THIS)
        nt0, nt1 = tm.sym("iter_n_tot", "R"), U.local_of(info1, s, "n_tot")
        U.discharge_valid(r, "sum_loop.n_tot'==n_tot+(moles<0?MIN_TOTAL_SS:moles)[path %d]" % n, list(s.pc), tm.eq(nt1, tm.add(nt0, clamp(m, mn))))
    # loop 2: fraction of component k
    ctx2 = mkctx()
    fn, ex2, it2, info2 = U.run_loop_isolated(MODEL, "Phreeqc::calc_ss_fractions", 2, ctx=ctx2)
    k = 0
    for s in it2:
        if s.status not in ("run", "cont", "brk"):
            continue
        k += 1
        comp = U.local_of(info2, s, "comp_ptr")
        m = tm.app("call:Get_moles", (comp,), "R")
        mn = tm.select(ex2.heap_arr(s, ("f", "MIN_TOTAL_SS", "R")), THIS)
        ntot = tm.sym("L_n_tot", "R")
        evs = U.iter_events(s)
        fx = [e for e in evs if e.name.endswith("Set_fraction_x") and e.recv is comp]
        lf = [e for e in evs if e.name.endswith("Set_log10_fraction_x") and e.recv is comp]
        if len(fx) != 1 or len(lf) != 1:
            r.add("fraction_loop.sets_fraction_and_log_fraction_of_this_component[path %d]" % k, FAILED, "trace", 0, repr(evs)[:200]); continue
        frac = clamp(m, mn) / ntot
        hy = list(s.pc)
        U.discharge_valid(r, "fraction_loop.fraction_x==(moles<0?MIN_TOTAL_SS:moles)/n_tot[path %d]" % k, hy, tm.eq(fx[0].args[0], frac if not twin else frac + tm.num(1)))
        U.discharge_valid(r, "fraction_loop.fraction_x>=0_when_n_tot>0_and_MIN_TOTAL_SS>0[path %d]" % k, hy + [tm.lt(tm.num(0), ntot), tm.lt(tm.num(0), mn)], tm.le(tm.num(0), fx[0].args[0]))
        ok = lf[0].args[0].op == "app" and lf[0].args[0].args[0] == "log10" and B.z3_prove(hy, tm.eq(lf[0].args[0].args[1], fx[0].args[0]))[0] == "proved"
        r.add("fraction_loop.log10_fraction_x==log10(fraction_x)[path %d]" % k, DISCHARGED if ok else FAILED, "z3-5.1", 0, repr(lf[0].args[0])[:120])
        ph = U.local_of(info2, s, "phase_ptr")
        w = [(kk, i, v) for (kk, i, v) in U.iter_writes(s) if kk[1] == "log10_fraction_x"]
        ok = len(w) == 1 and w[0][1][0] is ph and w[0][2].op == "app" and w[0][2].args[0] == "call:Get_log10_fraction_x" and w[0][2].args[1] is comp
        r.add("fraction_loop.phase_record_gets_the_component's_log_fraction[path %d]" % k, DISCHARGED if ok else FAILED, "term-inspection", 0, repr(w)[:160])
    r.add("reach.paths", DISCHARGED if n >= 2 and k >= 2 else UNDECIDED, "symex", 0, "sum paths %d fraction paths %d" % (n, k), kind="vacuity")
    fn0 = A.find_function(MODEL, "Phreeqc::calc_ss_fractions")
    CM.check_accumulator_init(r, fn0, MODEL, CM.loop_node(fn0, 1), "n_tot", "sum_loop")
    # per solid solution: the total handed on is the sum just formed, and the activity model is chosen by the Guggenheim parameters
    ctx0 = mkctx(); ctx0.functional.update({"Get_a0", "Get_a1"})
    fnx, ex0, it0, info0 = U.run_loop_isolated(MODEL, "Phreeqc::calc_ss_fractions", 0, ctx=ctx0, inner_modes={"*": "iter"})
    nd = 0
    for s in it0:
        if s.status not in ("run", "cont"):
            continue
        nd += 1
        ssp = U.local_of(info0, s, "ss_ptr")
        evs = U.iter_events(s)
        tot = [e for e in evs if e.name.endswith("Set_total_moles")]
        okt = len(tot) == 1 and tot[0].recv is ssp and tot[0].args[0] is U.local_of(info0, s, "n_tot")
        r.add("solid_solution.total_moles_is_the_sum_of_its_components[path %d]" % nd, DISCHARGED if okt else FAILED, "trace", 0, repr([e.args for e in tot])[:120])
        a0 = tm.app("call:Get_a0", (ssp,), "R"); a1 = tm.app("call:Get_a1", (ssp,), "R")
        nonideal = tm.or_(tm.not_(tm.eq(a0, tm.num(0))), tm.not_(tm.eq(a1, tm.num(0))))
        if twin:
            nonideal = tm.not_(tm.eq(a0, tm.num(0)))
        names = [e.name.split("::")[-1] for e in evs if e.name.split("::")[-1] in ("ss_binary", "ss_ideal")]
        for hy, ni in CM.cases(list(s.pc), nonideal):
            want = ["ss_binary"] if ni else ["ss_ideal"]
            ok = names == want and all(e.args[0] is ssp for e in evs if e.name.split("::")[-1] in ("ss_binary", "ss_ideal"))
            r.add("solid_solution.%s[path %d]" % ("non_zero_Guggenheim_parameter_uses_the_binary_model" if ni else "a0==a1==0_is_ideal", nd), DISCHARGED if ok else FAILED, "trace", 0, repr(names))
    r.add("reach.dispatch", DISCHARGED if nd >= 2 else UNDECIDED, "symex", 0, str(nd), kind="vacuity")
    # nothing is skipped while a solid-solution unknown exists
    fnw, exw, finw, infow = U.run_function(MODEL, "Phreeqc::calc_ss_fractions", modes={0: "havoc", 1: "havoc", 2: "havoc"}, ctx=mkctx())
    ne = 0
    for s in finw:
        if s.status != "ret":
            continue
        entered = any(all(p in s.pc for p in e.pc) for e in infow["entry"].get(0, []))
        if not entered:
            ne += 1
            ssu = tm.select(exw.heap_arr(s, ("f", "ss_unknown", "P")), THIS)
            asm = [e for e in s.events if e.name.endswith("Get_ss_assemblage_ptr")]
            cond = tm.eq(ssu, tm.NULL)
            if asm:
                cond = tm.or_(cond, tm.eq(asm[-1].result, tm.NULL))
            if twin:
                cond = tm.not_(tm.eq(ssu, tm.NULL))
            U.discharge_valid(r, "early_return.only_without_solid_solution_unknown_or_assemblage#%d" % ne, list(s.pc), cond)
    r.add("reach.early_returns", DISCHARGED if ne >= 2 else UNDECIDED, "symex", 0, str(ne), kind="vacuity")
    # lemma: the fractions sum to one:  sum_k (x_k / n) = (sum_k x_k) / n = n / n = 1  (n = sum_k x_k by the first loop, n > 0)
    x1, x2, x3 = tm.sym("x1", "R"), tm.sym("x2", "R"), tm.sym("x3", "R")
    nn = x1 + x2 + x3
    U.discharge_eq_real(r, "lemma.fractions_sum_to_one(instance_of_three_components)", [], x1 / nn + x2 / nn + x3 / nn, tm.num(1), kind="lemma")
    r.assumptions += ["n_tot > 0: follows from MIN_TOTAL_SS > 0 and a non-empty component list (precondition)",
                      "the sum-to-one lemma is discharged for three components and follows for any count by the same distributivity (stated)",
                      "getters are pure; setters write only their receiver"]
    return r


def unit_ss_ideal(twin=False):
    ctx = mkctx()
    fn, ex, iters, info = U.run_loop_isolated(MODEL, "Phreeqc::ss_ideal", 0, ctx=ctx)
    r = U.new_unit("C03.ss_ideal", MODEL, "Phreeqc::ss_ideal", fn)
    n = 0
    for s in iters:
        if s.status not in ("run", "cont", "brk"):
            continue
        n += 1
        comp = U.local_of(info, s, "compk_ptr")
        ll = [e for e in U.iter_events(s) if e.name.endswith("Set_log10_lambda")]
        ok = bool(ll) and all(e.recv is comp and (tm.isnum(e.args[0]) and e.args[0].args[0] == (0 if not twin else 1)) for e in ll)
        r.add("ideal_component.log10_lambda==0(activity==mole_fraction)[path %d]" % n, DISCHARGED if ok else FAILED, "trace", 0, repr(ll)[:150], kind="trace")
    r.add("reach.paths", DISCHARGED if n >= 1 else UNDECIDED, "symex", 0, "%d" % n, kind="vacuity")
    return r


def units(tier):
    us = []
    def wrap(uid, f):
        def g():
            r = f()
            if not any(o.status == FAILED for o in r.obligations):
                U.must_fail_twin(r, "vacuity.must_fail_twin", lambda: f(twin=True))
            return r
        us.append((uid, g))
    wrap("C03.calc_ss_fractions", unit_fractions)
    wrap("C03.ss_ideal", unit_ss_ideal)
    from props import c03_build as BD
    wrap("C03.build_pure_phases.saturation_equation", BD.unit_saturation_equation)
    wrap("C03.build_reactants.transfer_enters_jacobian_and_element_delta_alike", BD.unit_transfer_pairing)
    wrap("C03.quick_setup.refreshes_what_setup_pure_phases_takes_from_the_component", BD.unit_quick_setup_pairing)
    wrap("C03.setup_exchange.capacity_is_the_sum_over_components", BD.unit_setup_exchange_capacity)
    wrap("C03.build_pure_phases.each_element_charged_to_its_own_balance", BD.unit_mineral_elements)
    wrap("C03.model.parked_amounts_given_back_on_every_return", BD.unit_model_inert_bracket)
    from props import c03_resid_pp as RPP
    wrap("C03.residuals.PP.row_refuses_convergence_when_supersaturated_or_before_the_first_iteration", RPP.unit_pp_row_convergence)
    from props import c03_tidy as TDY
    wrap("C03.tidy_model.tied_sites_re-proportioned_after_any_redefinition", TDY.unit_update_guards)
    return us


def run(tier, seed, only, jobs):
    t0 = time.time()
    U.TIER.update(tier=tier, seed=seed)
    us = units(tier)
    from props.common import ext_units as _ext
    us += _ext("C03")
    if only:
        us = [x for x in us if only in x[0]]
    res = core.run_units(us, jobs=jobs)
    return core.finish(PID, tier, seed, "proof", res, t0,
        checker_cmd="astvc: clang AST of model.cpp -> iteration contracts on the loops of calc_ss_fractions / ss_ideal -> z3 5.1 / sympy",
        trusted_base=["clang 14 AST", "astvc (vf/astvc)", "z3 5.1", "sympy 1.14"],
        assumptions=["doubles as reals; log10 uninterpreted"],
        explanation="Only the last clause of the property (solid-solution mole fractions, ideal activity). The optimality/feasibility of the converged state is not decided.")
