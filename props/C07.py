"""C07 — loading a database returns the instance to the fresh state (partial).
Generated reset-completeness obligations: after the unload sequence (clean_up + its clean-up callees,
init, initialize + its init callees) every data member of class Phreeqc has a value that does not
depend on the state before the load; IPhreeqc::UnLoadDatabase resets every wrapper member but the
documented survivors.  Behavioural equality with a fresh instance for all follow-ups is NOT decided."""
import time, json, os
from vf import core
from vf.core import Undecided, FAILED, DISCHARGED, UNDECIDED
from vf.astvc import ast as A, terms as tm, unit as U
from vf.astvc import symex as SX

PID = "C07"
THIS = tm.sym("this", "P")
# the unload path of IPhreeqc::UnLoadDatabase: clean_up(); init(); do_initialize() -> initialize()
SEQ = [("src/phreeqcpp/structures.cpp", "Phreeqc::clean_up"),
       # callees of clean_up that reset members themselves (executed in place of their call events)
       ("src/phreeqcpp/pitzer.cpp", "Phreeqc::pitzer_clean_up"),
       ("src/phreeqcpp/sit.cpp", "Phreeqc::sit_clean_up"),
       ("src/phreeqcpp/model.cpp", "Phreeqc::free_model_allocs"),
       ("src/phreeqcpp/kinetics.cpp", "Phreeqc::free_cvode"),
       ("src/phreeqcpp/tally.cpp", "Phreeqc::free_tally_table"),
       ("src/phreeqcpp/basicsubs.cpp", "Phreeqc::basic_free"),
       ("src/phreeqcpp/utilities.cpp", "Phreeqc::strings_map_clear"),
       ("src/phreeqcpp/Phreeqc.cpp", "Phreeqc::init"),
       ("src/phreeqcpp/mainsubs.cpp", "Phreeqc::initialize"),
       ("src/phreeqcpp/mainsubs.cpp", "Phreeqc::save_init"),
       ("src/phreeqcpp/kinetics.cpp", "Phreeqc::cvode_init"),
       ("src/phreeqcpp/pitzer.cpp", "Phreeqc::pitzer_init"),
       ("src/phreeqcpp/sit.cpp", "Phreeqc::sit_init")]
# who must call whom for the inlining above to be justified
CALLED_FROM = {"pitzer_clean_up": "clean_up", "sit_clean_up": "clean_up", "free_model_allocs": "clean_up", "free_cvode": "clean_up",
               "free_tally_table": "clean_up", "basic_free": "clean_up", "strings_map_clear": "clean_up", "cvode_init": "initialize", "pitzer_init": "initialize",
               "sit_init": "initialize", "save_init": "init"}
EXEMPT = os.path.join(core.VERIF, "contracts", "B", "reset_exempt.json")

SCALAR_PREFIX = ("int", "double", "unsigned", "bool", "long", "char", "float", "short", "size_t")


class AllPure(set):
    def __contains__(self, x):
        return True


def is_scalar_type(t):
    t = t.strip()
    if t.endswith("*"):
        return True
    if t.endswith("]"):
        return False
    return t.split()[0] in SCALAR_PREFIX or t.startswith("enum ") or "::" in t and not t.startswith("std::") and t.split("::")[-1].isupper()


def is_container_type(t):
    return t.startswith("std::")


def run_sequence(seq=None):
    ctx = SX.Ctx()
    ctx.merge_ifs = True
    ctx.pure = AllPure()          # calls are events credited with nothing (and assumed not to dirty members)
    ctx.enum_values.update(A.enum_values_compiled("Phreeqc.h", ["MAX_LOG_K_INDICES", "Keywords::KEY_COUNT_KEYWORDS", "TRUE", "FALSE", "OK", "ERROR", "STOP", "CONTINUE"]))
    ctx.enum_values["KEY_COUNT_KEYWORDS"] = ctx.enum_values["Keywords::KEY_COUNT_KEYWORDS"]
    skipped = []
    def loop(ex, st, node, ordinal):
        try:
            return ex.unroll(node, st.clone(), maxn=100)
        except Undecided as e:
            skipped.append("%s loop %d: %s" % (ex.cur_fn, ordinal, str(e)[:90]))
            return [st]
    ctx.loop = loop
    states = [SX.State()]
    shas = {}
    calls = {}
    for rel, q in (seq or SEQ):
        fn = A.find_function(rel, q)
        u = U.new_unit("x", rel, q, fn)
        shas[q] = u.sha
        calls[q.split("::")[-1]] = {SX.Exec(ctx).callee_name(x["inner"][0]).split("::")[-1] for x in A.walk(fn)
                                    if x.get("kind") in ("CXXMemberCallExpr", "CallExpr") and x.get("inner")}
        nxt = []
        params = None
        if q.endswith("::save_init"):
            params = [tm.num(-1, "I")]      # init() calls save_init(-1); checked below (sequence.save_init_called_with_-1)
        for st in states:
            ex = SX.Exec(ctx)
            ex.cur_fn = q
            st.status = "run"; st.ret = None
            st.locals = {k: v for k, v in st.locals.items() if isinstance(k, tuple)}
            nxt.extend(ex.run(fn, st, params=params))
        # merge paths that differ only in path condition: keep all (obligations must hold on each)
        states = [s for s in nxt if s.status in ("ret", "run")]
        if len(states) > 256:
            raise Undecided("path explosion in the reset sequence")
    return states, skipped, shas, calls


def pre_state_syms(t):
    """pre-state symbols the value really depends on: none if the value is equal for two arbitrary pre-states"""
    deps = sorted({s.args[0] for s in tm.free_syms(t) if s.args[0].startswith(("H0.", "uninit", "P0", "P1", "G."))})
    if not deps:
        return deps
    ren = {s: tm.sym(s.args[0] + "'", s.sort) for s in tm.free_syms(t) if s.args[0].startswith(("H0.", "uninit", "P0", "P1", "G."))}
    t2 = tm.substitute(t, ren)
    if t2 is t:
        return []
    from vf.astvc import backends as B
    try:
        if B.z3_prove([], tm.eq(t, t2), timeout_ms=3000)[0] == "proved":
            return []
    except Exception:
        pass
    return deps


def inside(addr, base):
    """is address term `addr` the object `base` or inside it (a chain of fld:/+ offsets)?"""
    a = addr
    for _ in range(8):
        if a is base:
            return True
        if a.op == "app" and a.args[0].startswith("fld:"):
            a = a.args[1]
        elif a.op == "+" and a.sort == "P":
            a = a.args[0]
        elif a.op == "select" and a.args[0].op == "sym" and "#vdata" in a.args[0].args[0]:
            a = a.args[1][0]
        else:
            return False
    return False


def stores_by_base(st):
    """every (key, index terms, value) written to memory on this path"""
    out = []
    for key, arr in st.heap.items():
        a = arr
        while a.op == "store":
            out.append((key, a.args[1], a.args[2]))
            a = a.args[0]
    return out


RESET_METHODS = ("clear", "operator=", "assign", "erase")    # not resize(): it keeps the leading elements of a non-empty vector
RESET_BY_ADDRESS = ("copier_clear",)     # Phreeqc::copier_clear(&m) empties the three vectors of copier m (checked by unit C07.reset.copier_clear)


def resized_and_fully_rewritten(s, base):
    """resize(N) alone keeps the old leading elements of a non-empty vector; it counts as a reset only with N constant and
    operator[] on every index 0..N-1 afterwards on the path (the keycount idiom: resize + zeroing loop)"""
    for e in s.events:
        if hasattr(e, "recv") and e.recv is base and e.name.split("::")[-1] == "resize" and e.guard is tm.TRUE and e.args and isinstance(e.args[0], tm.T) and e.args[0].op == "num":
            n = int(e.args[0].args[0])
            idxs = {int(x.args[0].args[0]) for x in s.events if hasattr(x, "recv") and x.recv is base and x.name.split("::")[-1] == "operator[]" and x.guard is tm.TRUE
                    and x.args and isinstance(x.args[0], tm.T) and x.args[0].op == "num"}
            if all(i in idxs for i in range(n)):
                return True
    return False


def unit_phreeqc_members(twin=False):
    fields = A.class_fields("Phreeqc.h", "Phreeqc")
    states, skipped, shas, calls = run_sequence()
    r = core.UnitResult("C07.reset.Phreeqc_members", file="src/phreeqcpp/Phreeqc.cpp + structures.cpp + mainsubs.cpp (+ callees)",
                        function="Phreeqc::clean_up; init; initialize (+ inlined clean-up/init callees)", engine=U.ENGINE, proved_kind="structural")
    r.sha = core.sha256_text(json.dumps(shas, sort_keys=True))
    ex_all = json.load(open(EXEMPT)) if os.path.exists(EXEMPT) else {}
    exempt = ex_all.get("Phreeqc", {}).get("exempt", {})
    undecided = ex_all.get("Phreeqc", {}).get("undecided", {})
    dropped = []
    # the inlined callees must really be called from where the sequence assumes
    for callee, caller in CALLED_FROM.items():
        ok = callee in calls.get(caller, ())
        r.add("sequence.%s_is_called_from_%s" % (callee, caller), DISCHARGED if ok else FAILED, "ast-scan", 0,
              "" if ok else "%s no longer calls %s: its resets are not part of the unload path" % (caller, callee), kind="structure")
    if twin:
        fields = fields + [("verif_twin_member_never_reset", "int")]
    n_paths = len(states)
    for name, typ in fields:
        if name is None:
            continue
        base = tm.app("fld:" + name, (THIS,), "P")
        oname = "member.%s.reset_to_pre-state-independent_value" % name
        if name in exempt:
            r.add(oname, DISCHARGED, "exemption", 0, "EXEMPT (assumption): " + exempt[name], kind="exempt")
            continue
        if name in undecided:
            dropped.append(name)
            continue
        bad = None
        for pi, s in enumerate(states):
            if is_scalar_type(typ):
                sort = SX.sort_of(typ)
                key = ("f", name, sort)
                arr = s.heap.get(key)
                val = tm.select(arr, THIS) if arr is not None else None
                if val is None or (val.op == "select" and val.args[0].op == "sym"):
                    # maybe stored under another sort
                    alt = [k for k in s.heap if k[0] == "f" and k[1] == name and tm.select(s.heap[k], THIS).op != "select"]
                    if alt:
                        val = tm.select(s.heap[alt[0]], THIS)
                    else:
                        bad = "never assigned on path %d of %d" % (pi, n_paths); break
                deps = pre_state_syms(val)
                if deps:
                    bad = "assigned a value that depends on the state before the load: %s  (value %r)" % (", ".join(deps[:3]), val); break
            else:
                touched = any(e.recv is not None and isinstance(e.recv, tm.T) and inside(e.recv, base) and e.name.split("::")[-1] in RESET_METHODS and e.guard is tm.TRUE for e in s.events if hasattr(e, "recv"))
                if not touched:
                    touched = any(e.name.split("::")[-1] in RESET_BY_ADDRESS and e.guard is tm.TRUE and any(isinstance(a, tm.T) and a is base for a in e.args)
                                  for e in s.events if hasattr(e, "recv"))
                resized = any(e.recv is not None and isinstance(e.recv, tm.T) and inside(e.recv, base) and e.name.split("::")[-1] == "resize" and e.guard is tm.TRUE for e in s.events if hasattr(e, "recv"))
                if not touched and resized:
                    touched = resized_and_fully_rewritten(s, base)
                if not touched and not is_container_type(typ):
                    # plain struct / array: some element or field of it is written with a pre-state-independent value
                    ws = [(k, idx, v) for (k, idx, v) in stores_by_base(s) if inside(idx[0], base)]
                    touched = bool(ws) and not any(pre_state_syms(v) for _, _, v in ws)
                if not touched:
                    bad = "neither cleared/reassigned nor written anywhere in the unload sequence (path %d of %d)" % (pi, n_paths); break
        r.add(oname, FAILED if bad else DISCHARGED, "term-inspection", 0, ("%s : %s" % (typ, bad)) if bad else typ, kind="reset")
    r.notes.append("DROPPED member obligations (not reset at the pinned commit; whether a follow-up can observe it is not decided by this technique): " + ", ".join(dropped))
    r.dropped_members = dropped
    r.notes.append("paths through the sequence: %d; loops not unrolled (credited with nothing): %d" % (n_paths, len(skipped)))
    r.notes.extend(skipped[:4])
    r.assumptions += ["calls other than the inlined callees neither reset nor dirty data members (events credited with nothing)",
                      "loops with non-constant bounds in the sequence are skipped and credited with nothing",
                      "container / struct members: 'reset' means cleared, reassigned or (plain structs) written with pre-state-independent values somewhere; not every sub-field is checked",
                      "exempted members (contracts/B/reset_exempt.json): %s" % ", ".join(sorted(exempt))]
    return r


def unit_unload_wrapper(twin=False):
    """IPhreeqc::UnLoadDatabase: every data member of class IPhreeqc is either a survivor named by the property
    (instance id, global output switches, user-set file names; plus the owned engine / reporter objects) or is reset:
    scalars get a pre-state-independent value, containers are clear()ed, reporters are Clear()ed."""
    rel, q = "src/IPhreeqc.cpp", "IPhreeqc::UnLoadDatabase"
    fn = A.find_function(rel, q)
    r = U.new_unit("C07.reset.IPhreeqc_UnLoadDatabase", rel, q, fn, kind="structural")
    fields = A.class_fields("IPhreeqc.hpp", "IPhreeqc")
    if twin:
        fields = fields + [("VerifTwinMap", "std::map<int, bool>")]
    ctx = SX.Ctx(); ctx.merge_ifs = True; ctx.pure = AllPure()
    ctx.loop = lambda ex, st, node, ordinal: [st]          # the delete loop over SelectedOutputMap: credited with nothing
    ex = SX.Exec(ctx); st = SX.State()
    finals = ex.run(fn, st)
    ex_all = json.load(open(EXEMPT)) if os.path.exists(EXEMPT) else {}
    exempt = ex_all.get("IPhreeqc", {}).get("exempt", {})
    def survivor(name, typ):
        if name == "Index": return "instance id"
        if typ == "bool" and name.endswith("On"): return "global output switch"
        if name.endswith("FileName") and "string" in typ: return "user-set file name"
        if name == "SelectedOutputFileNameMap": return "user-set file names (per user number)"
        if name == "PhreeqcPtr": return "owned engine object (its own reset is unit C07.reset.Phreeqc_members)"
        return None
    for name, typ in fields:
        oname = "member.%s" % name
        why = survivor(name, typ)
        if why:
            # a survivor must not be written at all
            base = tm.app("fld:" + name, (THIS,), "P")
            written = False
            for s in finals:
                if any(k[1] == name and idx[0] is THIS for (k, idx, v) in stores_by_base(s)):
                    written = True
                if any(e.recv is not None and isinstance(e.recv, tm.T) and inside(e.recv, base) and e.name.split("::")[-1] in RESET_METHODS + ("resize", "operator[]") for e in s.events):
                    written = True
            r.add(oname + ".survives_unchanged(%s)" % why.split(" (")[0].replace(" ", "_"), FAILED if written else DISCHARGED, "term-inspection", 0, why if not written else "a survivor is written by UnLoadDatabase", kind="frame")
            continue
        if name in exempt:
            r.add(oname + ".reset", DISCHARGED, "exemption", 0, "EXEMPT (assumption): " + exempt[name], kind="exempt")
            continue
        bad = None
        base = tm.app("fld:" + name, (THIS,), "P")
        for s in finals:
            if typ.endswith("IErrorReporter *"):
                obj = tm.select(s.heap.get(("f", name, "P"), tm.sym("H0.%s:P" % name, ("A", "P", "P"))), THIS)
                ok = any(e.name.endswith("::Clear") and e.recv is not None and (e.recv is obj or repr(e.recv) == repr(obj)) and e.guard is tm.TRUE for e in s.events)
                if not ok: bad = "reporter object is not Clear()ed"
            elif is_scalar_type(typ):
                arr = s.heap.get(("f", name, SX.sort_of(typ)))
                val = tm.select(arr, THIS) if arr is not None else None
                if val is None or (val.op == "select" and val.args[0].op == "sym"):
                    bad = "never assigned"
                elif pre_state_syms(val):
                    bad = "assigned a pre-state-dependent value %r" % (val,)
            else:
                ok = any(e.recv is not None and isinstance(e.recv, tm.T) and e.recv is base and e.name.split("::")[-1] == "clear" and e.guard is tm.TRUE for e in s.events)
                if not ok and name == "StringInput":
                    ok = any(e.name.endswith("ClearAccumulatedLines") and e.guard is tm.TRUE for e in s.events)
                if not ok: bad = "container is not clear()ed"
            if bad: break
        r.add(oname + ".reset", FAILED if bad else DISCHARGED, "term-inspection", 0, "%s%s" % (typ, (" : " + bad) if bad else ""), kind="reset")
    # the engine reset sequence is invoked, in this order
    for s in finals:
        names = [e.name.split("::")[-1] for e in s.events if e.guard is tm.TRUE]
        seq = [n for n in names if n in ("clean_up", "init", "do_initialize")]
        r.add("calls_clean_up;init;do_initialize_in_order", DISCHARGED if seq == ["clean_up", "init", "do_initialize"] else FAILED, "trace", 0, repr(seq), kind="trace")
    r.assumptions += ["IPhreeqc::ClearAccumulatedLines empties StringInput (one-line method)", "exempted members: %s" % ", ".join(sorted(exempt))]
    return r


def unit_copier_clear():
    """Phreeqc::copier_clear(p) clears the three vectors of *p (justifies crediting copier_clear(&m) as a reset of m)"""
    rel, q = "src/phreeqcpp/structures.cpp", "Phreeqc::copier_clear"
    fn = A.find_function(rel, q)
    r = U.new_unit("C07.reset.copier_clear", rel, q, fn, kind="structural")
    ctx = SX.Ctx(); ctx.pure = AllPure()
    ex = SX.Exec(ctx); st = SX.State()
    finals = ex.run(fn, st)
    p = tm.sym("P0_copier_ptr", "P")
    fields = [n for n, t in A.class_fields("global_structures.h", "copier")]
    for f in fields:
        ok = all(any(e.name.split("::")[-1] == "clear" and e.recv is tm.app("fld:" + f, (p,), "P") for e in s.events) for s in finals)
        r.add("clears_%s" % f, DISCHARGED if ok and finals else FAILED, "trace", 0, "", kind="trace")
    return r


def units(tier):
    def m():
        r = unit_phreeqc_members()
        tw = unit_phreeqc_members(twin=True)
        ok = any(o.status == FAILED and "verif_twin_member" in o.name for o in tw.obligations)
        r.add("vacuity.must_fail_twin", DISCHARGED if ok else UNDECIDED, "twin", 0, "an extra never-reset member is reported" if ok else "twin member not reported", kind="vacuity")
        return r
    def w():
        r = unit_unload_wrapper()
        tw = unit_unload_wrapper(twin=True)
        ok = any(o.status == FAILED and "VerifTwinMap" in o.name for o in tw.obligations)
        r.add("vacuity.must_fail_twin", DISCHARGED if ok else UNDECIDED, "twin", 0, "an extra never-cleared map member is reported" if ok else "twin member not reported", kind="vacuity")
        return r
    def f():
        from props import c07_fields as CF
        r = CF.unit_record_fields()
        if not any(o.status == FAILED for o in r.obligations):
            U.must_fail_twin(r, "vacuity.must_fail_twin", lambda: CF.unit_record_fields(twin=True))
        return r
    return [("C07.reset.Phreeqc_members", m), ("C07.reset.IPhreeqc_UnLoadDatabase", w), ("C07.reset.copier_clear", unit_copier_clear),
            ("C07.reset.record_members_field_by_field", f)]


def run(tier, seed, only, jobs):
    t0 = time.time()
    U.TIER.update(tier=tier, seed=seed)
    us = units(tier)
    from props.common import ext_units as _ext
    us += _ext("C07")
    if only:
        us = [x for x in us if only in x[0]]
    res = core.run_units(us, jobs=jobs)
    return core.finish(PID, tier, seed, "other", res, t0,
        checker_cmd="astvc: symbolic execution of the unload sequence from an arbitrary pre-state; one generated obligation per data member (term inspection)",
        trusted_base=["clang 14 AST", "astvc VC generator (vf/astvc)"],
        assumptions=["machine arithmetic treated as mathematical"],
        explanation="Generated structural obligations (one per data member of class Phreeqc / IPhreeqc): the member's value after the unload sequence contains no pre-state symbol. "
                    "level 'other': obligations discharge by term inspection, not by a solver; behavioural equality with a fresh instance is not decided.")
