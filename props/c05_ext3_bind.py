"""C05 (third wave) - the language bindings of the cell accessor agree: one VRESULT -> IPQ_RESULT table for every C function that
translates a result code, and the same type / value / text rules in the scalar forms GetSelectedOutputValue2 (C / C++) and
GetSelectedOutputValueF (Fortran)."""
from props.c13_ext_util import *
from props.c13_ext_util import ok as _ok13

UNITS = []
VRN = ["VR_OK", "VR_OUTOFMEMORY", "VR_BADVARTYPE", "VR_INVALIDARG", "VR_INVALIDROW", "VR_INVALIDCOL"]
IPQN = ["IPQ_OK", "IPQ_OUTOFMEMORY", "IPQ_BADVARTYPE", "IPQ_INVALIDARG", "IPQ_INVALIDROW", "IPQ_INVALIDCOL", "IPQ_BADINSTANCE"]
TTN = ["TT_EMPTY", "TT_ERROR", "TT_LONG", "TT_DOUBLE", "TT_STRING"]
# C functions of IPhreeqcLib.cpp that translate the VRESULT of the same-named method; True: every code of the enumeration can come back
TRANSLATORS = [("GetSelectedOutputValue", True), ("GetSelectedOutputValue2", True), ("AccumulateLine", False), ("SetCurrentSelectedOutputUserNumber", False)]


def unit(uid):
    def deco(f):
        UNITS.append((uid, f))
        return f
    return deco


def ok(r, name, cond, detail="", kind="post", backend="symex"):
    r.add(name, DISCHARGED if cond else FAILED, backend, 0, str(detail)[:300], kind=kind)
    return cond


def _table(name, ev):
    """{VR code name: set of values returned for it} of the C function `name`, read from its symbolic execution; plus the value returned
    for an id that is not live"""
    c = ctx(functional=("GetInstance",)); c.enum_values.update(ev)
    fn = A.find_function(LIB, name, kind="FunctionDecl")
    f, ex, fin, info = run(LIB, name, c=c, fn=fn)
    tab, bad, nlive = {}, set(), 0
    for s in alive(fin, ("ret",)):
        calls = [e for e in evs(s) if e.name == "IPhreeqc::" + name]
        if not calls:
            if s.ret is not None:
                bad.add(repr(ex.coerce(s.ret, "I")))
            continue
        nlive += 1
        res = ex.coerce(calls[0].result, "I")
        for k in VRN:
            hy = list(s.pc) + [tm.eq(res, tm.num(ev[k], "I"))]
            if B.z3_sat(hy) == "unsat":
                continue
            got = None
            for q in IPQN:
                if s.ret is not None and proved(hy, tm.eq(ex.coerce(s.ret, "I"), tm.num(ev[q], "I"))):
                    got = q
            tab.setdefault(k, set()).add(got or "?" + repr(s.ret)[:40])
    return fn, tab, bad, nlive


@unit("C05.bindings.one_VRESULT_to_IPQ_RESULT_table_in_every_translating_C_function")
def unit_result_tables(twin=False):
    """IPhreeqcLib.cpp: every C function that turns the VRESULT of the instance method into an IPQ_RESULT uses the same table, the one
    given by the names (VR_X -> IPQ_X), for every code; the two cell accessors GetSelectedOutputValue / GetSelectedOutputValue2 translate
    ALL six codes (none falls through to the value reserved for a bad instance id) and their tables are equal entry by entry."""
    ev = A.enum_values_compiled("IPhreeqc.h", VRN + IPQN)
    fn0 = A.find_function(LIB, "GetSelectedOutputValue", kind="FunctionDecl")
    r = U.new_unit("C05.bindings.one_VRESULT_to_IPQ_RESULT_table_in_every_translating_C_function", LIB, "GetSelectedOutputValue / GetSelectedOutputValue2 / AccumulateLine / SetCurrentSelectedOutputUserNumber", fn0)
    tabs = {}
    for name, whole in TRANSLATORS:
        fn, tab, bad, nlive = _table(name, ev)
        tabs[name] = tab
        if not nlive:
            r.add("reach.%s.live_path" % name, UNDECIDED, "symex", 0, "", kind="vacuity"); continue
        for k in VRN:
            want = "IPQ_" + k[3:]
            if twin and name == "GetSelectedOutputValue2" and k == "VR_INVALIDROW":
                want = "IPQ_INVALIDCOL"
            got = tab.get(k, set())
            translated = got and got != {"IPQ_BADINSTANCE"}
            if whole or translated:
                ok(r, "%s.%s->%s" % (name, k, want), got == {want}, "returned for this code: %s" % sorted(got), backend="symex+z3")
        ok(r, "%s.bad_id.IPQ_BADINSTANCE" % name, bad == {repr(tm.num(ev["IPQ_BADINSTANCE"], "I"))}, sorted(bad), backend="symex")
    a, b = tabs.get("GetSelectedOutputValue", {}), tabs.get("GetSelectedOutputValue2", {})
    for k in VRN:
        ok(r, "GetSelectedOutputValue_and_GetSelectedOutputValue2.same_entry_for_%s" % k, a.get(k) == b.get(k) and bool(a.get(k)), "%s vs %s" % (sorted(a.get(k, [])), sorted(b.get(k, []))), backend="symex")
    r.assumptions += ["the same-named IPhreeqc method is an opaque call whose result is any VRESULT; `default: assert(false)` does nothing in a release build (NDEBUG)",
                      "forwarding of the arguments and the instance look-up are C13.wrap.*"]
    return r


def _rules(rel, q, find_kw, inner_name, v_arg, copy_name, ev):
    """per cell type: what the scalar accessor reports - (type code stored into *vtype, kind of number stored into *dvalue, snprintf format,
    kind of value rendered, where the text handed to the caller comes from)"""
    c = ctx(functional=("GetInstance",)); c.enum_values.update(ev); c.log_stores = True
    fn = A.find_function(rel, q, **find_kw)
    f, ex, fin, info = run(rel, q, c=c, fn=fn)
    pn = [p.get("name") for p in A.params_of(fn)]
    P = {n_: param(i, n_, "P") for i, n_ in enumerate(pn)}
    out = {}
    meta = {"returns_inner_result": True, "clears_last": True, "paths": 0}
    for s in alive(fin, ("ret",)):
        E = [e for e in evs(s) if e.name != "store"]
        g = [e for e in E if short(e) == inner_name]
        if len(g) != 1:
            meta["returns_inner_result"] = False; continue
        meta["paths"] += 1
        v = g[0].args[v_arg]
        if s.ret is not g[0].result:
            meta["returns_inner_result"] = False
        if not E or short(E[-1]) != "VarClear" or E[-1].args[0] is not v:
            meta["clears_last"] = False
        ty = fld0(ex, s, "type", "I", v)
        hit = [k for k in TTN if proved(s.pc, tm.eq(ty, tm.num(ev[k], "I")))]
        if len(hit) != 1:
            continue
        st_ = {id(e.recv): val for e, f_, val in stores(s)}
        tv = st_.get(id(P["vtype"]))
        tname = None
        if tv is not None:
            tname = next((k for k in TTN if proved(s.pc, tm.eq(ex.coerce(tv, "I"), tm.num(ev[k], "I")))), "?")
        d = st_.get(id(P["dvalue"]))
        lv, dv, sv = fld0(ex, s, "lVal", "I", v), fld0(ex, s, "dVal", "R", v), fld0(ex, s, "sVal", "P", v)
        def kind_of(t):
            if t is None:
                return None
            if t is lv: return "lVal"
            if t is dv: return "dVal"
            if t is sv: return "sVal"
            if t is tm.to_real(lv) or (t.sort == "R" and B.sympy_equal(t, tm.to_real(lv))[0]): return "(double)lVal"
            return "?" + repr(t)[:40]
        sn = [e for e in E if short(e) == "snprintf"]
        cp = [e for e in E if short(e) == copy_name]
        fmt = [strlit(e.args[2]) for e in sn]
        rendered = [kind_of(e.args[3]) if len(e.args) > 3 else None for e in sn]
        src = []
        for e in cp:
            a = e.args[1]
            src.append("the rendered buffer" if sn and a is sn[-1].args[0] and E.index(sn[-1]) < E.index(e) else kind_of(a))
        dest_ok = all(e.args[0] is P["svalue"] for e in cp)
        out[hit[0]] = dict(type=tname, number=kind_of(d), format=fmt, rendered=rendered, text=src, into_svalue=dest_ok)
    return fn, out, meta


@unit("C05.accessors.GetSelectedOutputValue2_and_GetSelectedOutputValueF_apply_the_same_type_value_and_text_rules")
def unit_sibling_rules(twin=False):
    """IPhreeqc::GetSelectedOutputValue2 (the scalar accessor of the C / C++ binding) and GetSelectedOutputValueF (Fortran binding) hand out
    the same thing for the same cell: per cell type the same reported type (an integer cell is reported as a double), the same number
    (the integer converted, the double itself), the same printf format applied to the same member for the text (%ld / %23.15e), the text
    of a string cell taken from the cell, nothing for empty / error cells; both return the result code of the fetch and release the
    temporary variant last."""
    ev = A.enum_values_compiled("IPhreeqc.h", VRN + IPQN + TTN)
    fa, A_, ma = _rules(IPQ, "IPhreeqc::GetSelectedOutputValue2", {}, "GetSelectedOutputValue", 2, "strncpy", ev)
    fb, B_, mb = _rules(FIF, "GetSelectedOutputValueF", {"kind": "FunctionDecl"}, "GetSelectedOutputValue", 3, "padfstring", ev)
    r = U.new_unit("C05.accessors.GetSelectedOutputValue2_and_GetSelectedOutputValueF_apply_the_same_type_value_and_text_rules", IPQ, "IPhreeqc::GetSelectedOutputValue2 / GetSelectedOutputValueF", fa)
    # the rules themselves (specification: documentation of GetSelectedOutputValue2 in IPhreeqc.h / IPhreeqc.hpp)
    SPEC = {"TT_EMPTY": dict(type="TT_EMPTY", number=None, format=[], rendered=[], text=[]),
            "TT_ERROR": dict(type="TT_ERROR", number=None, format=[], rendered=[], text=[]),
            "TT_LONG": dict(type="TT_DOUBLE", number="(double)lVal", format=["%ld"], rendered=["lVal"], text=["the rendered buffer"]),
            "TT_DOUBLE": dict(type="TT_DOUBLE", number="dVal", format=["%23.15e"], rendered=["dVal"], text=["the rendered buffer"]),
            "TT_STRING": dict(type="TT_STRING", number=None, format=[], rendered=[], text=["sVal"])}
    if twin:
        SPEC["TT_LONG"]["type"] = "TT_LONG"
    for k in TTN:
        a, b = A_.get(k), B_.get(k)
        if a is None or b is None:
            r.add("reach.%s.in_both" % k, UNDECIDED, "symex", 0, "C++ %s Fortran %s" % (a is not None, b is not None), kind="vacuity"); continue
        for fld_ in ("type", "number", "format", "rendered", "text"):
            ok(r, "%s.%s.same_in_both_bindings" % (k, fld_), a[fld_] == b[fld_], "C/C++ %r, Fortran %r" % (a[fld_], b[fld_]), backend="symex")
            ok(r, "%s.%s.as_documented" % (k, fld_), a[fld_] == SPEC[k][fld_], "C/C++ %r, documented %r" % (a[fld_], SPEC[k][fld_]), backend="symex")
        ok(r, "%s.text_goes_into_the_caller's_svalue_in_both" % k, a["into_svalue"] and b["into_svalue"], "", backend="trace")
    for nm, m in (("GetSelectedOutputValue2", ma), ("GetSelectedOutputValueF", mb)):
        ok(r, "%s.returns_the_result_code_of_the_fetch" % nm, m["returns_inner_result"] and m["paths"] >= 5, "%d paths" % m["paths"], backend="symex")
        ok(r, "%s.releases_the_temporary_variant_last" % nm, m["clears_last"], "", backend="trace")
    r.assumptions += ["snprintf renders its argument into the local buffer; strncpy / padfstring copy that buffer (or the cell text) into the caller's svalue bounded by the caller's length (C05.fortran.padfstring, C05.GetSelectedOutputValue2...)",
                      "the row / column shift of the Fortran binding is C05.fortran.GetSelectedOutputValueF...; the type and value read after the fetch are those of the fetched variant"]
    return r
