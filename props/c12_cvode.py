"""C12, stiff integrator (cvode.cpp, C-style SUNDIALS code read by Engine B through clang's AST): the pieces of CVODE that make "within
the user tolerance" true -
  (a) the error weights are 1 / (rtol * |y_i| + atol_i), refused (FALSE, weights not written) when one is not positive;
  (b) the local error test accepts a step iff acnrm / tq[2] <= 1, reports that quotient, changes nothing on acceptance and on rejection
      restores the history array, counts the failure and asks for a retry / gives up exactly at the documented limits;
  (c) CVStep completes a step (CVCompleteStep, CVPrepareNextStep) only after the error test of that attempt passed, and leaves the loop in
      no other way than a return of the failure flag;
  (d) CVRestore undoes CVPredict: the same triangular sweep over the Nordsieck array with -1 in place of +1, and the saved time.
The N_V* kernels are under C12.nvector.*; here they are call events whose element-wise meaning is the contract proved there."""
from props.common import *
from vf.core import FAILED, DISCHARGED, UNDECIDED

REL = "src/phreeqcpp/cvode.cpp"


def _mem(ex, s, name, ty, obj, heap0=True):
    return (fld0 if heap0 else fld)(ex, s, name, ty, obj)


def _vec_eval(events, env, y_ptr):
    """element-wise meaning of a straight-line sequence of N_V kernel calls; env maps vector pointer terms (by identity) to a real term in the
    generic element; returns (env, min_results) where min_results[id(result term)] = element-wise operand of that N_VMin call"""
    mins = {}
    def get(p):
        for k, v in env:
            if k is p:
                return v
        v = tm.sym("elem_%d" % len(env), "R")
        env.append((p, v))
        return v
    def put(p, v):
        for i, (k, _) in enumerate(env):
            if k is p:
                env[i] = (k, v); return
        env.append((p, v))
    for e in events:
        n = e.name.split("::")[-1]
        a = e.args
        if n == "N_VAbs":
            x = get(a[0]); put(a[1], tm.app("abs", (x,), "R"))
        elif n == "N_VScale":
            put(a[2], a[0] * get(a[1]))
        elif n == "N_VAddConst":
            put(a[2], get(a[0]) + a[1])
        elif n == "N_VLinearSum":
            put(a[4], a[0] * get(a[1]) + a[2] * get(a[3]))
        elif n == "N_VInv":
            put(a[1], tm.num(1) / get(a[0]))
        elif n == "N_VMin":
            mins[id(e.result)] = get(a[0])
        else:
            return None, None
    return env, mins


def unit_error_weights(which, twin=False):
    q = "CVEwtSet" + which
    fn, ex, fin, info = U.run_function(REL, q, ctx=ctx(functional=()))
    r = U.new_unit("C12.cvode.error_weights_%s==1/(rtol*|y|+atol)" % which, REL, q, fn)
    cv, ycur = tm.sym("P0_cv_mem", "P"), tm.sym("P1_ycur", "P")
    nt = nf = 0
    for s in live(fin, ("ret",)):
        ewt = _mem(ex, s, "cv_ewt", "P", cv); tempv = _mem(ex, s, "cv_tempv", "P", cv)
        rtol = _read0(ex, s, "R", _mem(ex, s, "cv_reltol", "P", cv))
        yi = tm.sym("y_i", "R")
        env = [(ycur, yi)]
        if which == "SS":
            atol = _read0(ex, s, "R", _mem(ex, s, "cv_abstol", "P", cv))
        else:
            atol = tm.sym("atol_i", "R"); env.append((_mem(ex, s, "cv_abstol", "P", cv), atol))
        env, mins = _vec_eval(s.events, env, ycur)
        if env is None:
            r.add("only_vector_kernels_called", FAILED, "trace", 0, ",".join(e.name for e in s.events)); continue
        denom = rtol * tm.app("abs", (yi,), "R") + (atol if not twin else tm.num(0))
        written = [v for k, v in env if k is ewt]
        accepted = B.z3_prove(list(s.pc), tm.not_(tm.eq(s.ret, tm.num(0, "I"))))[0] == "proved"
        refused = B.z3_prove(list(s.pc), tm.eq(s.ret, tm.num(0, "I")))[0] == "proved"
        if accepted:
            nt += 1
            if len(written) != 1:
                r.add("accepted.weights_written_once", FAILED, "trace", 0, ""); continue
            U.discharge_eq_real(r, "accepted.ewt_i==1/(rtol*|y_i|+atol_i)", [], written[0], tm.num(1) / denom)
            # accepted only when the minimum of the denominators is positive
            okmin = False
            for mid, mv in mins.items():
                mres = [e.result for e in s.events if id(e.result) == mid][0]
                if B.z3_prove(list(s.pc), tm.lt(tm.num(0), mres))[0] == "proved":
                    okmin = True; md = mv
            if okmin:
                U.discharge_eq_real(r, "accepted.only_if_min_i(rtol*|y_i|+atol_i)>0", [], md, denom)
            else:
                r.add("accepted.only_if_min_i(rtol*|y_i|+atol_i)>0", FAILED, "symex", 0, repr(s.pc)[:200])
        elif refused:
            nf += 1
            r.add("refused.weights_left_unwritten", DISCHARGED if not written else FAILED, "trace", 0, "", kind="frame")
        else:
            r.add("result_decided", UNDECIDED, "symex", 0, repr(s.ret)[:80])
    r.add("reach.accept_and_refuse", DISCHARGED if nt and nf else UNDECIDED, "symex", 0, "%d/%d" % (nt, nf), kind="vacuity")
    r.assumptions += ["N_VAbs/N_VScale/N_VAddConst/N_VLinearSum/N_VInv/N_VMin mean what C12.nvector.* prove of them (element-wise, in lockstep)", "doubles as reals"]
    return r


def unit_error_test(twin=False):
    q = "CVDoErrorTest"
    cv = tm.sym("P0_cv_mem", "P")
    P = lambda k, n: tm.sym("P%d_%s" % (k, n), "P")
    nflagP, kflagP, nefP, dsmP = P(1, "nflagPtr"), P(2, "kflagPtr"), P(4, "nefPtr"), P(5, "dsmPtr")
    distinct = [tm.not_(tm.eq(a, b)) for a, b in ((nflagP, kflagP), (nflagP, nefP), (kflagP, nefP))]     # the caller passes the addresses of three different locals
    fn, ex, fin, info = U.run_function(REL, q, ctx=ctx(functional=()), pre=distinct)
    r = U.new_unit("C12.cvode.local_error_test_accepts_iff_dsm<=1", REL, q, fn)
    saved_t = tm.sym("P3_saved_t", "R")
    consts = _macro_ints(["PREV_ERR_FAIL", "REP_ERR_FAIL", "MXNEF"])
    na = nr = ng = 0
    for s in live(fin, ("ret",)):
        acn = fld0(ex, s, "cv_acnrm", "R", cv)
        tq2 = _read0(ex, s, "R", tm.app("fld:cv_tq", (cv,), "P"), 2)
        dsm = acn / tq2
        got = _read(ex, s, "R", dsmP)
        U.discharge_eq_real(r, "reports_dsm==acnrm/tq[2]#%d" % (na + nr), list(s.pc), got, dsm)
        # classify the path by what it RETURNS, then demand the condition of the specification on it (a wrong threshold is then a
        # counterexample, not an undecided case split)
        passes = B.z3_prove(list(s.pc), tm.not_(tm.eq(s.ret, tm.num(0, "I"))))[0] == "proved"
        fails = B.z3_prove(list(s.pc), tm.eq(s.ret, tm.num(0, "I")))[0] == "proved"
        if passes or fails:
            thr = tm.le(dsm, tm.num(1 if not twin else 0.5))
            U.discharge_valid(r, "%s.iff_dsm%s1#%d" % ("TRUE" if passes else "FALSE", "<=" if passes else ">", na + nr), list(s.pc), thr if passes else tm.not_(thr))
        if passes:
            na += 1
            r.add("pass.returns_TRUE", DISCHARGED if B.z3_prove(list(s.pc), tm.not_(tm.eq(s.ret, tm.num(0, "I"))))[0] == "proved" else FAILED, "z3", 0, repr(s.ret)[:60])
            r.add("pass.no_call_and_no_other_write", DISCHARGED if not s.events and _only_writes(s, [(("m", "R"), dsmP)]) else FAILED, "symex", 0, "", kind="frame")
        elif fails:
            nr += 1
            r.add("fail.returns_FALSE", DISCHARGED if B.z3_prove(list(s.pc), tm.eq(s.ret, tm.num(0, "I")))[0] == "proved" else FAILED, "z3", 0, repr(s.ret)[:60])
            ev = s.events
            r.add("fail.history_restored_first(CVRestore(cv_mem,saved_t))", DISCHARGED if ev and ev[0].name.endswith("CVRestore") and ev[0].args[0] is cv and ev[0].args[1] is saved_t else FAILED, "trace", 0, ev[0].name if ev else "")
            nef0 = _read0(ex, s, "I", nefP)
            nef1 = _read(ex, s, "I", nefP)
            U.discharge_valid(r, "fail.failure_counted_once#%d" % nr, list(s.pc), tm.eq(nef1, nef0 + tm.num(1, "I")))
            U.discharge_valid(r, "fail.total_failures_counted#%d" % nr, list(s.pc), tm.eq(fld(ex, s, "cv_netf", "I", cv), fld0(ex, s, "cv_netf", "I", cv) + tm.num(1, "I")))
            U.discharge_valid(r, "fail.nflag==PREV_ERR_FAIL#%d" % nr, list(s.pc), tm.eq(_read(ex, s, "I", nflagP), tm.num(consts["PREV_ERR_FAIL"], "I")))
            h = fld0(ex, s, "cv_h", "R", cv); hmin = fld0(ex, s, "cv_hmin", "R", cv)
            kf = _read(ex, s, "I", kflagP); kf0 = _read0(ex, s, "I", kflagP)
            atlimit = tm.eq(nef0 + tm.num(1, "I"), tm.num(consts["MXNEF"], "I"))
            gave_up = B.z3_prove(list(s.pc), tm.eq(kf, tm.num(consts["REP_ERR_FAIL"], "I")))[0] == "proved"
            if gave_up:
                ng += 1
                no_retry = not any(e.name.endswith(("CVRescale", "CVAdjustOrder")) for e in ev)
                r.add("give_up.no_rescale", DISCHARGED if no_retry else FAILED, "trace", 0, "")
            else:
                # retry paths: the failure limit was not reached and the flag of the caller is left alone; next step may not grow
                U.discharge_valid(r, "retry.limit_MXNEF_not_reached#%d" % nr, list(s.pc), tm.not_(atlimit))
                U.discharge_valid(r, "retry.kflag_untouched#%d" % nr, list(s.pc), tm.eq(kf, kf0))
                U.discharge_valid(r, "retry.etamax==1(no_growth_after_a_failure)#%d" % nr, list(s.pc), tm.eq(fld(ex, s, "cv_etamax", "R", cv), tm.num(1)))
        else:
            r.add("case_decided", UNDECIDED, "z3", 0, "")
    r.add("reach.pass_fail_giveup", DISCHARGED if na and nr > ng and ng else UNDECIDED, "symex", 0, "%d/%d/%d" % (na, nr, ng), kind="vacuity")
    r.assumptions += ["the three int* arguments are the addresses of three different locals of CVStep (its only caller)", "CVRestore / CVRescale / CVAdjustOrder do not write the failure counters", "acnrm is the weighted RMS norm of the correction computed by CVnls (not under contract)", "the eta formula of the retry (step-size heuristics) is not pinned", "doubles as reals"]
    return r


def _macro_ints(names):
    import re as _re
    t = src(REL).decode("latin1")
    out = {}
    for n in names:
        m = _re.search(r"#define\s+%s\s+\(?\s*(-?\d+)\s*\)?" % n, t)
        if not m:
            raise Undecided("macro %s not found in cvode.cpp" % n)
        out[n] = int(m.group(1))
    return out


def _read(ex, s, ty, ptr, idx=0):
    """*ptr (or ptr[idx]) in the final state"""
    return tm.select(ex.heap_arr(s, ("m", ty)), ptr, tm.num(idx, "I"))


def _read0(ex, s, ty, ptr, idx=0):
    return tm.select(entry_arr(ex, s, ("m", ty)), ptr, tm.num(idx, "I"))


def _only_writes(s, allowed):
    """every store of the path is to one of the allowed (heap key, index term) places"""
    for key in s.heap:
        for ix, _ in writes(s, key):
            if not any(key == k and (ix is i or (isinstance(ix, tuple) and ix and ix[0] is i) or repr(ix).startswith("(" + repr(i)) or repr(ix) == repr(i)) for k, i in allowed):
                return False
    return True


def unit_step(twin=False):
    q = "CVStep"
    fn = A.find_function(REL, q)
    r = U.new_unit("C12.cvode.step_completed_only_after_its_error_test_passed", REL, q, fn)
    loops = [x for x in A.walk(fn) if x.get("kind") in ("ForStmt", "WhileStmt", "DoStmt")]
    if len(loops) != 1:
        raise Undecided("CVStep: expected the one attempt loop, found %d loops" % len(loops))
    consts = _macro_ints(["DO_ERROR_TEST", "PREDICT_AGAIN", "REP_ERR_FAIL", "SUCCESS_STEP"])
    f, ex, its, info = U.run_loop_isolated(REL, q, 0, ctx=ctx(functional=(), pure_all=False))
    nb = nret = ncont = 0
    for s in its:
        # callee contract (C12.cvode.CVHandleNFlag...): the flag it returns is never SUCCESS_STEP
        for e in U.iter_events(s):
            if e.name.endswith("CVHandleNFlag"):
                s.pc = list(s.pc) + [tm.not_(tm.eq(e.result, tm.num(consts["SUCCESS_STEP"], "I")))]
        names = [e.name.split("::")[-1] for e in U.iter_events(s)]
        evs = list(U.iter_events(s))
        order_ok = [n for n in names if n in ("CVPredict", "CVSet", "CVnls", "CVHandleNFlag", "CVDoErrorTest")]
        if s.status == "brk":
            nb += 1
            tests = [e for e in evs if e.name.endswith("CVDoErrorTest")]
            ok = len(tests) == 1 and B.z3_prove(list(s.pc), tm.not_(tm.eq(tests[0].result, tm.num(0, "I"))))[0] == "proved"
            if twin:
                ok = ok and B.z3_prove(list(s.pc), tm.eq(tests[0].result, tm.num(0, "I")))[0] == "proved"
            r.add("leaves_loop_to_complete.only_with_error_test_passed#%d" % nb, DISCHARGED if ok else FAILED, "z3", 0, ",".join(names))
            hn = [e for e in evs if e.name.endswith("CVHandleNFlag")]
            okn = len(hn) == 1 and B.z3_prove(list(s.pc), tm.eq(hn[0].result, tm.num(consts["DO_ERROR_TEST"], "I")))[0] == "proved"
            r.add("leaves_loop_to_complete.only_with_nonlinear_solve_accepted#%d" % nb, DISCHARGED if okn else FAILED, "z3", 0, "")
            r.add("attempt.order_predict_set_solve_handle_test#%d" % nb, DISCHARGED if order_ok == ["CVPredict", "CVSet", "CVnls", "CVHandleNFlag", "CVDoErrorTest"] else FAILED, "trace", 0, ",".join(order_ok))
        elif s.status == "ret":
            nret += 1
            okr = B.z3_prove(list(s.pc), tm.not_(tm.eq(s.ret, tm.num(consts["SUCCESS_STEP"], "I"))))[0] == "proved"
            r.add("returns_from_inside_the_loop.never_success#%d" % nret, DISCHARGED if okr else FAILED, "z3", 0, repr(s.ret)[:60])
        elif s.status in ("run", "cont"):
            ncont += 1
            r.add("retry.prediction_precedes_every_attempt#%d" % ncont, DISCHARGED if "CVPredict" in names else FAILED, "trace", 0, ",".join(names))
    r.add("reach.break_return_retry", DISCHARGED if nb and nret and ncont else UNDECIDED, "symex", 0, "%d/%d/%d" % (nb, nret, ncont), kind="vacuity")
    # after the loop: complete, then prepare the next step; success is returned only there
    fn2, ex2, fin, info2 = U.run_function(REL, q, modes={0: "havoc"}, ctx=ctx(functional=(), pure_all=False))
    ns = 0
    for s in live(fin, ("ret",)):
        if B.z3_prove(list(s.pc), tm.eq(s.ret, tm.num(consts["SUCCESS_STEP"], "I")))[0] != "proved":
            continue
        ns += 1
        names = [e.name.split("::")[-1] for e in s.events]
        tail = [n for n in names if n in ("CVCompleteStep", "CVPrepareNextStep")]
        r.add("success.completes_then_prepares_next#%d" % ns, DISCHARGED if tail == ["CVCompleteStep", "CVPrepareNextStep"] else FAILED, "trace", 0, ",".join(names))
    r.add("reach.success", DISCHARGED if ns else UNDECIDED, "symex", 0, str(ns), kind="vacuity")
    r.assumptions += ["CVnls (nonlinear solve), CVHandleNFlag and CVSet are opaque calls here", "termination of the attempt loop rests on the failure counters of CVDoErrorTest / CVHandleNFlag (C12.cvode.local_error_test...)"]
    return r


def unit_handle_nflag(twin=False):
    """what CVStep relies on: DO_ERROR_TEST iff the nonlinear solve succeeded; every other flag is a failure flag (never SUCCESS_STEP) and is
    returned only after the history array was restored to the saved time; PREDICT_AGAIN only below the convergence-failure limit"""
    q = "CVHandleNFlag"
    P = lambda k, n: tm.sym("P%d_%s" % (k, n), "P")
    cv, nflagP, ncfP = P(0, "cv_mem"), P(1, "nflagPtr"), P(3, "ncfPtr")
    fn, ex, fin, info = U.run_function(REL, q, ctx=ctx(functional=()), pre=[tm.not_(tm.eq(nflagP, ncfP))])
    r = U.new_unit("C12.cvode.CVHandleNFlag_flags", REL, q, fn)
    consts = _macro_ints(["DO_ERROR_TEST", "PREDICT_AGAIN", "SUCCESS_STEP", "SOLVED", "MXNCF"])
    nflag0 = _read0(ex, fin[0], "I", nflagP)
    nd = nf = na = 0
    for s in live(fin, ("ret",)):
        is_solved = tm.eq(nflag0, tm.num(consts["SOLVED"] if not twin else consts["SOLVED"] - 1, "I"))
        solved = B.z3_prove(list(s.pc), tm.eq(s.ret, tm.num(consts["DO_ERROR_TEST"], "I")))[0] == "proved"
        notsolved = B.z3_prove(list(s.pc), tm.not_(tm.eq(s.ret, tm.num(consts["DO_ERROR_TEST"], "I"))))[0] == "proved"
        if solved or notsolved:
            U.discharge_valid(r, "DO_ERROR_TEST_iff_nonlinear_solve_succeeded#%d" % (nd + nf), list(s.pc), is_solved if solved else tm.not_(is_solved))
        if solved:
            nd += 1
            U.discharge_valid(r, "solved.returns_DO_ERROR_TEST", list(s.pc), tm.eq(s.ret, tm.num(consts["DO_ERROR_TEST"], "I")))
            r.add("solved.nothing_called_nothing_written", DISCHARGED if not s.events and _only_writes(s, []) else FAILED, "symex", 0, "", kind="frame")
        elif notsolved:
            nf += 1
            U.discharge_valid(r, "failed.flag_is_neither_SUCCESS_nor_DO_ERROR_TEST#%d" % nf, list(s.pc), tm.and_(tm.not_(tm.eq(s.ret, tm.num(consts["SUCCESS_STEP"], "I"))), tm.not_(tm.eq(s.ret, tm.num(consts["DO_ERROR_TEST"], "I")))))
            ev = s.events
            r.add("failed.history_restored_first(CVRestore(cv_mem,saved_t))#%d" % nf, DISCHARGED if ev and ev[0].name.endswith("CVRestore") and ev[0].args[0] is cv and ev[0].args[1] is tm.sym("P2_saved_t", "R") else FAILED, "trace", 0, "")
            if B.z3_prove(list(s.pc), tm.eq(s.ret, tm.num(consts["PREDICT_AGAIN"], "I")))[0] == "proved":
                na += 1
                ncf1 = _read(ex, s, "I", ncfP)
                U.discharge_valid(r, "again.failure_counted_and_below_MXNCF", list(s.pc), tm.and_(tm.eq(ncf1, _read0(ex, s, "I", ncfP) + tm.num(1, "I")), tm.not_(tm.eq(ncf1, tm.num(consts["MXNCF"], "I")))))
                U.discharge_valid(r, "again.etamax==1(no_growth_after_a_failure)", list(s.pc), tm.eq(fld(ex, s, "cv_etamax", "R", cv), tm.num(1)))
        else:
            r.add("case_decided", UNDECIDED, "z3", 0, "")
    r.add("reach.solved_failed_again", DISCHARGED if nd and nf and na else UNDECIDED, "symex", 0, "%d/%d/%d" % (nd, nf, na), kind="vacuity")
    r.assumptions += ["the two int* arguments are the addresses of two different locals of CVStep", "CVRestore / CVRescale do not write the counters"]
    return r


def unit_restore(twin=False):
    r = None
    shapes = {}
    for q in ("CVPredict", "CVRestore"):
        fn = A.find_function(REL, q)
        if r is None:
            r = U.new_unit("C12.cvode.CVRestore_undoes_CVPredict", REL, "CVRestore", A.find_function(REL, "CVRestore"))
        loops = [x for x in A.walk(fn) if x.get("kind") == "ForStmt"]
        if len(loops) != 2:
            raise Undecided("%s: expected the two nested sweeps, found %d loops" % (q, len(loops)))
        heads = [tuple(text_of(REL, lp["inner"][k]) if lp["inner"][k] else "" for k in (0, 2, 3)) for lp in loops]
        f, ex, its, info = U.run_loop_isolated(REL, q, 1, ctx=ctx(functional=()))
        body = []
        for s in live(its, ("run", "cont")):
            evs = list(U.iter_events(s))
            body.append([(e.name.split("::")[-1], tuple(e.args)) for e in evs])
        shapes[q] = (heads, body)
    hp, bp = shapes["CVPredict"]; hr, br = shapes["CVRestore"]
    r.add("same_triangular_sweep(loop_heads_equal)", DISCHARGED if hp == hr and not twin else FAILED, "syntactic", 0, "%r / %r" % (hp, hr), kind="structural")
    ok = len(bp) == 1 and len(br) == 1 and len(bp[0]) == 1 and len(br[0]) == 1 and bp[0][0][0] == br[0][0][0] == "N_VLinearSum"
    if ok:
        a, b = bp[0][0][1], br[0][0][1]
        one = lambda t, v: tm.isnum(t) and t.args[0] == v
        ok = one(a[0], 1) and one(b[0], 1) and one(a[2], 1) and one(b[2], -1) and repr(a[1]) == repr(b[1]) and repr(a[3]) == repr(b[3]) and repr(a[4]) == repr(b[4]) and repr(a[1]) == repr(a[4])
        jm1 = "(iter_j - 1)" in repr(a[1]) and "iter_j)" in repr(a[3])
        r.add("predict.zn[j-1]+=zn[j]_and_restore.zn[j-1]-=zn[j]", DISCHARGED if ok and jm1 else FAILED, "trace", 0, "%r / %r" % (a, b))
    else:
        r.add("predict.zn[j-1]+=zn[j]_and_restore.zn[j-1]-=zn[j]", FAILED, "trace", 0, "%r / %r" % (bp, br))
    # the time: predict advances by h, restore returns to the saved time
    for q, want in (("CVPredict", "advance"), ("CVRestore", "saved")):
        fn, ex, fin, info = U.run_function(REL, q, modes={0: "havoc", 1: "havoc"}, ctx=ctx(functional=()))
        cv = tm.sym("P0_cv_mem", "P")
        for s in live(fin, ("ret", "run")):
            tn = fld(ex, s, "cv_tn", "R", cv)
            spec = fld0(ex, s, "cv_tn", "R", cv) + fld0(ex, s, "cv_h", "R", cv) if want == "advance" else tm.sym("P1_saved_t", "R")
            U.discharge_eq_real(r, "%s.tn" % q, list(s.pc), tn, spec)
    r.assumptions += ["the inverse property uses: the sweep of CVRestore visits the same (k, j) pairs in the same order as CVPredict's and subtraction of the same unmodified zn[j] undoes the addition (zn[j] for j > the updated index is already restored when it is used: the order argument of the SUNDIALS documentation, not re-proved)", "N_VLinearSum per C12.nvector.*"]
    return r
