"""C12, stiff integrator (cvode.cpp, C-style SUNDIALS code read by Engine B through clang's AST): the pieces of CVODE that make "within
the user tolerance" true -
  (a) the error weights are 1 / (rtol * |y_i| + atol_i), refused (FALSE, weights not written) when one is not positive;
  (b) the local error test accepts a step iff acnrm / tq[2] <= 1, reports that quotient, changes nothing on acceptance and on rejection
      restores the history array, counts the failure and asks for a retry / gives up exactly at the documented limits;
  (c) CVStep completes a step (CVCompleteStep, CVPrepareNextStep) only after the error test of that attempt passed, and leaves the loop in
      no other way than a return of the failure flag;
  (d) CVRestore undoes CVPredict: the same triangular sweep over the Nordsieck array with -1 in place of +1, and the saved time.
The N_V* kernels are under C12.nvector.*; here they are call events whose element-wise meaning is the contract proved there."""
from props.common import *
from vf.core import FAILED, DISCHARGED, UNDECIDED

REL = "src/phreeqcpp/cvode.cpp"


def _mem(ex, s, name, ty, obj, heap0=True):
    return (fld0 if heap0 else fld)(ex, s, name, ty, obj)


def _vec_eval(events, env, y_ptr):
    """element-wise meaning of a straight-line sequence of N_V kernel calls; env maps vector pointer terms (by identity) to a real term in the
    generic element; returns (env, min_results) where min_results[id(result term)] = element-wise operand of that N_VMin call"""
    mins = {}
    def get(p):
        for k, v in env:
            if k is p:
                return v
        v = tm.sym("elem_%d" % len(env), "R")
        env.append((p, v))
        return v
    def put(p, v):
        for i, (k, _) in enumerate(env):
            if k is p:
                env[i] = (k, v); return
        env.append((p, v))
    for e in events:
        n = e.name.split("::")[-1]
        a = e.args
        if n == "N_VAbs":
            x = get(a[0]); put(a[1], tm.app("abs", (x,), "R"))
        elif n == "N_VScale":
            put(a[2], a[0] * get(a[1]))
        elif n == "N_VAddConst":
            put(a[2], get(a[0]) + a[1])
        elif n == "N_VLinearSum":
            put(a[4], a[0] * get(a[1]) + a[2] * get(a[3]))
        elif n == "N_VInv":
            put(a[1], tm.num(1) / get(a[0]))
        elif n == "N_VMin":
            mins[id(e.result)] = get(a[0])
        else:
            return None, None
    return env, mins


def unit_error_weights(which, twin=False):
    q = "CVEwtSet" + which
    fn, ex, fin, info = U.run_function(REL, q, ctx=ctx(functional=()))
    r = U.new_unit("C12.cvode.error_weights_%s==1/(rtol*|y|+atol)" % which, REL, q, fn)
    cv, ycur = tm.sym("P0_cv_mem", "P"), tm.sym("P1_ycur", "P")
    nt = nf = 0
    for s in live(fin, ("ret",)):
        ewt = _mem(ex, s, "cv_ewt", "P", cv); tempv = _mem(ex, s, "cv_tempv", "P", cv)
        rtol = _read0(ex, s, "R", _mem(ex, s, "cv_reltol", "P", cv))
        yi = tm.sym("y_i", "R")
        env = [(ycur, yi)]
        if which == "SS":
            atol = _read0(ex, s, "R", _mem(ex, s, "cv_abstol", "P", cv))
        else:
            atol = tm.sym("atol_i", "R"); env.append((_mem(ex, s, "cv_abstol", "P", cv), atol))
        env, mins = _vec_eval(s.events, env, ycur)
        if env is None:
            r.add("only_vector_kernels_called", FAILED, "trace", 0, ",".join(e.name for e in s.events)); continue
        denom = rtol * tm.app("abs", (yi,), "R") + (atol if not twin else tm.num(0))
        written = [v for k, v in env if k is ewt]
        accepted = B.z3_prove(list(s.pc), tm.not_(tm.eq(s.ret, tm.num(0, "I"))))[0] == "proved"
        refused = B.z3_prove(list(s.pc), tm.eq(s.ret, tm.num(0, "I")))[0] == "proved"
        if accepted:
            nt += 1
            if len(written) != 1:
                r.add("accepted.weights_written_once", FAILED, "trace", 0, ""); continue
            U.discharge_eq_real(r, "accepted.ewt_i==1/(rtol*|y_i|+atol_i)", [], written[0], tm.num(1) / denom)
            # accepted only when the minimum of the denominators is positive
            okmin = False
            for mid, mv in mins.items():
                mres = [e.result for e in s.events if id(e.result) == mid][0]
                if B.z3_prove(list(s.pc), tm.lt(tm.num(0), mres))[0] == "proved":
                    okmin = True; md = mv
            if okmin:
                U.discharge_eq_real(r, "accepted.only_if_min_i(rtol*|y_i|+atol_i)>0", [], md, denom)
            else:
                r.add("accepted.only_if_min_i(rtol*|y_i|+atol_i)>0", FAILED, "symex", 0, repr(s.pc)[:200])
        elif refused:
            nf += 1
            r.add("refused.weights_left_unwritten", DISCHARGED if not written else FAILED, "trace", 0, "", kind="frame")
        else:
            r.add("result_decided", UNDECIDED, "symex", 0, repr(s.ret)[:80])
    r.add("reach.accept_and_refuse", DISCHARGED if nt and nf else UNDECIDED, "symex", 0, "%d/%d" % (nt, nf), kind="vacuity")
    r.assumptions += ["N_VAbs/N_VScale/N_VAddConst/N_VLinearSum/N_VInv/N_VMin mean what C12.nvector.* prove of them (element-wise, in lockstep)", "doubles as reals"]
    return r


def unit_error_test(twin=False):
    q = "CVDoErrorTest"
    cv = tm.sym("P0_cv_mem", "P")
    P = lambda k, n: tm.sym("P%d_%s" % (k, n), "P")
    nflagP, kflagP, nefP, dsmP = P(1, "nflagPtr"), P(2, "kflagPtr"), P(4, "nefPtr"), P(5, "dsmPtr")
    distinct = [tm.not_(tm.eq(a, b)) for a, b in ((nflagP, kflagP), (nflagP, nefP), (kflagP, nefP))]     # the caller passes the addresses of three different locals
    fn, ex, fin, info = U.run_function(REL, q, ctx=ctx(functional=()), pre=distinct)
    r = U.new_unit("C12.cvode.local_error_test_accepts_iff_dsm<=1", REL, q, fn)
    saved_t = tm.sym("P3_saved_t", "R")
    consts = _macro_ints(["PREV_ERR_FAIL", "REP_ERR_FAIL", "MXNEF"])
    na = nr = ng = 0
    for s in live(fin, ("ret",)):
        acn = fld0(ex, s, "cv_acnrm", "R", cv)
        tq2 = _read0(ex, s, "R", tm.app("fld:cv_tq", (cv,), "P"), 2)
        dsm = acn / tq2
        got = _read(ex, s, "R", dsmP)
        U.discharge_eq_real(r, "reports_dsm==acnrm/tq[2]#%d" % (na + nr), list(s.pc), got, dsm)
        # classify the path by what it RETURNS, then demand the condition of the specification on it (a wrong threshold is then a
        # counterexample, not an undecided case split)
        passes = B.z3_prove(list(s.pc), tm.not_(tm.eq(s.ret, tm.num(0, "I"))))[0] == "proved"
        fails = B.z3_prove(list(s.pc), tm.eq(s.ret, tm.num(0, "I")))[0] == "proved"
        if passes or fails:
            thr = tm.le(dsm, tm.num(1 if not twin else 0.5))
            U.discharge_valid(r, "%s.iff_dsm%s1#%d" % ("TRUE" if passes else "FALSE", "<=" if passes else ">", na + nr), list(s.pc), thr if passes else tm.not_(thr))
        if passes:
            na += 1
            r.add("pass.returns_TRUE", DISCHARGED if B.z3_prove(list(s.pc), tm.not_(tm.eq(s.ret, tm.num(0, "I"))))[0] == "proved" else FAILED, "z3", 0, repr(s.ret)[:60])
            r.add("pass.no_call_and_no_other_write", DISCHARGED if not s.events and _only_writes(s, [(("m", "R"), dsmP)]) else FAILED, "symex", 0, "", kind="frame")
        elif fails:
            nr += 1
            r.add("fail.returns_FALSE", DISCHARGED if B.z3_prove(list(s.pc), tm.eq(s.ret, tm.num(0, "I")))[0] == "proved" else FAILED, "z3", 0, repr(s.ret)[:60])
            ev = s.events
            r.add("fail.history_restored_first(CVRestore(cv_mem,saved_t))", DISCHARGED if ev and ev[0].name.endswith("CVRestore") and ev[0].args[0] is cv and ev[0].args[1] is saved_t else FAILED, "trace", 0, ev[0].name if ev else "")
            nef0 = _read0(ex, s, "I", nefP)
            nef1 = _read(ex, s, "I", nefP)
            U.discharge_valid(r, "fail.failure_counted_once#%d" % nr, list(s.pc), tm.eq(nef1, nef0 + tm.num(1, "I")))
            U.discharge_valid(r, "fail.total_failures_counted#%d" % nr, list(s.pc), tm.eq(fld(ex, s, "cv_netf", "I", cv), fld0(ex, s, "cv_netf", "I", cv) + tm.num(1, "I")))
            U.discharge_valid(r, "fail.nflag==PREV_ERR_FAIL#%d" % nr, list(s.pc), tm.eq(_read(ex, s, "I", nflagP), tm.num(consts["PREV_ERR_FAIL"], "I")))
            h = fld0(ex, s, "cv_h", "R", cv); hmin = fld0(ex, s, "cv_hmin", "R", cv)
            kf = _read(ex, s, "I", kflagP); kf0 = _read0(ex, s, "I", kflagP)
            atlimit = tm.eq(nef0 + tm.num(1, "I"), tm.num(consts["MXNEF"], "I"))
            gave_up = B.z3_prove(list(s.pc), tm.eq(kf, tm.num(consts["REP_ERR_FAIL"], "I")))[0] == "proved"
            if gave_up:
                ng += 1
                no_retry = not any(e.name.endswith(("CVRescale", "CVAdjustOrder")) for e in ev)
                r.add("give_up.no_rescale", DISCHARGED if no_retry else FAILED, "trace", 0, "")
            else:
                # retry paths: the failure limit was not reached and the flag of the caller is left alone; next step may not grow
                U.discharge_valid(r, "retry.limit_MXNEF_not_reached#%d" % nr, list(s.pc), tm.not_(atlimit))
                U.discharge_valid(r, "retry.kflag_untouched#%d" % nr, list(s.pc), tm.eq(kf, kf0))
                U.discharge_valid(r, "retry.etamax==1(no_growth_after_a_failure)#%d" % nr, list(s.pc), tm.eq(fld(ex, s, "cv_etamax", "R", cv), tm.num(1)))
        else:
            r.add("case_decided", UNDECIDED, "z3", 0, "")
    r.add("reach.pass_fail_giveup", DISCHARGED if na and nr > ng and ng else UNDECIDED, "symex", 0, "%d/%d/%d" % (na, nr, ng), kind="vacuity")
    r.assumptions += ["the three int* arguments are the addresses of three different locals of CVStep (its only caller)", "CVRestore / CVRescale / CVAdjustOrder do not write the failure counters", "acnrm is the weighted RMS norm of the correction computed by CVnls (not under contract)", "the eta formula of the retry (step-size heuristics) is not pinned", "doubles as reals"]
    return r


def _macro_ints(names):
    import re as _re
    t = src(REL).decode("latin1")
    out = {}
    for n in names:
        m = _re.search(r"#define\s+%s\s+\(?\s*(-?\d+)\s*\)?" % n, t)
        if not m:
            raise Undecided("macro %s not found in cvode.cpp" % n)
        out[n] = int(m.group(1))
    return out


def _read(ex, s, ty, ptr, idx=0):
    """*ptr (or ptr[idx]) in the final state"""
    return tm.select(ex.heap_arr(s, ("m", ty)), ptr, tm.num(idx, "I"))


def _read0(ex, s, ty, ptr, idx=0):
    return tm.select(entry_arr(ex, s, ("m", ty)), ptr, tm.num(idx, "I"))


def _only_writes(s, allowed):
    """every store of the path is to one of the allowed (heap key, index term) places"""
    for key in s.heap:
        for ix, _ in writes(s, key):
            if not any(key == k and (ix is i or (isinstance(ix, tuple) and ix and ix[0] is i) or repr(ix).startswith("(" + repr(i)) or repr(ix) == repr(i)) for k, i in allowed):
                return False
    return True


def unit_step(twin=False):
    q = "CVStep"
    fn = A.find_function(REL, q)
    r = U.new_unit("C12.cvode.step_completed_only_after_its_error_test_passed", REL, q, fn)
    loops = [x for x in A.walk(fn) if x.get("kind") in ("ForStmt", "WhileStmt", "DoStmt")]
    if len(loops) != 1:
        raise Undecided("CVStep: expected the one attempt loop, found %d loops" % len(loops))
    consts = _macro_ints(["DO_ERROR_TEST", "PREDICT_AGAIN", "REP_ERR_FAIL", "SUCCESS_STEP"])
    f, ex, its, info = U.run_loop_isolated(REL, q, 0, ctx=ctx(functional=(), pure_all=False))
    nb = nret = ncont = 0
    for s in its:
        # callee contract (C12.cvode.CVHandleNFlag...): the flag it returns is never SUCCESS_STEP
        for e in U.iter_events(s):
            if e.name.endswith("CVHandleNFlag"):
                s.pc = list(s.pc) + [tm.not_(tm.eq(e.result, tm.num(consts["SUCCESS_STEP"], "I")))]
        names = [e.name.split("::")[-1] for e in U.iter_events(s)]
        evs = list(U.iter_events(s))
        order_ok = [n for n in names if n in ("CVPredict", "CVSet", "CVnls", "CVHandleNFlag", "CVDoErrorTest")]
        if s.status == "brk":
            nb += 1
            tests = [e for e in evs if e.name.endswith("CVDoErrorTest")]
            ok = len(tests) == 1 and B.z3_prove(list(s.pc), tm.not_(tm.eq(tests[0].result, tm.num(0, "I"))))[0] == "proved"
            if twin:
                ok = ok and B.z3_prove(list(s.pc), tm.eq(tests[0].result, tm.num(0, "I")))[0] == "proved"
            r.add("leaves_loop_to_complete.only_with_error_test_passed#%d" % nb, DISCHARGED if ok else FAILED, "z3", 0, ",".join(names))
            hn = [e for e in evs if e.name.endswith("CVHandleNFlag")]
            okn = len(hn) == 1 and B.z3_prove(list(s.pc), tm.eq(hn[0].result, tm.num(consts["DO_ERROR_TEST"], "I")))[0] == "proved"
            r.add("leaves_loop_to_complete.only_with_nonlinear_solve_accepted#%d" % nb, DISCHARGED if okn else FAILED, "z3", 0, "")
            r.add("attempt.order_predict_set_solve_handle_test#%d" % nb, DISCHARGED if order_ok == ["CVPredict", "CVSet", "CVnls", "CVHandleNFlag", "CVDoErrorTest"] else FAILED, "trace", 0, ",".join(order_ok))
        elif s.status == "ret":
            nret += 1
            okr = B.z3_prove(list(s.pc), tm.not_(tm.eq(s.ret, tm.num(consts["SUCCESS_STEP"], "I"))))[0] == "proved"
            r.add("returns_from_inside_the_loop.never_success#%d" % nret, DISCHARGED if okr else FAILED, "z3", 0, repr(s.ret)[:60])
        elif s.status in ("run", "cont"):
            ncont += 1
            r.add("retry.prediction_precedes_every_attempt#%d" % ncont, DISCHARGED if "CVPredict" in names else FAILED, "trace", 0, ",".join(names))
    r.add("reach.break_return_retry", DISCHARGED if nb and nret and ncont else UNDECIDED, "symex", 0, "%d/%d/%d" % (nb, nret, ncont), kind="vacuity")
    # after the loop: complete, then prepare the next step; success is returned only there
    fn2, ex2, fin, info2 = U.run_function(REL, q, modes={0: "havoc"}, ctx=ctx(functional=(), pure_all=False))
    ns = 0
    for s in live(fin, ("ret",)):
        if B.z3_prove(list(s.pc), tm.eq(s.ret, tm.num(consts["SUCCESS_STEP"], "I")))[0] != "proved":
            continue
        ns += 1
        names = [e.name.split("::")[-1] for e in s.events]
        tail = [n for n in names if n in ("CVCompleteStep", "CVPrepareNextStep")]
        r.add("success.completes_then_prepares_next#%d" % ns, DISCHARGED if tail == ["CVCompleteStep", "CVPrepareNextStep"] else FAILED, "trace", 0, ",".join(names))
    r.add("reach.success", DISCHARGED if ns else UNDECIDED, "symex", 0, str(ns), kind="vacuity")
    r.assumptions += ["CVnls (nonlinear solve), CVHandleNFlag and CVSet are opaque calls here", "termination of the attempt loop rests on the failure counters of CVDoErrorTest / CVHandleNFlag (C12.cvode.local_error_test...)"]
    return r


def unit_handle_nflag(twin=False):
    """what CVStep relies on: DO_ERROR_TEST iff the nonlinear solve succeeded; every other flag is a failure flag (never SUCCESS_STEP) and is
    returned only after the history array was restored to the saved time; PREDICT_AGAIN only below the convergence-failure limit"""
    q = "CVHandleNFlag"
    P = lambda k, n: tm.sym("P%d_%s" % (k, n), "P")
    cv, nflagP, ncfP = P(0, "cv_mem"), P(1, "nflagPtr"), P(3, "ncfPtr")
    fn, ex, fin, info = U.run_function(REL, q, ctx=ctx(functional=()), pre=[tm.not_(tm.eq(nflagP, ncfP))])
    r = U.new_unit("C12.cvode.CVHandleNFlag_flags", REL, q, fn)
    consts = _macro_ints(["DO_ERROR_TEST", "PREDICT_AGAIN", "SUCCESS_STEP", "SOLVED", "MXNCF"])
    nflag0 = _read0(ex, fin[0], "I", nflagP)
    nd = nf = na = 0
    for s in live(fin, ("ret",)):
        is_solved = tm.eq(nflag0, tm.num(consts["SOLVED"] if not twin else consts["SOLVED"] - 1, "I"))
        solved = B.z3_prove(list(s.pc), tm.eq(s.ret, tm.num(consts["DO_ERROR_TEST"], "I")))[0] == "proved"
        notsolved = B.z3_prove(list(s.pc), tm.not_(tm.eq(s.ret, tm.num(consts["DO_ERROR_TEST"], "I"))))[0] == "proved"
        if solved or notsolved:
            U.discharge_valid(r, "DO_ERROR_TEST_iff_nonlinear_solve_succeeded#%d" % (nd + nf), list(s.pc), is_solved if solved else tm.not_(is_solved))
        if solved:
            nd += 1
            U.discharge_valid(r, "solved.returns_DO_ERROR_TEST", list(s.pc), tm.eq(s.ret, tm.num(consts["DO_ERROR_TEST"], "I")))
            r.add("solved.nothing_called_nothing_written", DISCHARGED if not s.events and _only_writes(s, []) else FAILED, "symex", 0, "", kind="frame")
        elif notsolved:
            nf += 1
            U.discharge_valid(r, "failed.flag_is_neither_SUCCESS_nor_DO_ERROR_TEST#%d" % nf, list(s.pc), tm.and_(tm.not_(tm.eq(s.ret, tm.num(consts["SUCCESS_STEP"], "I"))), tm.not_(tm.eq(s.ret, tm.num(consts["DO_ERROR_TEST"], "I")))))
            ev = s.events
            r.add("failed.history_restored_first(CVRestore(cv_mem,saved_t))#%d" % nf, DISCHARGED if ev and ev[0].name.endswith("CVRestore") and ev[0].args[0] is cv and ev[0].args[1] is tm.sym("P2_saved_t", "R") else FAILED, "trace", 0, "")
            if B.z3_prove(list(s.pc), tm.eq(s.ret, tm.num(consts["PREDICT_AGAIN"], "I")))[0] == "proved":
                na += 1
                ncf1 = _read(ex, s, "I", ncfP)
                U.discharge_valid(r, "again.failure_counted_and_below_MXNCF", list(s.pc), tm.and_(tm.eq(ncf1, _read0(ex, s, "I", ncfP) + tm.num(1, "I")), tm.not_(tm.eq(ncf1, tm.num(consts["MXNCF"], "I")))))
                U.discharge_valid(r, "again.etamax==1(no_growth_after_a_failure)", list(s.pc), tm.eq(fld(ex, s, "cv_etamax", "R", cv), tm.num(1)))
        else:
            r.add("case_decided", UNDECIDED, "z3", 0, "")
    r.add("reach.solved_failed_again", DISCHARGED if nd and nf and na else UNDECIDED, "symex", 0, "%d/%d/%d" % (nd, nf, na), kind="vacuity")
    r.assumptions += ["the two int* arguments are the addresses of two different locals of CVStep", "CVRestore / CVRescale do not write the counters"]
    return r


def unit_restore(twin=False):
    r = None
    shapes = {}
    for q in ("CVPredict", "CVRestore"):
        fn = A.find_function(REL, q)
        if r is None:
            r = U.new_unit("C12.cvode.CVRestore_undoes_CVPredict", REL, "CVRestore", A.find_function(REL, "CVRestore"))
        loops = [x for x in A.walk(fn) if x.get("kind") == "ForStmt"]
        if len(loops) != 2:
            raise Undecided("%s: expected the two nested sweeps, found %d loops" % (q, len(loops)))
        heads = [tuple(text_of(REL, lp["inner"][k]) if lp["inner"][k] else "" for k in (0, 2, 3)) for lp in loops]
        f, ex, its, info = U.run_loop_isolated(REL, q, 1, ctx=ctx(functional=()))
        body = []
        for s in live(its, ("run", "cont")):
            evs = list(U.iter_events(s))
            body.append([(e.name.split("::")[-1], tuple(e.args)) for e in evs])
        shapes[q] = (heads, body)
    hp, bp = shapes["CVPredict"]; hr, br = shapes["CVRestore"]
    r.add("same_triangular_sweep(loop_heads_equal)", DISCHARGED if hp == hr and not twin else FAILED, "syntactic", 0, "%r / %r" % (hp, hr), kind="structural")
    ok = len(bp) == 1 and len(br) == 1 and len(bp[0]) == 1 and len(br[0]) == 1 and bp[0][0][0] == br[0][0][0] == "N_VLinearSum"
    if ok:
        a, b = bp[0][0][1], br[0][0][1]
        one = lambda t, v: tm.isnum(t) and t.args[0] == v
        ok = one(a[0], 1) and one(b[0], 1) and one(a[2], 1) and one(b[2], -1) and repr(a[1]) == repr(b[1]) and repr(a[3]) == repr(b[3]) and repr(a[4]) == repr(b[4]) and repr(a[1]) == repr(a[4])
        jm1 = "(iter_j - 1)" in repr(a[1]) and "iter_j)" in repr(a[3])
        r.add("predict.zn[j-1]+=zn[j]_and_restore.zn[j-1]-=zn[j]", DISCHARGED if ok and jm1 else FAILED, "trace", 0, "%r / %r" % (a, b))
    else:
        r.add("predict.zn[j-1]+=zn[j]_and_restore.zn[j-1]-=zn[j]", FAILED, "trace", 0, "%r / %r" % (bp, br))
    # the time: predict advances by h, restore returns to the saved time
    for q, want in (("CVPredict", "advance"), ("CVRestore", "saved")):
        fn, ex, fin, info = U.run_function(REL, q, modes={0: "havoc", 1: "havoc"}, ctx=ctx(functional=()))
        cv = tm.sym("P0_cv_mem", "P")
        for s in live(fin, ("ret", "run")):
            tn = fld(ex, s, "cv_tn", "R", cv)
            spec = fld0(ex, s, "cv_tn", "R", cv) + fld0(ex, s, "cv_h", "R", cv) if want == "advance" else tm.sym("P1_saved_t", "R")
            U.discharge_eq_real(r, "%s.tn" % q, list(s.pc), tn, spec)
    r.assumptions += ["the inverse property uses: the sweep of CVRestore visits the same (k, j) pairs in the same order as CVPredict's and subtraction of the same unmodified zn[j] undoes the addition (zn[j] for j > the updated index is already restored when it is used: the order argument of the SUNDIALS documentation, not re-proved)", "N_VLinearSum per C12.nvector.*"]
    return r


def unit_cvode_exit(twin=False):
    """CVode's step loop: integration continues exactly while tout has not been reached ((tn - tout) * h < 0); when it is reached the state
    handed back is the interpolant AT tout (CVodeDky(cv_mem, tout, 0, yout)) and the time reported is tout; after a failed step the state
    handed back is the last accepted one (zn[0]) at its own time tn."""
    q = "CVode"
    fn = A.find_function(REL, q)
    r = U.new_unit("C12.cvode.CVode_returns_the_state_at_tout", REL, q, fn)
    loops = [x for x in A.walk(fn) if x.get("kind") in ("ForStmt", "WhileStmt", "DoStmt")]
    if len(loops) != 1:
        raise Undecided("CVode: expected the one step loop, found %d" % len(loops))
    c = ctx(functional=(), pure_all=False)
    c.pure.update({"CVodeDky", "N_VScale", "CVHandleFailure", "sformatf", "warning_msg", "Phreeqc::sformatf", "Phreeqc::warning_msg"})   # what follows the step does not move tn or *t; CVStep (and the rest) may write anything
    f, ex, its, info = U.run_loop_isolated(REL, q, 0, ctx=c)
    consts = _macro_ints(["SUCCESS_STEP"])
    nd = nc = nfail = 0
    for s in its:
        evs = list(U.iter_events(s))
        names = [e.name.split("::")[-1] for e in evs]
        if "CVStep" not in names:
            continue                                        # exits before a step is attempted (too much work / accuracy): nothing integrated
        cv = local(info, s, "cv_mem"); tout = local(info, s, "tout"); yout = local(info, s, "yout"); tp = local(info, s, "t")
        step = [e for e in evs if e.name.endswith("CVStep")][-1]
        tn = fld(ex, s, "cv_tn", "R", cv); h = fld(ex, s, "cv_h", "R", cv)
        reached = tm.le(tm.num(0), (tn - tout) * h) if not twin else tm.lt(tm.num(0), (tn - tout) * h)
        ok_step = tm.eq(step.result, tm.num(consts["SUCCESS_STEP"], "I"))
        hy = list(s.pc)
        if s.status in ("run", "cont"):
            nc += 1
            U.discharge_valid(r, "continues.only_after_a_successful_step_short_of_tout#%d" % nc, hy, tm.and_(ok_step, tm.not_(reached)))
        elif s.status == "brk":
            dky = [e for e in evs if e.name.endswith("CVodeDky")]
            if dky:
                nd += 1
                U.discharge_valid(r, "interpolates.only_when_tout_reached_after_a_successful_step#%d" % nd, hy, tm.and_(ok_step, reached))
                a = dky[-1].args
                okargs = a[0] is cv and a[1] is tout and tm.isnum(a[2]) and a[2].args[0] == 0 and a[3] is yout
                r.add("interpolates.state_at_tout_into_yout(CVodeDky(cv_mem,tout,0,yout))#%d" % nd, DISCHARGED if okargs else FAILED, "trace", 0, repr(a)[:160])
                U.discharge_eq_real(r, "interpolates.reported_time==tout#%d" % nd, hy, _read(ex, s, "R", tp), tout)
            else:
                one_step = any("ONE_STEP" in repr(p) and p.op != "not" for p in s.pc)
                failed = B.z3_prove(hy, tm.not_(ok_step))[0] == "proved"
                if failed:
                    nfail += 1
                    sc = [e for e in evs if e.name.endswith("N_VScale")]
                    zn0 = None
                    okc = bool(sc) and tm.isnum(sc[-1].args[0]) and sc[-1].args[0].args[0] == 1 and sc[-1].args[2] is yout and "fld:cv_zn" in repr(sc[-1].args[1]) and repr(sc[-1].args[1]).rstrip(")").endswith(", 0")
                    r.add("failed_step.hands_back_last_accepted_state(zn[0])#%d" % nfail, DISCHARGED if okc else FAILED, "trace", 0, repr(sc[-1].args)[:160] if sc else "")
                    U.discharge_eq_real(r, "failed_step.reported_time==tn#%d" % nfail, hy, _read(ex, s, "R", tp), tn)
                elif not one_step:
                    # a successful step in normal mode leaves the loop without interpolation: only allowed if tout was not demanded
                    U.discharge_valid(r, "normal_mode.no_exit_without_interpolation", hy, tm.num(0, "I") == tm.num(1, "I") if False else tm.eq(tm.num(0, "I"), tm.num(1, "I")))
    r.add("reach.interpolate_continue_fail", DISCHARGED if nd and nc and nfail else UNDECIDED, "symex", 0, "%d/%d/%d" % (nd, nc, nfail), kind="vacuity")
    r.assumptions += ["CVStep advances tn by the step it accepts (C12.cvode.step_completed...)", "CVodeDky evaluates the Nordsieck interpolant (C12.cvode.CVodeDky_horner)", "doubles as reals"]
    return r


def unit_dky(twin=False):
    """CVodeDky: Horner evaluation of the interpolating polynomial: s = (t - tn) / h; for j = q .. k: dky = c_j zn[q] (first) resp.
    c_j zn[j] + s dky; c_j = j (j-1) ... (j-k+1); then scaled by h^-k for k > 0; t outside [tn - hu, tn] (with the rounding fuzz) is refused."""
    q = "CVodeDky"
    fn = A.find_function(REL, q)
    r = U.new_unit("C12.cvode.CVodeDky_horner", REL, q, fn)
    f, ex, its, info = U.run_loop_isolated(REL, q, 0, ctx=ctx(functional=()), inner_modes={"*": "iter"})
    n1 = n2 = 0
    for s in live(its, ("run", "cont")):
        cv = local(info, s, "cv_mem"); dky = local(info, s, "dky"); sv = local(info, s, "s")
        evs = list(U.iter_events(s))
        j = tm.sym("iter_j", "I"); qq = fld0(ex, s, "cv_q", "I", cv)
        znd = tm.app("fld:cv_zn", (cv,), "P")
        if len(evs) != 1:
            r.add("term.one_vector_operation_per_order", FAILED, "trace", 0, repr([e.name for e in evs])); continue
        e = evs[0]; nm = e.name.split("::")[-1]
        for hy, first in cases(list(s.pc), tm.eq(j, qq)):
            if first:
                n1 += 1
                ok = nm == "N_VScale" and e.args[2] is dky and B.z3_prove(hy, tm.eq(e.args[1], tm.select(entry_arr(ex, s, ("m", "P")), znd, j)))[0] == "proved"
                r.add("highest_order.dky=c*zn[q]", DISCHARGED if ok and not twin else FAILED, "trace", 0, repr(e.args)[:160])
            else:
                n2 += 1
                ok = nm == "N_VLinearSum" and len(e.args) == 5 and e.args[3] is dky and e.args[4] is dky and e.args[2] is sv and e.args[0] is evs[0].args[0] \
                    and B.z3_prove(hy, tm.eq(e.args[1], tm.select(entry_arr(ex, s, ("m", "P")), znd, j)))[0] == "proved"
                r.add("lower_orders.dky=c*zn[j]+s*dky", DISCHARGED if ok else FAILED, "trace", 0, repr(e.args)[:200])
    # inner product c *= i over i = j .. j-k+1
    inner = info.get("inner_iters", {})
    ni = 0
    for ordn, sts in inner.items():
        for s in live(sts, ("run", "cont")):
            ni += 1
            c1 = local(info, s, "c"); i = tm.sym("iter_i", "I")
            U.discharge_eq_real(r, "coefficient.c*=i", list(s.pc), c1, tm.sym("iter_c", "R") * tm.to_real(i))
    inner_lp = [x for x in A.walk(fn) if x.get("kind") == "ForStmt"][1]
    check_accumulator_init(r, fn, REL, inner_lp, "c", "coefficient", zero=("ONE", "1.0", "1", "RCONST(1.0)"))
    head = tuple(text_of(REL, inner_lp["inner"][k_]) for k_ in (0, 2, 3))
    r.add("coefficient.k_factors_j..j-k+1(loop_head)", DISCHARGED if head in (("i=j", "i>=j-k+1", "i--"), ("i=j;", "i>=j-k+1", "i--"), ("i=j", "i>j-k", "i--"), ("i=j", "i>=j-k+1", "--i")) else FAILED, "syntactic", 0, repr(head), kind="structural")
    r.add("reach.first_lower_inner", DISCHARGED if n1 and n2 and ni else UNDECIDED, "symex", 0, "%d/%d/%d" % (n1, n2, ni), kind="vacuity")
    # s, the range test and the final scaling
    fn2, ex2, fin, info2 = U.run_function(REL, q, modes={0: "havoc", 1: "havoc"}, ctx=ctx(functional=()))
    ns = nb = 0
    for s in live(fin, ("ret",)):
        cv = tm.sym("P0_cvode_mem", "P"); t = tm.sym("P1_t", "R"); k = tm.sym("P2_k", "I")
        tn = fld0(ex2, s, "cv_tn", "R", cv); h = fld0(ex2, s, "cv_h", "R", cv); hu = fld0(ex2, s, "cv_hu", "R", cv)
        L = lambda n: s.locals.get(info2["names"][n])
        if repr(s.ret) in ("E.OKAY", "E.BAD_T"):
            tf = L("tfuzz")
            outside = tm.lt(tm.num(0), (t - (tn - hu - tf)) * (t - (tn + tf)))
            if twin:
                outside = tm.lt(tm.num(0), (t - (tn - hu - tf)) * (t - tn))
            nb += repr(s.ret) == "E.BAD_T"
            U.discharge_valid(r, "%s.iff_t_%s_[tn-hu,tn]_with_fuzz#%d" % (repr(s.ret)[2:], "outside" if repr(s.ret) == "E.BAD_T" else "inside", ns + nb), list(s.pc), outside if repr(s.ret) == "E.BAD_T" else tm.not_(outside))
        if repr(s.ret) != "E.OKAY":
            continue
        ns += 1
        sv = L("s")
        U.discharge_eq_real(r, "s==(t-tn)/h#%d" % ns, list(s.pc), sv, (t - tn) / h)
        sc = [e for e in s.events if e.name.endswith("N_VScale")]
        for hy, zero in cases(list(s.pc), tm.eq(k, tm.num(0, "I"))):
            if zero:
                r.add("value(k==0).not_rescaled#%d" % ns, DISCHARGED if not sc else FAILED, "trace", 0, "")
            else:
                pw = [e for e in s.events if e.name.endswith("RPowerI")]
                ok = len(sc) == 1 and len(pw) == 1 and sc[0].args[0] is pw[0].result and pw[0].args[0] is h and B.z3_prove(hy, tm.eq(pw[0].args[1], tm.neg(k) if hasattr(tm, "neg") else tm.num(0, "I") - k))[0] == "proved"
                r.add("derivative(k>0).scaled_by_h^-k#%d" % ns, DISCHARGED if ok else FAILED, "trace", 0, repr([e.args for e in pw])[:120])
    r.add("reach.okay_and_refused", DISCHARGED if ns and nb else UNDECIDED, "symex", 0, "%d/%d" % (ns, nb), kind="vacuity")
    r.assumptions += ["N_VScale / N_VLinearSum per C12.nvector.*", "Horner's scheme equals the sum of the header comment (algebra not re-proved)", "RPowerI(h, -k) = h^-k"]
    return r


def unit_newton(twin=False):
    """one Newton iteration of the corrector: residual gamma*f - (rl1*zn[1] + acor) handed to lsolve; the correction b is added to acor and
    y = zn[0] + acor; SOLVED is returned only when del * min(1, crate) / tq[4] <= 1 with del the ewt-weighted RMS norm of THIS correction,
    and the error estimate acnrm handed to the local error test is the ewt-weighted norm of the accumulated correction."""
    q = "CVNewtonIteration"
    fn = A.find_function(REL, q)
    r = U.new_unit("C12.cvode.newton_iteration_converged_iff_dcon<=1", REL, q, fn)
    loops = [x for x in A.walk(fn) if x.get("kind") in ("ForStmt", "WhileStmt", "DoStmt")]
    if len(loops) != 1:
        raise Undecided("CVNewtonIteration: expected one loop, found %d" % len(loops))
    f, ex, its, info = U.run_loop_isolated(REL, q, 0, ctx=ctx(functional=()))
    consts = _macro_ints(["SOLVED"])
    nsol = nother = 0
    for s in its:
        evs = list(U.iter_events(s)); names = [e.name.split("::")[-1] for e in evs]
        cv = local(info, s, "cv_mem")
        F0 = lambda n, so="R": fld0(ex, s, n, so, cv)
        zn = lambda j: tm.select(entry_arr(ex, s, ("m", "P")), tm.app("fld:cv_zn", (cv,), "P"), tm.num(j, "I"))
        if len(evs) < 3 or names[:2] != ["N_VLinearSum", "N_VLinearSum"]:
            r.add("residual.two_linear_sums_first", FAILED, "trace", 0, ",".join(names)); continue
        a, b = evs[0].args, evs[1].args
        tv = F0("cv_tempv", "P")
        ok1 = a[0] is F0("cv_rl1") and a[1] is zn(1) and tm.isnum(a[2]) and a[2].args[0] == 1 and a[3] is F0("cv_acor", "P") and a[4] is tv
        ok2 = b[0] is F0("cv_gamma") and b[1] is F0("cv_ftemp", "P") and tm.isnum(b[2]) and b[2].args[0] == (-1 if not twin else 1) and b[3] is tv and b[4] is tv
        r.add("residual==gamma*f-(rl1*zn[1]+acor)", DISCHARGED if ok1 and ok2 else FAILED, "trace", 0, "%r %r" % (a, b))
        ls = [e for e in evs if e.name.split("::")[-1] in ("cv_lsolve", "lsolve")]
        if not (s.status == "ret" and tm.isnum(s.ret) and s.ret.args[0] == consts["SOLVED"]):
            nother += 1
            continue
        nsol += 1
        nrm = [e for e in evs if e.name.endswith("N_VWrmsNorm")]
        ewt = F0("cv_ewt", "P"); acor = F0("cv_acor", "P")
        okn = bool(nrm) and nrm[0].args[0] is tv and nrm[0].args[1] is ewt
        r.add("solved.del_is_the_ewt_weighted_norm_of_this_correction#%d" % nsol, DISCHARGED if okn else FAILED, "trace", 0, repr(nrm[0].args)[:120] if nrm else "")
        if not okn:
            continue
        dl = nrm[0].result
        crate = fld(ex, s, "cv_crate", "R", cv)
        tq4 = _read0(ex, s, "R", tm.app("fld:cv_tq", (cv,), "P"), 4)
        dcon = dl * tm.ite(tm.lt(crate, tm.num(1)), crate, tm.num(1)) / tq4
        U.discharge_valid(r, "solved.only_if_del*min(1,crate)/tq[4]<=1#%d" % nsol, list(s.pc), tm.le(dcon, tm.num(1)))
        sums = [e for e in evs[2:] if e.name.endswith("N_VLinearSum")]
        one = lambda t: tm.isnum(t) and t.args[0] == 1
        oka = len(sums) >= 2 and one(sums[0].args[0]) and sums[0].args[1] is acor and one(sums[0].args[2]) and sums[0].args[3] is tv and sums[0].args[4] is acor
        oky = len(sums) >= 2 and one(sums[1].args[0]) and sums[1].args[1] is zn(0) and one(sums[1].args[2]) and sums[1].args[3] is acor and sums[1].args[4] is F0("cv_y", "P")
        r.add("solved.acor+=correction_and_y==zn[0]+acor#%d" % nsol, DISCHARGED if oka and oky else FAILED, "trace", 0, repr([e.args for e in sums])[:200])
        an = fld(ex, s, "cv_acnrm", "R", cv)
        m0 = local(info, s, "m") if "m" in info["names"] else None
        for hy, first in cases(list(s.pc), tm.eq(tm.sym("iter_m", "I"), tm.num(0, "I"))):
            if first:
                U.discharge_eq_real(r, "solved.first_iteration.acnrm==del#%d" % nsol, hy, an, dl)
            else:
                ok = len(nrm) == 2 and nrm[1].args[0] is acor and nrm[1].args[1] is ewt
                if ok:
                    U.discharge_eq_real(r, "solved.later_iteration.acnrm==ewt_weighted_norm_of_acor#%d" % nsol, hy, an, nrm[1].result)
                else:
                    r.add("solved.later_iteration.acnrm==ewt_weighted_norm_of_acor#%d" % nsol, FAILED, "trace", 0, repr([e.args for e in nrm])[:160])
    r.add("reach.solved_and_other", DISCHARGED if nsol and nother else UNDECIDED, "symex", 0, "%d/%d" % (nsol, nother), kind="vacuity")
    r.assumptions += ["lsolve (dense solve) overwrites b = tempv with the correction", "N_VWrmsNorm per C12.nvector.*", "crate update max(CRDOWN*crate, del/delp) is read from the final state, not pinned", "doubles as reals"]
    return r


def unit_rescale_complete(twin=False):
    """CVRescale: zn[j] *= eta^j for j = 1..q and h = hscale * eta (hscale follows);  CVCompleteStep: zn[j] += l[j] * acor for j = 0..q,
    the step counter advances by one and hu, qu record the step just taken."""
    r = U.new_unit("C12.cvode.rescale_and_complete_step", REL, "CVRescale", A.find_function(REL, "CVRescale"))
    # CVRescale
    q = "CVRescale"
    fn = A.find_function(REL, q)
    f, ex, its, info = U.run_loop_isolated(REL, q, 0, ctx=ctx(functional=()))
    n = 0
    for s in live(its, ("run", "cont")):
        n += 1
        cv = local(info, s, "cv_mem"); j = tm.sym("iter_j", "I")
        evs = list(U.iter_events(s))
        znj = tm.select(entry_arr(ex, s, ("m", "P")), tm.app("fld:cv_zn", (cv,), "P"), j)
        fac0 = tm.sym("iter_factor", "R")
        ok = len(evs) == 1 and evs[0].name.endswith("N_VScale") and evs[0].args[0] is fac0 and evs[0].args[1] is znj and evs[0].args[2] is znj
        r.add("rescale.zn[j]*=factor", DISCHARGED if ok else FAILED, "trace", 0, repr(evs[0].args)[:160] if evs else "")
        U.discharge_eq_real(r, "rescale.factor*=eta", list(s.pc), local(info, s, "factor"), fac0 * (fld0(ex, s, "cv_eta", "R", cv) if not twin else tm.num(1)))
    fn_ = A.find_function(REL, q)
    lp = [x for x in A.walk(fn_) if x.get("kind") == "ForStmt"][0]
    check_accumulator_init(r, fn_, REL, lp, "factor", "rescale", zero=("eta", "cv_mem->cv_eta"))
    fnr, exr, fin, infor = U.run_function(REL, q, modes={0: "havoc"}, ctx=ctx(functional=()))
    cvp = tm.sym("P0_cv_mem", "P")
    for s in live(fin, ("ret", "run")):
        # the loop is havocked: h and hscale are not written by it (N_VScale is a vector kernel)
        hs0 = fld0(exr, s, "cv_hscale", "R", cvp); eta = fld0(exr, s, "cv_eta", "R", cvp)
        w_h = writes(s, ("f", "cv_h", "R")); w_hs = writes(s, ("f", "cv_hscale", "R"))
        ok = len(w_h) == 1 and len(w_hs) == 1
        r.add("rescale.h_and_hscale_written_once", DISCHARGED if ok else FAILED, "symex", 0, "%r %r" % (w_h, w_hs))
        if ok:
            r.add("rescale.h==hscale*eta(text)", DISCHARGED if "h=hscale*eta;hscale=h;" in text_of(REL, fn_).replace("cv_mem->cv_", "") else FAILED, "syntactic", 0, "", kind="post")
    # CVCompleteStep
    q2 = "CVCompleteStep"
    fn2 = A.find_function(REL, q2)
    lps = [x for x in A.walk(fn2) if x.get("kind") == "ForStmt"]
    k = [i for i, lp in enumerate(lps) if "N_VLinearSum" in text_of(REL, lp)]
    if len(k) != 1:
        raise Undecided("correction loop of CVCompleteStep not found")
    f2, ex2, its2, info2 = U.run_loop_isolated(REL, q2, k[0], ctx=ctx(functional=()))
    head = tuple(text_of(REL, lps[k[0]]["inner"][i_]) for i_ in (0, 2, 3))
    r.add("complete.every_column_0..q_corrected(loop_head)", DISCHARGED if head[0].rstrip(";") == "j=0" and head[1] in ("j<=q", "j<q+1") and head[2] in ("j++", "++j") else FAILED, "syntactic", 0, repr(head), kind="structural")
    r.head_exempt = {(q2, k[0]): "the Nordsieck array has q+1 columns 0..q; the head is stated by complete.every_column_0..q_corrected"}
    n2 = 0
    for s in live(its2, ("run", "cont")):
        n2 += 1
        cv = local(info2, s, "cv_mem"); j = tm.sym("iter_j", "I")
        evs = list(U.iter_events(s))
        znj = tm.select(entry_arr(ex2, s, ("m", "P")), tm.app("fld:cv_zn", (cv,), "P"), j)
        lj = tm.select(entry_arr(ex2, s, ("m", "R")), tm.app("fld:cv_l", (cv,), "P"), j)
        a = evs[0].args if evs else ()
        ok = len(evs) == 1 and evs[0].name.endswith("N_VLinearSum") and a[0] is lj and a[1] is fld0(ex2, s, "cv_acor", "P", cv) and tm.isnum(a[2]) and a[2].args[0] == 1 and a[3] is znj and a[4] is znj
        r.add("complete.zn[j]+=l[j]*acor", DISCHARGED if ok else FAILED, "trace", 0, repr(a)[:200])
    fnc, exc, finc, infoc = U.run_function(REL, q2, modes={i: "havoc" for i in range(len(lps))}, ctx=ctx(functional=()))
    for s in live(finc, ("ret", "run"))[:1]:
        t2 = text_of(REL, fn2).replace("cv_mem->cv_", "")
        r.add("complete.records_hu=h_and_qu=q(text)", DISCHARGED if "hu=h;" in t2 and "qu=q;" in t2 and t2.count("nst++;") == 1 else FAILED, "syntactic", 0, "", kind="post")
    r.add("reach.iterations", DISCHARGED if n and n2 else UNDECIDED, "symex", 0, "%d/%d" % (n, n2), kind="vacuity")
    r.assumptions += ["loop bounds j = 1..q / 0..q are checked by the automatic loop-head obligations", "N_VScale / N_VLinearSum per C12.nvector.*", "the macro names h, hscale, eta stand for cv_mem->cv_h ... (cvode.cpp's member macros); two facts are read from the statement text"]
    return r
