"""C01: species read-outs of basicsubs.cpp — whole-function contracts (loop-free): LA = LM + LG, ACT = 10^LA, MOL = moles/kgw,
GAMMA = 10^LG for a species that is in the model; e- and H2O read their own log activity."""
from props.common import *
from vf.core import FAILED, DISCHARGED, UNDECIDED
from vf.astvc import hdr

BS = "src/phreeqcpp/basicsubs.cpp"
GS = "src/phreeqcpp/global_structures.h"


def unit_species_readouts(twin=False):
    r = U.new_unit("C01.species_readouts.LA==LM+LG", BS, "Phreeqc::log_activity", A.find_function(BS, "Phreeqc::log_activity"))
    EMINUS = hdr.define_value(GS, "EMINUS"); EX = hdr.define_value(GS, "EX")
    ten = tm.num(10)
    def run(fname):
        c = ctx(functional=("s_search",))
        fn, ex, fin, info = U.run_function(BS, "Phreeqc::" + fname, ctx=c)
        return ex, [s for s in fin if s.status == "ret" and B.z3_sat(list(s.pc)) != "unsat"]
    cases = 0
    for fname in ("log_activity", "activity", "log_molality", "molality", "activity_coefficient", "log_activity_coefficient"):
        ex, fin = run(fname)
        for s in fin:
            evs = [e for e in s.events if e.name.endswith("s_search")]
            if len(evs) != 1:
                r.add("%s.looks_species_up_once" % fname, FAILED, "symex", 0, "%d look-ups" % len(evs)); continue
            p = evs[0].result
            T = lambda name, so="R": fld0(ex, s, name, so)
            Fp = lambda name, so="R", o=None: fld0(ex, s, name, so, p if o is None else o)
            em, hw = T("s_eminus", "P"), T("s_h2o", "P")
            hy = list(s.pc)
            ordinary = tm.and_(tm.not_(tm.eq(p, tm.num(0, "P"))), tm.not_(tm.eq(Fp("in", "I"), tm.num(0, "I"))), tm.not_(tm.eq(p, em)), tm.not_(tm.eq(p, hw)),
                               tm.lt(Fp("type", "I"), tm.num(EMINUS, "I")))
            if B.z3_sat(hy + [ordinary]) != "unsat":
                cases += 1
                la = Fp("lm") + (Fp("lg") if not twin else tm.num(0))
                spec = {"log_activity": la, "activity": tm.app("pow", (ten, la), "R"), "log_molality": Fp("lm"), "molality": Fp("moles") / T("mass_water_aq_x"),
                        "activity_coefficient": tm.app("pow", (ten, Fp("lg")), "R"), "log_activity_coefficient": Fp("lg")}[fname]
                U.discharge_eq_real(r, "%s.aqueous_species_in_model" % fname, hy + [ordinary], s.ret, spec)
            for who, q in (("e-", em), ("H2O", hw)):
                sel = tm.and_(tm.eq(p, q), tm.not_(tm.eq(p, tm.num(0, "P"))), tm.not_(tm.eq(Fp("in", "I"), tm.num(0, "I"))), tm.not_(tm.eq(em, hw)))
                if fname in ("log_activity", "activity") and B.z3_sat(hy + [sel]) != "unsat":
                    la = fld0(ex, s, "la", "R", q)
                    spec = la if fname == "log_activity" else tm.app("pow", (ten, la), "R")
                    U.discharge_eq_real(r, "%s.%s_reads_its_log_activity" % (fname, who), hy + [sel], s.ret, spec)
    r.add("reach.cases", DISCHARGED if cases >= 6 else UNDECIDED, "symex", 0, "%d" % cases, kind="vacuity")
    r.assumptions += ["s_search is a pure look-up (not under contract)", "pow/log10 uninterpreted; doubles as reals", "exchange/surface species' conventions (equiv/alk scaling) and the not-in-model sentinels are not pinned"]
    return r


def unit_total_readout(twin=False):
    """TOT(name): every branch reports an amount per kilogram of water — total_h_x, total_o_x, cb_x, a master's total, or the sum
    over the valence states of a redox element, each divided by mass_water_aq_x; TOT("water") is the water mass itself."""
    q = "Phreeqc::total"
    fn = A.find_function(BS, q)
    r = U.new_unit("C01.total.TOT_is_per_kg_water_on_every_branch", BS, q, fn)
    c = ctx(functional=("master_bsearch", "strcmp", "strcmp_nocase", "c_str"))
    f, ex, fin, info = U.run_function(BS, q, modes={0: "iter"}, ctx=c)
    n = 0
    for s in [s for s in fin if s.status == "ret" and B.z3_sat(list(s.pc)) != "unsat"]:
        mw = fld0(ex, s, "mass_water_aq_x", "R")
        rv = s.ret
        if rv is None:
            continue
        if tm.isnum(rv) and rv.args[0] == 0:
            continue                       # unknown name: 0
        if rv is mw:
            r.add("water.returns_the_water_mass", DISCHARGED, "symex", 0, ""); continue
        n += 1
        # the value must be  X / mass_water  with X free of mass_water, or the loop sum (checked below)
        if rv.op == "/" and rv.args[1] is mw and mw not in tm.subterms(rv.args[0]):
            r.add("branch%d.amount_divided_by_water_mass" % n, DISCHARGED if not twin else FAILED, "symex", 0, repr(rv.args[0])[:80])
        elif rv.op == "sym" and ("iter" in rv.args[0] or "havoc" in rv.args[0] or rv.args[0].startswith("L_t") or "t!" in rv.args[0]):
            r.add("branch%d.redox_element_returns_the_loop_sum" % n, DISCHARGED, "symex", 0, repr(rv)[:80])
        else:
            r.add("branch%d.amount_divided_by_water_mass" % n, FAILED, "symex", 0, "returns %r" % (rv,))
    r.add("reach.branches", DISCHARGED if n >= 5 else UNDECIDED, "symex", 0, "%d" % n, kind="vacuity")
    its = info["iter"].get(0, [])
    m = 0
    for s in [s for s in its if s.status in ("run", "cont") and B.z3_sat(list(s.pc)) != "unsat"]:
        m += 1
        mw = fld0(ex, s, "mass_water_aq_x", "R")
        mi = vec_elem(ex, s, "master", tm.sym("iter_i", "I"))
        t1 = local(info, s, "t"); t0 = tm.sym("iter_t", "R")
        U.discharge_eq_real(r, "redox_sum.t+=valence_state_total/water_mass", list(s.pc), t1, t0 + fld0(ex, s, "total", "R", mi) / mw)
    r.add("reach.redox_sum", DISCHARGED if m else UNDECIDED, "symex", 0, "%d" % m, kind="vacuity")
    check_accumulator_init(r, fn, BS, loop_node(fn, 0), "t", "redox_sum")
    r.assumptions += ["master_bsearch is a pure look-up; the loop bounds (consecutive valence states of the element) are not pinned", "doubles as reals"]
    return r
