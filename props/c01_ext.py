"""C01, extension units (helper-written): rewriting of reactions to master species, the mole-balance sums, the convergence test,
log K read-outs and the selected-output read-outs.  Engine B (astvc)."""
from props.common import *
from props.c01_ext_util import *
from vf import core
from vf.core import FAILED, DISCHARGED, UNDECIDED

TIDY = "src/phreeqcpp/tidy.cpp"
PREP = "src/phreeqcpp/prep.cpp"
MODEL = "src/phreeqcpp/model.cpp"
STRUCT = "src/phreeqcpp/structures.cpp"

UNITS = []

from props import c01_ext_rewrite as _RW
UNITS += _RW.UNITS
from props import c01_ext_sums as _SM
UNITS += _SM.UNITS
from props import c01_ext_conv as _CV
UNITS += _CV.UNITS
from props import c01_ext_logk as _LK
UNITS += _LK.UNITS
from props import c01_ext_readouts as _RO
UNITS += _RO.UNITS
from props import c01_ext_punch as _PU
UNITS += _PU.UNITS
from props.c01_ext2 import UNITS as _U2; UNITS = UNITS + _U2
