"""C14: cxxNumKeyword::read_number_description - the header of every numbered definition ("SOLUTION 5", "EXCHANGE 2-4 text"): one number n
defines the range n-n, two numbers n-m the range n-m (never an end below the start), no number means 1-1; the rest of the line is the
description."""
from props.common import *
from vf.core import FAILED, DISCHARGED, UNDECIDED

NK = "src/phreeqcpp/NumKeyword.cxx"


def unit_number_description(twin=False):
    q = "cxxNumKeyword::read_number_description"
    c = ctx(functional=("copy_token",))
    def sscanf(ex_, st, n, name, recv, args):
        # sscanf(text, "%d%d", p0, p1): j conversions (0, 1 or 2) store the first j values
        out = []
        for j in (0, 1, 2):
            s2 = st.clone()
            vals = []
            for k, p in enumerate(args[2:2 + j]):
                v = tm.sym("scanned%d" % k, "I")
                if p.op == "app" and str(p.args[0]).startswith("fld:"):
                    ex_.store(s2, ("field", str(p.args[0])[4:], p.args[1][0] if isinstance(p.args[1], tuple) else p.args[1]), v, "I")    # &this->member
                else:
                    ex_.store(s2, ("elem", p, tm.num(0, "I")), v, "I")
                vals.append(v)
            res = tm.num(j, "I")
            s2.events.append(SX.Event(name, recv, list(args), res, n))
            out.append((s2, res))
        return out
    c.handlers["sscanf"] = sscanf
    KW = {"type_contains": "std::string"}
    fn0 = A.find_function(NK, q, **KW)
    blk = [x for x in A.body_of(fn0)["inner"] if x.get("kind") == "IfStmt" and "sscanf(" in text_of(NK, x)]
    if len(blk) != 1:
        raise Undecided("number-reading statement of read_number_description not found")
    fn, ex, fin, info = U.run_region(NK, q, Sel(blk), ctx=c, find_kw=KW)
    r = U.new_unit("C14.read_number_description.one_number_is_the_range_n-n", NK, q, fn0)
    seen = set()
    for s in live(fin, ("ret", "run")):
        nu = fld(ex, s, "n_user", "I"); ne = fld(ex, s, "n_user_end", "I")
        sc = [e for e in s.events if e.name.endswith("sscanf")]
        a, b = tm.sym("scanned0", "I"), tm.sym("scanned1", "I")
        hy = list(s.pc)
        if not sc:
            seen.add("no_number")
            U.discharge_valid(r, "no_number.range_1-1", hy, tm.and_(tm.eq(nu, tm.num(1, "I")), tm.eq(ne, tm.num(1, "I"))))
            continue
        j = int(sc[0].result.args[0])
        seen.add("j%d" % j)
        if j == 0:
            U.discharge_valid(r, "unreadable_number.range_1-1", hy, tm.and_(tm.eq(nu, tm.num(1, "I")), tm.eq(ne, tm.num(1, "I"))))
        elif j == 1:
            U.discharge_valid(r, "one_number.start==n", hy, tm.eq(nu, a))
            U.discharge_valid(r, "one_number.end==n", hy, tm.eq(ne, a) if not twin else tm.eq(ne, tm.num(1, "I")))
        else:
            U.discharge_valid(r, "two_numbers.start==n", hy, tm.eq(nu, a))
            U.discharge_valid(r, "two_numbers.end==max(n,m)", hy, tm.eq(ne, tm.ite(tm.lt(b, a), a, b)))
    r.add("reach.cases", DISCHARGED if seen >= {"no_number", "j0", "j1", "j2"} else UNDECIDED, "symex", 0, repr(sorted(seen)), kind="vacuity")
    r.assumptions += ["sscanf stores the values it converts, in order, and returns their count; an argument it does not reach keeps its old value",
                      "the '-' of a range is turned into a blank before the scan (text surgery not under this contract)"]
    return r
