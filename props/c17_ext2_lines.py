"""C17 extension 2: the program store (PBasic::parseinput) and the inverse of the tokenizer (PBasic::listtokens)."""
from props.c17_ext_model import *
from props.c17_ext_loops import pv
from props.c17_ext2_parse import thrower, assigned_names, summarize_by, exit_value, equivalent, OPERATORS

QI = "PBasic::parseinput"
QL = "PBasic::listtokens"


def ictx():
    c = mkctx()
    c.functional.update({"strlen", "isdigit"})
    c.handlers["Phreeqc::malloc_error"] = thrower
    c.handlers["exit"] = thrower
    return c


def cond_of(q, ordinal, c):
    fn = A.find_function(PB, q)
    node = loops_of(fn)[ordinal]
    c.loop = lambda ex, st, n, o: ex.havoc_loop(n, st)
    ex, st, names = arbitrary_state(fn, c)
    init, cond, inc, body = ex.loop_parts(node)
    outs = ex.ev(cond, st)
    return tm.or_(*[tm.and_(*(list(s.pc) + [tm.to_bool(v)])) for s, v in outs]) if len(outs) > 1 else tm.and_(*(list(outs[0][0].pc) + [tm.to_bool(outs[0][1])]))


def unit_parseinput(twin=False):
    """One input line: leading digits are its line number (decimal, most significant first) and are taken off the text, the rest is
    tokenized once.  No number: an immediate command, the stored program is not touched.  With a number n the program is searched from
    its first line for the first line whose number is not smaller; a line with the SAME number is unlinked and released; if the text
    has tokens a new line (number n, those tokens) is linked exactly there (so the program stays in ascending order, each number once),
    if the text is empty nothing is inserted (the line is deleted).  Changing the program resets the loop stack and the DATA pointer."""
    fn = A.find_function(PB, QI)
    r = U.new_unit("C17.parseinput.numbered_line_is_stored_in_ascending_order_replacing_or_deleting_its_number", PB, QI, fn)
    lps = loops_of(fn)
    LP = {}
    for k, l in enumerate(lps):
        a = assigned_names(l)
        if a == {"l", "l0"}:
            LP["search"] = k
        elif any(e.get("kind") == "CallExpr" and "memmove" in text_of(PB, e) for e in A.walk(l)):
            LP["number"] = k
    if set(LP) != {"search", "number"}:
        raise Undecided("parseinput: number loop / search loop not identified")
    IB = F0("inbuf", "P", THIS)
    LBUF = tm.sym("P0_l_buf", "P")
    n = {"immediate": 0, "insert": 0, "delete": 0, "replace": 0, "digit": 0, "step": 0}
    # ---- whole function, loops summarised by their contracts
    snaps = {}
    c = ictx()
    def h_parse(ex_, st, n_, name, recv, args):
        e_ = SX.Event(name, recv, list(args) + [F(ex_, st, "curline", "I", THIS)], ZI, n_)
        st.events.append(e_)
        # parse writes the token list head *l_buf (and allocates tokens / variables); the program store is not touched
        key = ("m", "P")
        st.heap[key] = tm.store(ex_.heap_arr(st, key), (args[1], ZI), fresh("token_list", "P"))
        return [(st, ZI)]
    c.handlers["PBasic::parse"] = h_parse
    f, ex, fin, info = run_fn(QI, c, loop=summarize_by({LP["number"]: [("f", "curline", "I")]}, snaps))
    for s in alive(snaps.get(LP["number"], [])):
        pv(r, "number.starts_at_zero", s, tm.eq(F(ex, s, "curline", "I", THIS), ZI))
    for s in alive(snaps.get(LP["search"], [])):
        pv(r, "search.starts_at_the_first_line_with_no_predecessor", s, tm.and_(tm.eq(local(info, s, "l"), F(ex, s, "linebase", "P", THIS)), tm.eq(local(info, s, "l0"), NULLP)))
    for s in alive(fin, ("run", "ret")):
        if any(e.name.endswith("malloc_error") for e in s.events):
            continue
        pe = evs(s, "parse")
        if not ok(r, "text.tokenized_exactly_once_from_the_line_buffer_behind_its_number", len(pe) == 1 and pe[0].args[0] is IB and pe[0].args[1] is LBUF and s.events.index(pe[0]) > max([i for i, e in enumerate(s.events) if e.name == "loop_exit"][:1] or [-1]), "%s" % pe):
            continue
        cur = pe[0].args[2]
        toks = tm.select(ex.heap_arr(s, ("m", "P")), LBUF, ZI)
        hy = hyp(s)
        cl, rd = evs(s, "clearloops"), evs(s, "restoredata")
        lb0 = F0("linebase", "P", THIS)
        if not [e for e in s.events if e.name == "loop_exit" and e.args[0] is tm.num(LP["search"], "I")]:
            n["immediate"] += 1
            U.discharge_valid(r, "immediate.only_a_line_without_a_number_skips_the_store", hy, tm.eq(cur, ZI))
            # (loop records left by an earlier un-numbered line point into its released tokens: dropping them here is what C08 demands; nothing else of the interpreter state changes)
            ok(r, "immediate.program_store_and_DATA_pointer_untouched(only_stale_loop_records_may_be_dropped)", len(cl) <= 1 and not rd and not evs(s, "PHRQ_free") and not evs(s, "disposetokens") and not [k for k in s.heap if k[0] == "f" and k[1] in ("linebase", "next", "num", "txt") and writes(s, k)], "", kind="frame")
            continue
        U.discharge_valid(r, "stored.only_a_line_with_a_number", hy, tm.not_(tm.eq(cur, ZI)))
        l, l0 = exit_value(s, LP["search"], "l"), exit_value(s, LP["search"], "l0")
        nx0 = arr0(("f", "next", "P"))
        num0 = arr0(("f", "num", "I"))
        inv = [tm.ite(tm.eq(l0, NULLP), tm.eq(l, lb0), tm.eq(tm.select(nx0, l0), l))]
        hy = hy + inv
        same = tm.and_(tm.not_(tm.eq(l, NULLP)), tm.eq(tm.select(num0, l), cur))
        succ = tm.ite(same, tm.select(nx0, l) if not twin else l, l)
        U.discharge_valid(r, "search.stopped_at_the_first_line_whose_number_is_not_smaller", hy, tm.or_(tm.eq(l, NULLP), tm.le(cur, tm.select(num0, l))))
        al = evs(s, "PHRQ_calloc")
        fr = evs(s, "PHRQ_free")
        dt = evs(s, "disposetokens")
        for hy2, sm in cases(hy, same):
            if sm:
                n["replace"] += 1
                ok(r, "replace.old_line_of_the_same_number_is_released_with_its_tokens", len(fr) == 1 and fr[0].args[0] is l and len(dt) == 1 and dt[0].args[0] is tm.app("fld:txt", (l,), "P"), "%s %s" % (fr, dt))
            else:
                ok(r, "replace.no_line_is_released_when_the_number_is_new", not fr and not dt, "")
        link = tm.ite(tm.eq(l0, NULLP), F(ex, s, "linebase", "P", THIS), F(ex, s, "next", "P", l0))
        for hy2, has in cases(hy, tm.not_(tm.eq(toks, NULLP))):
            if has:
                n["insert"] += 1
                if not ok(r, "insert.one_new_line_record", len(al) == 1, "%d" % len(al)):
                    continue
                l1 = al[0].result
                hy3 = hy2 + sep_hyps(hy2 + [l1, l, l0, tm.select(nx0, l)])
                U.discharge_valid(r, "insert.new_line_carries_the_number_and_the_tokens_of_this_text", hy3, tm.and_(tm.eq(F(ex, s, "num", "I", l1), cur), tm.eq(F(ex, s, "txt", "P", l1), toks)))
                U.discharge_valid(r, "insert.linked_behind_the_last_smaller_line(or_as_first_line)", hy3, tm.eq(link, l1))
                U.discharge_valid(r, "insert.followed_by_the_first_larger_line(the_line_of_the_same_number_is_gone)", hy3, tm.eq(F(ex, s, "next", "P", l1), succ))
            else:
                n["delete"] += 1
                ok(r, "delete.empty_text_inserts_nothing", not al, "")
                U.discharge_valid(r, "delete.predecessor_is_linked_to_the_first_larger_line", hy2, tm.eq(link, succ))
        ok(r, "stored.loop_stack_and_DATA_pointer_are_reset_once", len(cl) == 1 and len(rd) == 1, "%d %d" % (len(cl), len(rd)))
        wr = set()
        for k in s.heap:
            if k[0] == "f" and k[1] in ("linebase", "next") and writes(s, k):
                for ix, v in writes(s, k):
                    wr.add((k[1], ix[0]))
        ok(r, "stored.only_the_predecessor's_link_and_the_new_line_are_linked", all((kk == "linebase" and o is THIS) or (kk == "next" and (o is l0 or (al and o is al[0].result))) for kk, o in wr), "%s" % sorted(map(repr, wr)), kind="frame")
    # ---- one digit of the line number
    c2 = ictx()
    cond = cond_of(QI, LP["number"], ictx())
    c0 = tm.select(arr0(("m", "I")), IB, ZI)
    spec_c = tm.and_(tm.not_(tm.eq(c0, ZI)), tm.not_(tm.eq(tm.app("call:isdigit", (tm.NULL, c0), "I"), ZI)))
    ok(r, "number.goes_on_exactly_while_the_text_starts_with_a_digit", equivalent(cond, spec_c), repr(cond)[:200])
    f2, ex2, its, info2 = run_iter(QI, LP["number"], c2)
    for s in alive(its, ("run", "cont")):
        n["digit"] += 1
        cur0 = tm.select(entry_arr(ex2, s, ("f", "curline", "I")), THIS)
        ib = tm.select(entry_arr(ex2, s, ("f", "inbuf", "P")), THIS)
        d = tm.select(entry_arr(ex2, s, ("m", "I")), ib, ZI)
        U.discharge_valid(r, "number.next_decimal_digit_is_appended", hyp(s), tm.eq(F(ex2, s, "curline", "I", THIS), cur0 * 10 + (d - 48)))
        mv = evs(s, "memmove")
        ok(r, "number.the_digit_is_taken_off_the_text(rest_and_terminator_moved_to_the_front)", len(mv) == 1 and mv[0].args[0] is ib and prove(hyp(s), tm.eq(mv[0].args[1], ib + 1)) and mv[0].args[2] is tm.app("call:strlen", (tm.NULL, ib), "I"), "%s" % mv)
    # ---- one step of the search
    cond = cond_of(QI, LP["search"], ictx())
    L_ = tm.sym("L_l", "P")
    spec_c = tm.and_(tm.not_(tm.eq(L_, NULLP)), tm.lt(F0("num", "I", L_), F0("curline", "I", THIS)))
    ok(r, "search.goes_on_exactly_while_the_line_at_hand_has_a_smaller_number", equivalent(cond, spec_c), repr(cond)[:200])
    f3, ex3, its3, info3 = run_iter(QI, LP["search"], ictx())
    l_ = tm.sym("iter_l", "P")
    for s in alive(its3, ("run", "cont")):
        n["step"] += 1
        nl = tm.select(entry_arr(ex3, s, ("f", "next", "P")), l_)
        ok(r, "search.steps_to_the_next_line_remembering_the_predecessor;writes_nothing", local(info3, s, "l") is nl and local(info3, s, "l0") is l_ and not U.iter_writes(s), "")
    reach(r, "reach.parseinput(immediate,insert,delete,replace,digit,search_step)", min(n.values()))
    r.assumptions += ["parse(inbuf, l_buf) tokenizes the text into *l_buf (units C17.parse.*) and does not touch the program store", "the search loop is summarised by its invariant `l0 is the predecessor of l (none: l is the first line)` which entry and step establish",
                      "the number loop is summarised by `curline arbitrary`; replace / string_trim only edit blanks", "allocation failure ends the run", "ascending order of the stored program is the invariant the search relies on and this insertion preserves"]
    return r


# ------------------------------------------------------------------------------------------------------------------ listtokens
def command_table():
    """(word, token) pairs of the initialiser of temp_tokens[] (the content of command_tokens), read from the source text of the table"""
    txt = src(PB).decode("latin1")
    k = txt.find("temp_tokens[]")
    if k < 0:
        raise Undecided("temp_tokens[] not found")
    body = txt[k:]
    body = body[:body.find("};")]
    body = re.sub(r"/\*.*?\*/", "", body, flags=re.S)
    body = re.sub(r"//[^\n]*", "", body)
    pairs = re.findall(r'value_type\(\s*"([^"]*)"\s*,\s*PBasic::(tok\w+)\s*\)', body)
    if len(pairs) < 150 or len(pairs) != body.count("value_type("):
        raise Undecided("temp_tokens[]: initialiser not understood (%d pairs, %d entries)" % (len(pairs), body.count("value_type(")))
    return pairs


def synonym_classes():
    """tokens that the evaluator (factor) or the statement dispatcher (exec) handle in ONE case body (`case tokA: case tokB: ...`): they are
    the same function under two spellings; returns token -> frozenset of its class (only classes with more than one member)"""
    out = {}
    for q in ("PBasic::factor", "PBasic::exec"):
        fn = A.find_function(PB, q)
        for sw in [x for x in A.walk(fn) if x.get("kind") == "SwitchStmt"]:
            for c in sw["inner"][-1].get("inner", []):
                labels = []
                cc = c
                while cc.get("kind") == "CaseStmt":
                    labels += [y.get("referencedDecl", {}).get("name") for y in A.walk(cc["inner"][0]) if y.get("kind") == "DeclRefExpr"]
                    cc = cc["inner"][-1]
                labels = [l for l in labels if l and l.startswith("tok")]
                if len(labels) > 1:
                    fs = frozenset(labels)
                    for l in labels:
                        out[l] = fs
    return out


def dispatched_tokens():
    """tokens that have a case in factor or exec in this build (a token without one is an error wherever it is executed)"""
    out = set()
    for q in ("PBasic::factor", "PBasic::exec"):
        fn = A.find_function(PB, q)
        for x in A.walk(fn):
            if x.get("kind") == "CaseStmt":
                out.update(y.get("referencedDecl", {}).get("name") for y in A.walk(x["inner"][0]) if y.get("kind") == "DeclRefExpr")
    return out


WORD = re.compile(r"^[a-z][a-z0-9_$]*$")
INV_OP = {"tokplus": "+", "tokminus": "-", "toktimes": "*", "tokdiv": "/", "tokup": "^", "toklp": "(", "tokrp": ")", "tokcomma": ",", "toksemi": ";", "tokcolon": ":",
          "tokeq": "=", "toklt": "<", "tokgt": ">", "tokle": "<=", "tokge": ">=", "tokne": "<>"}
DATA_TOKENS = ("tokvar", "toknum", "tokstr", "toksnerr", "tokrem")


def _wordchar(ch):
    return ch.isalnum() or ch in "$_."


def unit_listtokens(twin=False):
    """LIST prints a token list so that tokenizing the printed text gives the same tokens: for EVERY token of BASIC_TOKEN (the loop body
    is executed once per kind) - a keyword prints a word that command_tokens (lower-cased, as parse looks it up) maps back to the SAME
    token; an operator prints the characters parse turns into that token; a variable prints its name, a number its value, a string its
    text between quotes that do not occur in it, REM its text; two adjacent words are separated by a blank; conversely every word of
    command_tokens that parse can produce has a token that is printed that way.  Every token of the list is printed, in order.
    LIST delivers no PUNCH / SAVE / PRINT value, so two things the unchanged tree does are RECORDED as notes and not demanded: a case
    that falls through into the next one (SI, SUM_SPECIES) and keywords printed without a separating blank (ACT .. T_SC)."""
    fn = A.find_function(PB, QL)
    r = U.new_unit("C17.listtokens.prints_for_every_token_a_text_that_parse_maps_back_to_it", PB, QL, fn)
    lps = loops_of(fn)
    if len(lps) != 1:
        raise Undecided("listtokens: expected one loop over the token list")
    T = tokens()
    names = {v: k for k, v in T.items()}
    pairs = command_table()
    table = {}
    dup = []
    for w, t in pairs:
        if w in table and table[w] != t:
            dup.append(w)
        table[w] = t
    ok(r, "table.no_word_is_mapped_to_two_tokens", not dup, "%s" % dup)
    ok(r, "table.every_token_named_in_the_table_exists", all(t in T for w, t in pairs), "%s" % [t for w, t in pairs if t not in T][:5])
    LB = tm.sym("iter_l_buf", "P")
    LTR = tm.sym("iter_ltr", "B")
    SYN = synonym_classes()
    DISP = dispatched_tokens()
    same = lambda a, b: a == b or (a in SYN and b in SYN[a])
    unspaced = []
    printed = {}
    nkw = nop = 0
    bad_step = []
    for kind in sorted(names):
        name = names[kind]
        def prep(ex, st, nm, kind=kind):
            lb = st.locals[nm["l_buf"]]
            st.heap[("f", "kind", "I")] = tm.store(ex.heap_arr(st, ("f", "kind", "I")), (lb,), tm.num(kind, "I"))
        c = mkctx(); c.functional.update({"strchr"})
        f, ex, its, info = run_iter(QL, 0, c, prepare=prep)
        live_ = alive(its, ("run", "cont"))
        if not live_:
            ok(r, "token[%s].has_a_path" % name, False, ""); continue
        for s in live_:
            if local(info, s, "l_buf") is not tm.select(entry_arr(ex, s, ("f", "next", "P")), LB):
                bad_step.append(name)
        # what is printed: the output_msg events, a blank first when the spacing rule asks for one
        outs = []
        for s in live_:
            om = [e for e in U.iter_events(s) if e.name.split("::")[-1] == "output_msg"]
            sf = {e.result: e for e in U.iter_events(s) if e.name.split("::")[-1] == "sformatf"}
            lead = bool(om) and om[0].args[0].op == "str" and om[0].args[0].args[0] == '" "'
            rest = om[1:] if lead else om
            outs.append((s, lead, rest, sf))
        # ---- the text
        texts = set()
        for s, lead, rest, sf in outs:
            if len(rest) == 1 and rest[0].args[0].op == "str":
                texts.add(rest[0].args[0].args[0][1:-1])
            else:
                texts.add(None)
        text = texts.pop() if len(texts) == 1 else None
        printed[name] = text
        if name in DATA_TOKENS:
            continue
        if name in INV_OP:
            nop += 1
            want = INV_OP[name] if not (twin and name == "tokle") else ">="
            ok(r, "token[%s].prints_the_characters_parse_reads_as_this_operator" % name, text is not None and text.strip() == want, repr(text))
            continue
        if name not in DISP and name not in ("tokthen", "tokelse", "tokto", "tokstep") and all(not om for s, lead, om, sf in outs):
            ok(r, "token[%s].not_implemented_in_this_build:nothing_printed" % name, True, "no case in factor / exec / listtokens (e.g. MULTICHART)")
            continue
        if text is None and all(len(om) > 1 and all(e.args[0].op == "str" for e in om) for s, lead, om, sf in outs):
            # LIST is outside the property's statement (it delivers no PUNCH / SAVE / PRINT value): a case that falls through into the next one is recorded, not demanded
            r.add("note.token[%s].case_falls_through(LIST_prints_%s)" % (name, "+".join(e.args[0].args[0].strip('"') for e in outs[0][2])), DISCHARGED, "observation", 0, "not an obligation of C17 (decision of the coordinator); see the helper's report", kind="trace")
            continue
        nkw += 1
        w = text.strip().lower() if text is not None else None
        good = w is not None and WORD.match(w) is not None and w in table and same(table[w], name if not (twin and name == "tokwend") else "tokwhile")
        ok(r, "token[%s].prints_a_word_that_command_tokens_maps_back_to_it(or_to_a_synonym_handled_by_the_same_case)" % name, good, "prints %r -> %s" % (text if text is not None else [[e.args for e in om] for s, lead, om, sf in outs][:2], table.get(w) if w else None))
        # ---- spacing (words only): recorded, not demanded (LIST output is outside the property)
        if text is not None and text:
            for s, lead, rest, sf in outs:
                hy = hyp(s)
                if _wordchar(text[0]):
                    for hy2, after_word in cases(hy, LTR):
                        if after_word and not lead:
                            unspaced.append(name)
                if _wordchar(text[-1]) and not prove(hy, local(info, s, "ltr")):
                    unspaced.append(name)
    unspaced = sorted(set(unspaced), key=lambda x: T[x])
    r.add("note.spacing.keywords_printed_as_bare_words_without_a_separating_blank", DISCHARGED, "observation", 0, "%d keywords: %s ... (LIST output only; not an obligation of C17)" % (len(unspaced), unspaced[:4]), kind="trace")
    ok(r, "step.every_token_of_the_list_is_printed_in_order(l_buf:=l_buf->next,all_kinds)", not bad_step, "%s" % bad_step[:5])
    # ---- data tokens
    for name in DATA_TOKENS:
        kind = T[name]
        def prep(ex, st, nm, kind=kind):
            lb = st.locals[nm["l_buf"]]
            st.heap[("f", "kind", "I")] = tm.store(ex.heap_arr(st, ("f", "kind", "I")), (lb,), tm.num(kind, "I"))
        c = mkctx(); c.functional.update({"strchr"})
        f, ex, its, info = run_iter(QL, 0, c, prepare=prep)
        for s in alive(its, ("run", "cont")):
            E = U.iter_events(s)
            om = [e for e in E if e.name.split("::")[-1] == "output_msg"]
            sf = [e for e in E if e.name.split("::")[-1] == "sformatf"]
            uu = UUo(LB)
            hy = hyp(s)
            lead = bool(om) and om[0].args[0].op == "str" and om[0].args[0].args[0] == '" "'
            rest = om[1:] if lead else om
            one = len(rest) == 1 and len(sf) == 1 and (rest[0].args[0] is sf[0].result or (rest[0].args[0].op == "app" and sf[0].result in rest[0].args[0].args[1:]))
            if not ok(r, "token[%s].prints_one_formatted_text" % name, one, "%s" % om):
                continue
            fmt = sf[0].args[0].args[0][1:-1] if sf[0].args[0].op == "str" else None
            arg = sf[0].args[1]
            if name == "tokvar":
                vp = tm.select(entry_arr(ex, s, ("f", "vp", "P")), uu)
                ok(r, "token[tokvar].prints_the_variable's_name", fmt == "%s" and arg is tm.app("fld:name", (vp,), "P"), repr(sf[0].args))
            elif name == "toknum":
                nt = [e for e in E if e.name.split("::")[-1] == "numtostr"]
                ok(r, "token[toknum].prints_the_number's_value_as_text", fmt == "%s" and len(nt) == 1 and nt[0].args[1] is tm.select(entry_arr(ex, s, ("f", "num", "R")), uu) and arg is nt[0].result, repr(sf[0].args))
            elif name == "tokstr":
                sp = tm.select(entry_arr(ex, s, ("f", "sp", "P")), uu)
                has_dq = tm.not_(tm.eq(tm.app("call:strchr", (tm.NULL, sp, tm.num(34, "I")), "P"), NULLP))
                ok(r, "token[tokstr].prints_the_string's_text_between_two_equal_quotes", fmt in ('\\"%s\\"', "'%s'", "\\'%s\\'") and arg is sp, repr(fmt))
                if fmt == '\\"%s\\"':
                    U.discharge_valid(r, "token[tokstr].double_quotes_only_around_a_text_without_a_double_quote", hy, tm.not_(has_dq) if not twin else has_dq)
                else:
                    U.discharge_valid(r, "token[tokstr].single_quotes_only_around_a_text_with_a_double_quote", hy, has_dq)
            elif name == "toksnerr":
                ok(r, "token[toksnerr].prints_the_offending_character_in_braces", fmt == "{%c}" and arg is tm.select(entry_arr(ex, s, ("f", "snch", "I")), uu), repr(sf[0].args))
            elif name == "tokrem":
                ok(r, "token[tokrem].prints_REM_and_the_kept_text", fmt is not None and fmt.lower() == "rem%s" and arg is tm.select(entry_arr(ex, s, ("f", "sp", "P")), uu), repr(sf[0].args))
            if name in ("tokvar", "toknum"):
                for hy2, after_word in cases(hy, LTR):
                    if after_word:
                        ok(r, "token[%s].a_blank_separates_it_from_a_word_before_it" % name, lead, "")
                U.discharge_valid(r, "token[%s].is_remembered_as_a_word_for_the_token_behind_it" % name, hy, local(info, s, "ltr"))
    # ---- the converse: every word parse can produce is the print-out of its token
    back = []
    for w, t in pairs:
        if not WORD.match(w):
            continue
        p = printed.get(t)
        if p is None:
            continue            # nothing / no single text printed: already decided by the token's own obligation above
        if p is None or p.strip().lower() not in table or not same(table[p.strip().lower()], t):
            back.append((w, t, p))
    ok(r, "converse.every_word_of_command_tokens_that_parse_can_produce_has_a_token_that_LIST_prints_as_a_word_of_that_token", not back, "%s" % back[:5])
    reach(r, "reach.keywords", nkw, 150)
    reach(r, "reach.operators", nop, 16)
    # the loop runs over the whole list
    cond = cond_of(QL, 0, mkctx())
    ok(r, "loop.runs_until_the_end_of_the_token_list", equivalent(cond, tm.not_(tm.eq(tm.sym("L_l_buf", "P"), NULLP))), repr(cond))
    r.assumptions += ["the content of command_tokens is read from the text of its initialiser temp_tokens[] (a data table; text-anchored)", "parse lower-cases a word and looks it up in command_tokens (unit C17.parse.name...); operator characters as in unit C17.parse.every_character...",
                      "output_msg / sformatf print their arguments; numtostr renders the value (unit of PRINT)", "a string token's text never contains the quote character that delimited it (unit C17.parse.string...), so a text with a double quote was written between single quotes",
                      "token kinds are executed concretely, one by one"]
    return r


UNITS = [
    ("C17.parseinput.numbered_line_is_stored_in_ascending_order_replacing_or_deleting_its_number", unit_parseinput),
    ("C17.listtokens.prints_for_every_token_a_text_that_parse_maps_back_to_it", unit_listtokens),
]
