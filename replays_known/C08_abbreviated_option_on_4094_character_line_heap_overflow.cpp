// C08 candidate: get_option() expands an abbreviated option ("-t" -> "temperature") in place in the heap buffers line / line_save,
// whose capacity max_line was sized by Phreeqc::get_line for the UNEXPANDED text only.
#include "IPhreeqc.hpp"
#include <iostream>
#include <string>
#include <cstdlib>
int main(int argc,char**argv){ IPhreeqc a; if (a.LoadDatabase(argv[1])) return 2;
 int n = argc>2?atoi(argv[2]):4094;
 std::string l = " -t 25";
 l += std::string(n - l.size(), ' ');
 std::string in = "SOLUTION 1\n" + l + "\n pH 7\nEND\n";
 int rc = a.RunString(in.c_str());
 std::cout << "RunString returned " << rc << "\n"; return 0; }
