// Demo (C11): multi_D's repair of a negative total takes the deficit from entries of ANOTHER element.
// transport.cpp, multi_D, "check for negative conc's": the scan over the other totals matches with
//     length2 = strcspn(kit->first, "(");  if (!strncmp(it->first, kit->first, length2))
// i.e. a prefix test over the length of the OTHER key only (the computed `length` of the deficient key is never used), so a
// deficit of "Na" is covered from "N(5)" (prefix "N"), one of "Ca"/"Cl" from "C(4)", ...  The nitrogen disappears from the
// column without any message; sodium is created.
// Closed column, diffusion only, two mobile + two stagnant cells exchanging through user-defined MIX factors that are too large
// for the time step (the documented reaction of PHREEQC is to warn "Negative concentration in MCD: added ... moles" and to
// log the amount under the element concerned).  Two runs that differ only in the common anion: nitrate / chloride.
#include <cstdio>
#include <string>
#include <cmath>
#include "IPhreeqc.hpp"

static std::string input(const char *anion)
{
	std::string a(anion);
	return std::string() +
	"SOLUTION 0-3\n  Na 1\n  " + a + " 1\nSOLUTION 4-5\n  K 1\n  " + a + " 1\nEND\n"
	"MIX 1\n  1 1\n  4 1.5\nMIX 2\n  2 1\n  5 1.5\nEND\n"
	"SELECTED_OUTPUT 1\n  -reset false\nUSER_PUNCH 1\n  -headings cell step anion Na K\n"
	"  10 PUNCH CELL_NO, STEP_NO, TOT(\"" + (a == "N(5)" ? "N" : a) + "\")*TOT(\"water\"), TOT(\"Na\")*TOT(\"water\"), TOT(\"K\")*TOT(\"water\")\n"
	"TRANSPORT\n  -cells 2\n  -shifts 1\n  -time_step 1000\n  -flow_direction diffusion_only\n  -boundary_conditions closed closed\n"
	"  -lengths 2*0.1\n  -dispersivities 2*0\n  -stagnant 1\n  -multi_d true 1e-9 0.3 0.0 1.0\n  -punch_cells 1-5\nEND\n";
}

static int run(const char *anion, double inv[2][3])
{
	IPhreeqc p;
	if (p.LoadDatabase("/repo/database/phreeqc.dat")) { printf("%s\n", p.GetErrorString()); return 1; }
	if (p.RunString(input(anion).c_str())) { printf("%s\n", p.GetErrorString()); return 1; }
	p.SetCurrentSelectedOutputUserNumber(1);
	for (int s = 0; s < 2; s++) for (int k = 0; k < 3; k++) inv[s][k] = 0;
	VAR v; VarInit(&v);
	for (int i = 1; i < p.GetSelectedOutputRowCount(); i++)
	{
		double row[5];
		for (int j = 0; j < 5; j++) { p.GetSelectedOutputValue(i, j, &v); row[j] = (v.type == TT_DOUBLE ? v.dVal : (double)v.lVal); VarClear(&v); }
		int step = (int)row[1];
		if (step < 0 || step > 1) continue;
		for (int k = 0; k < 3; k++) inv[step][k] += row[2 + k];
	}
	printf("common anion %-5s: column inventory (cells 1,2,4,5)  anion        Na           K\n", anion);
	for (int s = 0; s < 2; s++) printf("   after shift %d:                              %.6e %.6e %.6e\n", s, inv[s][0], inv[s][1], inv[s][2]);
	const char *w = p.GetWarningString();
	std::string ws(w ? w : "");
	size_t pos = 0; int n = 0;
	while ((pos = ws.find("Negative concentration", pos)) != std::string::npos) { size_t e = ws.find('\n', pos); printf("   %s\n", ws.substr(pos, e - pos).c_str()); pos = e; n++; }
	return 0;
}

int main()
{
	double a[2][3], b[2][3];
	if (run("Cl", b) || run("N(5)", a)) return 2;
	double lossCl = std::fabs(b[1][0] - b[0][0]) / b[0][0], lossN = std::fabs(a[1][0] - a[0][0]) / a[0][0];
	printf("\nrelative change of the anion inventory in one shift: chloride %.3e   nitrate %.3e   (closed column: must be 0 within 1e-9)\n", lossCl, lossN);
	bool bad = lossN > 1e-9;
	printf(bad ? "FAIL: nitrogen is lost from a closed column: the sodium deficit of cells 1 and 2 was taken from their N(5) entry (prefix match \"N\")\n" : "ok\n");
	return bad ? 1 : 0;
}
