// kinetics with -runge_kutta 2 and a constant rate (equal rates -> the rk=2 short cut of rk_kinetics) next to a solid solution:
// inventory of Sr (solution + solid solution) after the step must equal the inventory before + what the kinetic reactant delivered.
#include "IPhreeqc.hpp"
#include <cstdio>
#include <string>
static double cell(IPhreeqc &p, int row, int col) { VAR v; VarInit(&v); p.GetSelectedOutputValue(row, col, &v); double d = v.type == TT_DOUBLE ? v.dVal : (v.type == TT_LONG ? v.lVal : -1e99); VarClear(&v); return d; }
int main(int argc, char **argv)
{
	const char *rk = argc > 1 ? argv[1] : "2";
	IPhreeqc p;
	if (p.LoadDatabase("/repo/database/phreeqc.dat")) { printf("%s\n", p.GetErrorString()); return 2; }
	std::string in =
		"SOLUTION 1\n pH 8\n Ca 1\n C 2\n Sr 0.5\n Cl 1 charge\n"
		"SOLID_SOLUTIONS 1\n CaSr\n -comp Calcite 0.01\n -comp Strontianite 0.01\n"
		"RATES\n feed\n -start\n 10 SAVE 1e-6 * TIME\n -end\n"
		"KINETICS 1\n feed\n -formula SrCl2 1\n -m0 1\n -tol 1e-8\n -steps 100\n -runge_kutta " + std::string(rk) + "\n"
		"SELECTED_OUTPUT\n -reset false\n"
		"USER_PUNCH\n -headings Sr_sys Sr_sol Sr_ss kin_m\n 10 PUNCH SYS(\"Sr\"), TOT(\"Sr\")*TOT(\"water\"), S_S(\"Strontianite\"), KIN(\"feed\")\n"
		"END\n";
	p.SetSelectedOutputStringOn(true);
	if (p.RunString(in.c_str())) { printf("%s\n", p.GetErrorString()); return 2; }
	int n = p.GetSelectedOutputRowCount();
	for (int r = 1; r < n; r++)
		printf("row %d: SYS(Sr)=%.10e  Sr(aq)=%.10e  Strontianite(ss)=%.10e  KIN m=%.10e\n", r, cell(p, r, 0), cell(p, r, 1), cell(p, r, 2), cell(p, r, 3));
	double before = cell(p, 1, 1) + cell(p, 1, 2) + cell(p, 1, 3), after = cell(p, n - 1, 1) + cell(p, n - 1, 2) + cell(p, n - 1, 3);
	printf("-runge_kutta %s: Sr in solution + solid solution + kinetic reactant: initial %.10e, after the step %.10e, difference %.3e\n", rk, before, after, after - before);
	return 0;
}
