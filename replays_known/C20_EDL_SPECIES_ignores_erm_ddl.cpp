#include <IPhreeqc.hpp>
#include <iostream>
#include <string>
int main() {
  IPhreeqc p;
  if (p.LoadDatabase("/repo/database/phreeqc.dat")) { std::cout << p.GetErrorString(); return 2; }
  std::string in =
  "SOLUTION_SPECIES\n Na+ = Na+\n -gamma 4.0 0.075\n -erm_ddl 2.0\n"
  "SOLUTION 1\n pH 5\n Na 10\n Cl 10 charge\n"
  "SURFACE 1\n Hfo_w 1e-3 600 1\n -donnan 1e-8\n -equil 1\n"
  "USER_PRINT\n"
  "10 t = EDL_SPECIES(\"Hfo\", c1, n1$, m1, a1, t1)\n"
  "20 s = 0\n"
  "30 for i = 1 to c1\n"
  "40 if n1$(i) = \"Na+\" then s = m1(i)\n"
  "50 next i\n"
  "60 print \"EDL_total_Na\", EDL(\"Na\", \"Hfo\"), \"EDL_SPECIES_Na+\", s, \"ratio\", EDL(\"Na\", \"Hfo\")/s\n"
  "70 print \"EDL_total_Cl\", EDL(\"Cl\", \"Hfo\")\n"
  "END\n";
  p.SetOutputStringOn(true);
  int e = p.RunString(in.c_str());
  std::string out = p.GetOutputString();
  size_t pos = 0;
  while ((pos = out.find("EDL_total", pos)) != std::string::npos) { size_t e2 = out.find("\n", pos); std::cout << out.substr(pos, e2 - pos) << "\n"; pos = e2; }
  std::cout << "errors=" << e << "\n" << p.GetErrorString();
  return 0;
}
