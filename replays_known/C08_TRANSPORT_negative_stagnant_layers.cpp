// C08 demo: TRANSPORT -cells / -stagnant are read with sscanf("%d") and never range-checked before they size cell_data
#include "IPhreeqc.hpp"
#include <cstdio>
#include <cstring>
#include <string>
int main(int argc, char **argv)
{
	const char *which = argc > 1 ? argv[1] : "a";
	std::string in = "SOLUTION 0-3\n";
	if (!strcmp(which, "a")) in += "TRANSPORT\n -cells 200000\n -stagnant -1\n -shifts 1\nEND\n";       // all_cells = 200000*(1-1)+2 = 2, loops write cell_data[1..200001]
	if (!strcmp(which, "b")) in += "TRANSPORT\n -cells -1\n -shifts 1\nEND\n";                          // all_cells = 1: cell_data[1] written, cell_data[-1] read
	if (!strcmp(which, "c")) in += "TRANSPORT\n -cells -5\n -shifts 1\nEND\n";                          // cell_data.resize(-3)
	if (!strcmp(which, "d")) in += "TRANSPORT\n -cells 3\n -stagnant -7\n -shifts 1\nEND\n";            // cell_data.resize(-16)
	IPhreeqc p;
	if (p.LoadDatabase("/repo/database/phreeqc.dat") != 0) { printf("db failed\n"); return 2; }
	p.SetErrorStringOn(true);
	int rc = p.RunString(in.c_str());
	printf("case %s: RunString returned %d\nerrors: %s\n", which, rc, p.GetErrorString());
	return 0;
}
