// C15: alkalinity in meq/kgs versus the same amount in mg/kgs as HCO3: equivalent descriptions, different results
#include "IPhreeqc.hpp"
#include <cstdio>
#include <cmath>
#include <string>
static double run(IPhreeqc &p, const char *alk_line, double *na)
{
    std::string in =
        "SOLUTION 1\n units ppm\n pH 8.2\n Na 10000\n Cl 15000\n Ca 400\n";
    in += alk_line;
    in += "\nSELECTED_OUTPUT\n -reset false\n -totals Alkalinity Na Cl\n -water true\nEND\n";
    *na = 0;
    if (p.RunString(in.c_str()) != 0) { p.OutputErrorString(); return -1; }
    VAR v; VarInit(&v);
    double alk = 0;
    for (int c = 0; c < p.GetSelectedOutputColumnCount(); c++) {
        p.GetSelectedOutputValue(0, c, &v); std::string h = v.sVal ? v.sVal : "";
        p.GetSelectedOutputValue(p.GetSelectedOutputRowCount() - 1, c, &v);
        if (h.compare(0, 3, "Alk") == 0 && v.type == TT_DOUBLE) alk = v.dVal;
        if (h.compare(0, 3, "Na(") == 0 && v.type == TT_DOUBLE) *na = v.dVal;
    }
    return alk;
}
int main()
{
    IPhreeqc p;
    if (p.LoadDatabase("/repo/database/phreeqc.dat") != 0) { p.OutputErrorString(); return 2; }
    p.SetSelectedOutputStringOn(true);
    double na1, na2, na3;
    // phreeqc.dat: Alkalinity CO3-2 1 Ca0.5(CO3)0.5 50.05  -> 2.3 meq/kgs == 2.3e-3 eq * 50.05 g/eq = 115.115 mg/kgs (same formula weight, no 'as')
    double a1 = run(p, " Alkalinity 2.3 meq/kgs", &na1);
    double a2 = run(p, " Alkalinity 115.115 mg/kgs", &na2);
    double a3 = run(p, " Alkalinity 2.3 mmol/kgs", &na3);
    printf("2.3 meq/kgs     : Alk %.12e  Na %.12e\n", a1, na1);
    printf("115.115 mg/kgs  : Alk %.12e  Na %.12e\n", a2, na2);
    printf("2.3 mmol/kgs    : Alk %.12e  Na %.12e\n", a3, na3);
    double rel = fabs(na1 - na2) / na2;
    printf("relative difference of Na molality between the two descriptions: %.3e (property tolerance 1e-8)\n", rel);
    return rel > 1e-8 ? 1 : 0;
}
