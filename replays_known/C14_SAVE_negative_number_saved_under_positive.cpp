// SAVE with a negative number: read_save() blanks the FIRST '-' of the token (replace("-", " ", token)), so "-5" is scanned as 5:
// the intended error "Number must be a positive integer." is unreachable and the result is silently saved under 5.
#include <cstdio>
#include <string>
#include "IPhreeqc.hpp"
int main()
{
	IPhreeqc p;
	p.LoadDatabase("/repo/database/phreeqc.dat");
	p.SetDumpStringOn(true);
	int e = p.RunString("SOLUTION 1\n Na 1\n Cl 1\nEND\nUSE solution 1\nREACTION 1\n NaCl 1\n 0.001\nSAVE solution -5\nEND\nDUMP\n -solution 1-10\nEND\n");
	std::string d = p.GetDumpString();
	printf("errors=%d  error text: [%s]\n", e, p.GetErrorString());
	size_t pos = 0; 
	while ((pos = d.find("SOLUTION_RAW", pos)) != std::string::npos) { printf("dumped: %s\n", d.substr(pos, d.find('\n', pos) - pos).c_str()); pos += 5; }
	IPhreeqc q;
	q.LoadDatabase("/repo/database/phreeqc.dat");
	q.SetDumpStringOn(true);
	e = q.RunString("SOLUTION 1\n Na 1\n Cl 1\nEND\nUSE solution 1\nREACTION 1\n NaCl 1\n 0.001\nSAVE solution -5-7\nEND\nDUMP\n -solution 1-10\nEND\n");
	d = q.GetDumpString();
	printf("SAVE solution -5-7: errors=%d  error text: [%s]\n", e, q.GetErrorString());
	pos = 0;
	while ((pos = d.find("SOLUTION_RAW", pos)) != std::string::npos) { printf("dumped: %s\n", d.substr(pos, d.find('\n', pos) - pos).c_str()); pos += 5; }
	return 0;
}
