// C10: a dumped solution whose isotope has NO uncertainty (-isotope 13C -12) must be readable back without errors.
#include "IPhreeqc.hpp"
#include <iostream>
#include <string>
int main(int argc,char**argv){ IPhreeqc a,b; if (a.LoadDatabase(argv[1])||b.LoadDatabase(argv[1])) return 2;
 a.SetDumpStringOn(true); b.SetDumpStringOn(true);
 int r1=a.RunString("SOLUTION 1\n pH 7\n C 1\n -isotope 13C -12\nSAVE solution 1\nEND\nDUMP\n -solution 1\nEND\n");
 std::string d=a.GetDumpString();
 std::cout << d << "\n";
 int r2=b.RunString(d.c_str());
 std::cout<<"first run "<<r1<<"; reading the dump back: "<<r2<<" errors\n";
 if (r2) std::cout<<b.GetErrorString();
 return (r2==0)?0:1; }
