// BASIC POKE / PEEK take a memory address from the program text: `10 POKE 0, 1` (USER_PRINT) writes to address 0 -> SIGSEGV in RunString.
#include <cstdio>
#include <string>
#include "IPhreeqc.hpp"
int main(int argc, char **argv) {
    IPhreeqc ip; if (ip.LoadDatabase("/repo/database/phreeqc.dat")) return 2;
    ip.SetOutputStringOn(true);
    std::string stmt = (argc > 1 && argv[1][0] == 'r') ? "10 x = PEEK(0)" : "10 POKE 0, 1";
    std::string in = "SOLUTION 1\nUSER_PRINT\n-start\n" + stmt + "\n-end\nEND\n";
    int n = ip.RunString(in.c_str());
    printf("RunString errors = %d\n", n);
    return 0;
}
