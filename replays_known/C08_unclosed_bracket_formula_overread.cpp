// REACTION with the formula "[": Phreeqc::get_elt stored and stepped over the character behind '[' without testing it for NUL and
// went on reading behind the terminator (valgrind: Conditional jump or move depends on uninitialised value(s), parse.cpp:525).
#include <cstdio>
#include "IPhreeqc.hpp"
int main() {
    IPhreeqc ip;
    if (ip.LoadDatabase("/repo/database/phreeqc.dat") != 0) { printf("load failed\n"); return 2; }
    int n = ip.RunString("SOLUTION 1\nREACTION 1\n [ 1\n 1 mmol\nEND\n");
    printf("RunString errors = %d\n%.160s\n", n, ip.GetErrorString());
    return 0;
}
