#include "IPhreeqc.hpp"
#include <iostream>
#include <string>
int main(int argc,char**argv){
  IPhreeqc ip; if(ip.LoadDatabase(argv[1])) {std::cout<<ip.GetErrorString();return 2;}
  ip.SetDumpStringOn(true);
  std::string in = "SOLUTION 1\n pH 3\n F 1\n Fe 0.1\n Cl 1 charge\nEND\n";
  if (argc>2) in += "SOLUTION_MODIFY 1\n -totals\n  Fe(3) 1e-5\nEND\n";
  in += "DUMP\n -solution 1\nEND\n";
  if(ip.RunString(in.c_str())) {std::cout<<ip.GetErrorString();return 2;}
  std::cout<<ip.GetDumpString();
}
