// C05 known finding: IPhreeqc::get_sel_out_string_on(n) ignores n and reads the switch of the CURRENT user number.
#include "IPhreeqc.hpp"
#include <iostream>
int main(int argc,char**argv){ IPhreeqc a; if (a.LoadDatabase(argv[1])) return 2;
 a.SetCurrentSelectedOutputUserNumber(2); a.SetSelectedOutputStringOn(true);     // string sink on for user number 2 only
 a.SetCurrentSelectedOutputUserNumber(1);                                       // current number left at 1 (its switch is off)
 a.RunString("SOLUTION 1\nSELECTED_OUTPUT 1\n -reset false\n -pH\nSELECTED_OUTPUT 2\n -reset false\n -pe\nEND\n");
 a.SetCurrentSelectedOutputUserNumber(2);
 int rows = a.GetSelectedOutputRowCount(), lines = a.GetSelectedOutputStringLineCount(); bool on = a.GetSelectedOutputStringOn();
 std::cout << "user number 2: string switch=" << on << " table rows=" << rows << " string lines=" << lines << "\n";
 return (on && rows > 0 && lines == 0) ? 1 : 0; }
