// C07 demo: Phreeqc::dump_info (DUMP request record: file name, -append flag, selection) is not reset by clean_up()/init(), so a
// `-append true` (or `-file name`) given to DUMP in an earlier project still acts after LoadDatabase.
#include "IPhreeqc.hpp"
#include <cstdio>
#include <cstring>
#include <string>
static int count(const std::string& s, const char* w) { int n = 0; size_t p = 0; while ((p = s.find(w, p)) != std::string::npos) { n++; p++; } return n; }
static void follow(IPhreeqc& p, const char* who) {
    p.SetDumpStringOn(true); p.SetDumpFileOn(true);
    int e1 = p.RunString("SOLUTION 1\n Na 1\nDUMP\n -solution 1\nEND\n");
    int e2 = p.RunString("SOLUTION 2\n K 1\nDUMP\n -solution 2\nEND\n");
    std::string d = p.GetDumpString();
    printf("%-9s errors=%d/%d  dump file name=%s  SOLUTION_RAW blocks in GetDumpString after the 2nd DUMP: %d\n", who, e1, e2, p.GetDumpFileName(), count(d, "SOLUTION_RAW"));
}
int main() {
    IPhreeqc fresh; fresh.LoadDatabase("/repo/database/phreeqc.dat");
    follow(fresh, "fresh");
    std::string f1 = fresh.GetDumpString(), n1 = fresh.GetDumpFileName();

    IPhreeqc used; used.LoadDatabase("/repo/database/phreeqc.dat");
    used.SetDumpStringOn(true);
    used.RunString("SOLUTION 5\nDUMP\n -file /var/tmp/old_project.dmp\n -append true\n -solution 5\nEND\n");
    used.SetDumpStringOn(false);
    printf("history   LoadDatabase returned %d\n", used.LoadDatabase("/repo/database/phreeqc.dat"));
    follow(used, "reloaded");
    std::string f2 = used.GetDumpString(), n2 = used.GetDumpFileName();
    // the instance id is part of the default name: compare only the directory-less stem
    bool same_text = (count(f1, "SOLUTION_RAW") == count(f2, "SOLUTION_RAW"));
    bool same_name = (strstr(n2.c_str(), "old_project") == NULL);
    printf("%s\n", same_text && same_name ? "same" : "DIFFERENT: the DUMP options of the old project act in the new one");
    return !(same_text && same_name);
}
