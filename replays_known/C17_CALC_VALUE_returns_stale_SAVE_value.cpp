// C17: CALC_VALUE("name") (Phreeqc::get_calculate_value) runs the CALCULATE_VALUES program without first resetting rate_moles to NaN, so a
// program that does not reach its SAVE silently yields the value SAVEd by whichever BASIC program ran last, instead of the error
// "Calculated value not SAVEed" that the other hosts (punch_calculate_values, calculate_values) raise.
#include "IPhreeqc.hpp"
#include <iostream>
#include <string>
int main(int argc,char**argv){
  IPhreeqc ip; if(ip.LoadDatabase(argv[1])) return 2;
  ip.SetSelectedOutputStringOn(true);
  std::string in =
   "CALCULATE_VALUES\n cv_a\n -start\n 10 SAVE 42\n -end\n cv_b\n -start\n 10 IF (TC < 30) THEN SAVE 2.5\n -end\n"
   "SOLUTION 1\n temp 50\nSELECTED_OUTPUT\n -reset false\nUSER_PUNCH\n -headings a b\n 10 PUNCH CALC_VALUE(\"cv_a\")\n 20 PUNCH CALC_VALUE(\"cv_b\")\nEND\n";
  int rc=ip.RunString(in.c_str());
  std::cout<<"rc="<<rc<<"\n"<<ip.GetSelectedOutputString()<<ip.GetErrorString();
  // expected: an error (cv_b does not SAVE at 50 C); observed on the defective code: no error and b == 42
  return rc==0 ? 1 : 0;
}
