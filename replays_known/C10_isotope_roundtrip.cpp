// C10: a dumped solution that carries isotopes must be readable back (DUMP -> second instance), uncertainty included.
#include "IPhreeqc.hpp"
#include <iostream>
#include <string>
int main(int argc,char**argv){ IPhreeqc a,b; if (a.LoadDatabase(argv[1])||b.LoadDatabase(argv[1])) return 2;
 a.SetDumpStringOn(true); b.SetDumpStringOn(true);
 int r1=a.RunString("SOLUTION 1\n pH 7\n C 1\n -isotope 13C -12 1.5\n -isotope 18O -5 0.3\nSAVE solution 1\nEND\nDUMP\n -solution 1\nEND\n");
 std::string d=a.GetDumpString();
 int r2=b.RunString(d.c_str());
 int r3=b.RunString("DUMP\n -solution 1\nEND\n");
 std::string d2=b.GetDumpString();
 bool unc = d2.find("-ratio_uncertainty                 1.5")!=std::string::npos;
 std::cout<<"first run "<<r1<<"; reading the dump back: "<<r2<<" errors; re-dump equal: "<<(d==d2)<<"; uncertainty 1.5 preserved: "<<unc<<"\n";
 if (r2) std::cout<<b.GetErrorString();
 return (r2==0 && d==d2 && unc)?0:1; }
