// Demo (C11): init_mix computes the dispersive mixing factor of an interface from a work variable that is not reset:
//     if (cell_data[i].disp)     dav  = cell_data[i].length / cell_data[i].disp;
//     if (cell_data[i + 1].disp) dav += cell_data[i + 1].length / cell_data[i + 1].disp;
//     if (dav) m1[i] = 2 / dav;                       (same pattern for m[i] with cell i - 1, in both branches of init_mix)
// With dispersivity 0 in a cell whose neighbours have a dispersivity, `dav` still holds the sum of the previous interface, so the
// factor with which cell i takes from cell i+1 (m1[i]) differs from the factor with which cell i+1 takes from cell i (m[i+1]):
// what leaves one cell does not arrive in the other.  Four cells of equal length, flux boundaries, one advective shift, a bromide
// pulse in cell 2, bromide-free inflow; nothing can leave the column in this shift (cell 4 holds no bromide before it).
#include <cstdio>
#include <string>
#include <cmath>
#include "IPhreeqc.hpp"

static double inventory(const char *disp, const char *diff, double cells[4])
{
	IPhreeqc p;
	if (p.LoadDatabase("/repo/database/phreeqc.dat")) { printf("%s\n", p.GetErrorString()); return -1; }
	std::string in =
	"SOLUTION 0-1\n  Na 1\n  Cl 1\nSOLUTION 3-4\n  Na 1\n  Cl 1\nSOLUTION 2\n  Na 1\n  Cl 1\n  K 1\n  Br 1\nEND\n"
	"SELECTED_OUTPUT 1\n  -reset false\nUSER_PUNCH 1\n  -headings cell step Br\n  10 PUNCH CELL_NO, STEP_NO, TOT(\"Br\")*TOT(\"water\")\n"
	"TRANSPORT\n  -cells 4\n  -shifts 1\n  -time_step 100\n  -flow_direction forward\n  -boundary_conditions flux flux\n  -lengths 4*0.1\n"
	"  -dispersivities " + std::string(disp) + "\n  " + std::string(diff) + "\n  -correct_disp false\n  -punch_cells 1-4\nEND\n";
	if (p.RunString(in.c_str())) { printf("%s\n", p.GetErrorString()); return -1; }
	p.SetCurrentSelectedOutputUserNumber(1);
	VAR v; VarInit(&v);
	double sum = 0;
	for (int i = 1; i < p.GetSelectedOutputRowCount(); i++)
	{
		double row[3];
		for (int j = 0; j < 3; j++) { p.GetSelectedOutputValue(i, j, &v); row[j] = (v.type == TT_DOUBLE ? v.dVal : (double)v.lVal); VarClear(&v); }
		if ((int)row[1] == 1) { sum += row[2]; cells[(int)row[0] - 1] = row[2]; }
	}
	return sum;
}

int main()
{
	int bad = 0;
	const char *branch[2][2] = {{"ordinary branch (-diffusion_coefficient 0)", "-diffusion_coefficient 0"}, {"multi_D branch (-multi_d true)", "-multi_d true 1e-30 0.3 0.0 1.0"}};
	for (int b = 0; b < 2; b++)
	{
		double c1[4], c2[4];
		double uni = inventory("0.01 0.01 0.01 0.01", branch[b][1], c1), zero = inventory("0.01 0 0.01 0.01", branch[b][1], c2);
		printf("%s: bromide inventory of cells 1-4 after one shift (1.0e-3 mol before it)\n", branch[b][0]);
		printf("   dispersivities 0.01 0.01 0.01 0.01 : %.6e   cells %.4e %.4e %.4e %.4e\n", uni, c1[0], c1[1], c1[2], c1[3]);
		printf("   dispersivities 0.01 0    0.01 0.01 : %.6e   cells %.4e %.4e %.4e %.4e\n", zero, c2[0], c2[1], c2[2], c2[3]);
		if (std::fabs(uni - 1e-3) > 1e-9 * 1e-3 * 1e3) { printf("   (uniform case not conserved either)\n"); }
		if (std::fabs(zero - 1e-3) > 1e-6 * 1e-3) { bad = 1; printf("   FAIL: %.1f %% of the bromide is lost inside the column (cell 3 gives 0.2 of its content to cell 2, cell 2 takes 0.1 of it)\n", 100 * (1e-3 - zero) / 1e-3); }
	}
	printf(bad ? "FAIL\n" : "ok\n");
	return bad;
}
