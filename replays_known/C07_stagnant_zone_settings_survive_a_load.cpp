// C07: the TRANSPORT -stagnant settings (stag_data: number of stagnant layers, exchange factor, porosities) are not reset by LoadDatabase.
#include <cstdio>
#include <string>
#include "IPhreeqc.hpp"
static std::string follow(IPhreeqc &p) {
    p.SetSelectedOutputStringOn(true); p.SetOutputStringOn(true);
    int e = p.RunString(
        "SOLUTION 0\n Na 1\n Cl 1\nSOLUTION 1-2\n K 1\n Cl 1\nSOLUTION 4-5\n Li 1\n Br 1\n"
        "SELECTED_OUTPUT\n -reset false\n -totals Na K Br\n"
        "TRANSPORT\n -cells 2\n -shifts 2\n -lengths 1\n -dispersivities 0\n -time_step 3600\n -punch_cells 1-2\n"
        "END\n");
    std::string out = p.GetOutputString();
    std::string r = "errors=" + std::to_string(e) + " | " + (out.find("stagnant") != std::string::npos ? "output mentions stagnant cells" : "no stagnant cells in output") + "\n" + p.GetSelectedOutputString();
    if (e) r += p.GetErrorString();
    return r;
}
int main() {
    IPhreeqc fresh; fresh.LoadDatabase("/repo/database/phreeqc.dat");
    std::string a = follow(fresh);
    IPhreeqc used; used.LoadDatabase("/repo/database/phreeqc.dat");
    used.RunString("SOLUTION 0-2\n Na 1\n Cl 1\nSOLUTION 4-5\n Na 1\n Cl 1\nTRANSPORT\n -cells 2\n -shifts 1\n -stagnant 1 6.8e-6 0.3 0.1\n -time_step 3600\nEND\n");
    printf("history   LoadDatabase returned %d\n", used.LoadDatabase("/repo/database/phreeqc.dat"));
    std::string b = follow(used);
    printf("--- fresh instance ---\n%.600s\n--- reloaded instance ---\n%.600s\n", a.c_str(), b.c_str());
    printf("%s\n", a == b ? "same" : "DIFFERENT: the stagnant-zone settings of the old project act in the new one");
    return a == b ? 0 : 1;
}
