// C08 known finding: Utilities::strcpy_safe/strcat_safe execute a bare `throw;` (std::terminate) on an oversize source.
// KINETICS -formula <300 characters> reaches cxxNameDouble::add(const char*) -> strcpy_safe(key, MAX_LENGTH, token).
#include "IPhreeqc.hpp"
#include <iostream>
#include <string>
int main(int argc,char**argv){ IPhreeqc a; if (a.LoadDatabase(argv[1])) return 2;
 std::string big(argc>2?atoi(argv[2]):300,'A');
 std::string in = "KINETICS 1\nFoo\n -formula " + big + " 1\nEND\n";
 int rc = a.RunString(in.c_str());
 std::cout << "RunString returned " << rc << "\n"; return 0; }
