// PITZER -MU (and -ETA) parameter whose THIRD species is not defined: pitzer_tidy reports an undefined third species only for PSI / ZETA,
// so ispec[2] stays -1 and the MU tidy loops read spec[-1] (out of bounds).
#include <cstdio>
#include <string>
#include "IPhreeqc.hpp"
int main() {
    IPhreeqc ip;
    if (ip.LoadDatabase("/repo/database/pitzer.dat") != 0) { printf("load failed\n%s\n", ip.GetErrorString()); return 2; }
    ip.SetOutputStringOn(false);
    std::string in =
        "PITZER\n-MU\n CO2 CO2 Xyzzy 0.01\n"
        "SOLUTION 1\n Na 1000\n Cl 1000\n C(4) 10\nEND\n";
    int n = ip.RunString(in.c_str());
    printf("RunString errors = %d\n%s\n", n, ip.GetErrorString());
    return 0;
}
