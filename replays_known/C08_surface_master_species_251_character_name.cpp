// SURFACE_MASTER_SPECIES with a 251-character element name: add_psi_master_species appended the plane suffix "b"/"d" with a plain strcat
// to the caller's char[MAX_LENGTH] that already held 255 characters ("<name>_psi") -> stack buffer overflow (ASan: WRITE of size 2).
#include <cstdio>
#include <string>
#include "IPhreeqc.hpp"
int main() {
    IPhreeqc ip;
    if (ip.LoadDatabase("/repo/database/phreeqc.dat") != 0) { printf("load failed\n"); return 2; }
    std::string name = "S" + std::string(250, 'a');
    std::string in = "SURFACE_MASTER_SPECIES\n " + name + " " + name + "OH\nEND\n";
    int n = ip.RunString(in.c_str());
    printf("RunString errors = %d\n%.200s\n", n, ip.GetErrorString());
    return 0;
}
