#include "IPhreeqc.hpp"
#include <iostream>
#include <string>
#include <algorithm>
int main(int argc,char**argv){
  IPhreeqc ip; if(ip.LoadDatabase(argv[1])) {std::cout<<ip.GetErrorString();return 2;}
  ip.SetOutputStringOn(true); ip.SetLogStringOn(true); ip.SetErrorStringOn(true);
  // a run that stops with an error after producing output
  std::string in = "SOLUTION 1\n pH 7\n Na 1\nEND\nSOLUTION 2\n pH 7\n Na 1 charge\n Cl 1 charge\nEND\n";
  int rc=ip.RunString(in.c_str());
  std::string s=ip.GetOutputString();
  long nl=std::count(s.begin(),s.end(),'\n');
  std::cout<<"rc="<<rc<<" output string bytes="<<s.size()<<" newlines="<<nl<<" GetOutputStringLineCount="<<ip.GetOutputStringLineCount()<<"\n";
  std::cout<<"line0=["<<ip.GetOutputStringLine(0)<<"]\n";
  return (nl>0 && ip.GetOutputStringLineCount()==0) ? 1 : 0;
}
