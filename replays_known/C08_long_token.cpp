// C08: a token longer than MAX_LENGTH-1 characters overruns the char[MAX_LENGTH] buffers handed to copy_token(char*,...)
#include "IPhreeqc.hpp"
#include <iostream>
#include <string>
int main(int argc,char**argv){ IPhreeqc a; if (a.LoadDatabase(argv[1])) return 2;
 std::string big(argc>2?atoi(argv[2]):5000,'A');
 std::string in = "ISOTOPES\nH\n -isotope " + big + " permil 1.0\nEND\n";
 int rc = a.RunString(in.c_str());
 std::cout << "RunString returned " << rc << " (an error return is the expected, safe outcome)\n"; return 0; }
