// NAMED_EXPRESSIONS -ln_alpha1000 a1..a6: 1000 ln(alpha) = a1 + a2 T + a3/T + a4 log10 T + a5/T^2 + a6 T^2.
// log10(alpha) must be that value / (1000 ln 10) for EVERY coefficient.  Each expression below has exactly one non-zero coefficient,
// chosen so that 1000 ln(alpha) == 1 at 25 C; LK_NAMED must therefore give 1/(1000 ln 10) = 4.3429e-4 for all six.
#include "IPhreeqc.hpp"
#include <cstdio>
#include <cmath>
#include <string>
int main() {
    IPhreeqc p;
    if (p.LoadDatabase("/repo/database/phreeqc.dat")) { printf("load failed\n"); return 2; }
    double T = 298.15;
    char buf[4096];
    double a[6] = {1.0, 1.0 / T, T, 1.0 / log10(T), T * T, 1.0 / (T * T)};
    std::string in = "NAMED_EXPRESSIONS\n";
    for (int k = 0; k < 6; k++) {
        snprintf(buf, sizeof buf, "X%d\n -ln_alpha1000", k + 1); in += buf;
        for (int j = 0; j < 6; j++) { snprintf(buf, sizeof buf, " %.17g", j == k ? a[k] : 0.0); in += buf; }
        in += "\n";
    }
    in += "SOLUTION 1\n temp 25\nSELECTED_OUTPUT\n -reset false\nUSER_PUNCH\n -headings k1 k2 k3 k4 k5 k6\n"
          "10 PUNCH LK_NAMED(\"X1\"), LK_NAMED(\"X2\"), LK_NAMED(\"X3\"), LK_NAMED(\"X4\"), LK_NAMED(\"X5\"), LK_NAMED(\"X6\")\nEND\n";
    p.SetSelectedOutputStringOn(true);
    if (p.RunString(in.c_str())) { printf("run failed: %s\n", p.GetErrorString()); return 2; }
    double want = 1.0 / (1000.0 * log(10.0));
    int bad = 0;
    for (int k = 0; k < 6; k++) {
        VAR v; VarInit(&v); p.GetSelectedOutputValue(1, k, &v);
        double got = v.dVal;
        int ok = fabs(got - want) < 1e-9;
        printf("coefficient A%d alone: log10(alpha) = %.9g  expected %.9g  %s\n", k + 1, got, want, ok ? "ok" : "WRONG");
        bad += !ok;
    }
    return bad ? 1 : 0;
}
