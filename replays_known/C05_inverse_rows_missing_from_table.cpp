#include "IPhreeqc.hpp"
#include <iostream>
#include <string>
#include <algorithm>
int main(int argc,char**argv){
  IPhreeqc ip; if(ip.LoadDatabase(argv[1])) {std::cout<<ip.GetErrorString();return 2;}
  ip.SetSelectedOutputStringOn(true);
  std::string in =
   "SOLUTION 1\n pH 7\n Na 1\n Cl 1\nSOLUTION 2\n pH 7\n Na 2\n Cl 2\nEND\n"
   "INVERSE_MODELING 1\n -solutions 1 2\n -uncertainty 0.1\n -phases\n  Halite\nPHASES\n Halite\n NaCl = Na+ + Cl-\n log_k 1.582\nSELECTED_OUTPUT\n -reset false\n -inverse_modeling true\nEND\n";
  int rc=ip.RunString(in.c_str());
  std::string s=ip.GetSelectedOutputString();
  long nl=std::count(s.begin(),s.end(),'\n');
  std::cout<<"rc="<<rc<<" string lines="<<nl<<" table rows="<<ip.GetSelectedOutputRowCount()<<" cols="<<ip.GetSelectedOutputColumnCount()<<"\n"<<ip.GetErrorString();
  std::cout<<s.substr(0,700)<<"\n";
  return (nl != ip.GetSelectedOutputRowCount()) ? 1 : 0;
}
