// C09: does switching the output sinks on/off change stored results?  fixed-pressure gas phase: print_gas_phase() stores total_moles / volume
// into the working gas phase, xgas_save() copies them.  Compare DUMP of the saved gas phase with output string on vs everything off.
#include "IPhreeqc.hpp"
#include <iostream>
#include <string>
static std::string run(bool out_on)
{
	IPhreeqc p;
	p.LoadDatabase("/repo/database/phreeqc.dat");
	p.SetOutputStringOn(out_on);
	p.SetOutputFileOn(false);
	p.SetDumpStringOn(true);
	p.SetDumpFileOn(false);
	const char *in =
		"SOLUTION 1\n  C(4) 10\n  pH 5\nGAS_PHASE 1\n  -fixed_pressure\n  -pressure 1\n  -volume 1.0\n  -temperature 25\n  CO2(g) 0.0\n  N2(g) 1.0\n"
		"SAVE gas_phase 1\nSAVE solution 1\nEND\n"
		"DUMP\n -gas_phase 1\nEND\n";
	p.RunString(in);
	return p.GetDumpString();
}
int main()
{
	std::string a = run(true), b = run(false);
	std::cout << "==== dump, output string ON ====\n" << a << "==== dump, all output sinks OFF ====\n" << b;
	std::cout << (a == b ? "SAME\n" : "DIFFERENT: stored gas phase depends on the output switches\n");
	return a == b ? 0 : 1;
}
