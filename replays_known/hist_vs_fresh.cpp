// Native replay driver for C07-class findings: instance A receives a history (may fail), then LoadDatabase, then a probe;
// instance B is fresh: LoadDatabase, probe.  Prints both outputs' differences.  exit 1 if they differ.
#include "IPhreeqc.hpp"
#include <fstream>
#include <sstream>
#include <iostream>
#include <string>
static std::string slurp(const char* f){ std::ifstream i(f); std::stringstream s; s << i.rdbuf(); return s.str(); }
static std::string mask(const std::string& s){ // drop timing banner lines
  std::stringstream in(s), out; std::string l;
  while (std::getline(in, l)) { if (l.find("seconds") != std::string::npos || l.find("End of Run") != std::string::npos) continue; out << l << "\n"; }
  return out.str(); }
int main(int argc, char** argv){
  if (argc < 4) { std::cerr << "usage: db history.pqi probe.pqi\n"; return 2; }
  std::string hist = slurp(argv[2]), probe = slurp(argv[3]);
  IPhreeqc a, b;
  a.LoadDatabase(argv[1]); a.SetOutputStringOn(true); a.SetDumpStringOn(true); a.SetSelectedOutputStringOn(true);
  int rh = a.RunString(hist.c_str());
  std::cout << "history returned " << rh << "\n";
  int la = a.LoadDatabase(argv[1]); int lb = b.LoadDatabase(argv[1]);
  a.SetOutputStringOn(true); a.SetDumpStringOn(true); a.SetSelectedOutputStringOn(true);
  b.SetOutputStringOn(true); b.SetDumpStringOn(true); b.SetSelectedOutputStringOn(true);
  int ra = a.RunString(probe.c_str()), rb = b.RunString(probe.c_str());
  std::string oa = mask(a.GetOutputString()), ob = mask(b.GetOutputString());
  std::string da = a.GetDumpString(), db = b.GetDumpString();
  std::string sa = a.GetSelectedOutputString(), sb = b.GetSelectedOutputString();
  bool same = la == lb && ra == rb && oa == ob && da == db && sa == sb;
  std::cout << "load " << la << "/" << lb << " run " << ra << "/" << rb << " output " << (oa == ob ? "same" : "DIFFERS") << " dump " << (da == db ? "same" : "DIFFERS")
            << " selected " << (sa == sb ? "same" : "DIFFERS") << "\n";
  if (!same) {
    std::stringstream x(oa), y(ob); std::string l1, l2; int n = 0;
    while (n < 12) { bool g1 = (bool)std::getline(x, l1), g2 = (bool)std::getline(y, l2); if (!g1 && !g2) break; if (l1 != l2) { std::cout << "A: " << l1 << "\nB: " << l2 << "\n"; n++; } }
    if (da != db) { std::cout << "--- dump A (history) has " << da.size() << " bytes, dump B (fresh) " << db.size() << "\n"; }
    if (sa != sb) { std::cout << "--- selected A:\n" << sa << "--- selected B:\n" << sb; }
    return 1; }
  return 0; }
