// C05: two SELECTED_OUTPUT blocks, file and string sinks on; a second RunString that does not redefine them: the heading line is written twice
// into the string of block 2 (do_run re-opens the files block by block and calls tidy_punch each time; every call writes ALL headings).
#include <cstdio>
#include <string>
#include "IPhreeqc.hpp"
static int lines(const std::string &s) { int n = 0; for (size_t i = 0; i < s.size(); i++) if (s[i] == '\n') n++; return n; }
int main() {
    IPhreeqc p; if (p.LoadDatabase("/repo/database/phreeqc.dat")) return 2;
    p.RunString("SOLUTION 1\n Na 1\n Cl 1\nSELECTED_OUTPUT 1\n -file so1.sel\n -reset false\n -totals Na\nSELECTED_OUTPUT 2\n -file so2.sel\n -reset false\n -totals Cl\nEND\n");
    int bad = 0;
    for (int n = 1; n <= 2; n++) { p.SetCurrentSelectedOutputUserNumber(n); p.SetSelectedOutputFileOn(true); p.SetSelectedOutputStringOn(true); }
    p.RunString("SOLUTION 2\n Na 2\n Cl 2\nEND\n");
    for (int n = 1; n <= 2; n++) {
        p.SetCurrentSelectedOutputUserNumber(n);
        std::string s = p.GetSelectedOutputString();
        printf("block %d: table rows=%d  string lines=%d  line accessor count=%d\n", n, p.GetSelectedOutputRowCount(), lines(s), p.GetSelectedOutputStringLineCount());
        if (p.GetSelectedOutputRowCount() != lines(s)) { bad = 1; printf("   string:\n%s", s.c_str()); }
    }
    printf("%s\n", bad ? "DIFFERENT: string and table disagree" : "same");
    remove("so1.sel"); remove("so2.sel");
    return bad;
}
