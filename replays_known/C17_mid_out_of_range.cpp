// C17/C08: MID$(s, start) with start beyond the end of s lets std::out_of_range escape RunString (reference BASIC: empty string)
#include "IPhreeqc.hpp"
#include <iostream>
#include <stdexcept>
int main(int argc,char**argv){ IPhreeqc a; if (a.LoadDatabase(argv[1])) return 2; a.SetSelectedOutputStringOn(true);
 try { int rc = a.RunString("SOLUTION 1\nSELECTED_OUTPUT\n -reset false\nUSER_PUNCH\n -headings a b\n 10 a$ = MID$(\"abc\", 10)\n 20 PUNCH \"[\" + a$ + \"]\", MID$(\"abcdef\", 2, 3)\nEND\n");
   std::cout << "RunString returned " << rc << "; row: " << a.GetSelectedOutputStringLine(1) << "\n"; return rc; }
 catch (const std::exception& e) { std::cout << "exception escaped RunString: " << e.what() << "\n"; return 1; } }
