#include "IPhreeqc.hpp"
#include <iostream>
int main(int argc, char **argv) {
  IPhreeqc a; if (a.LoadDatabase("/repo/database/phreeqc.dat")) return 2;
  a.SetOutputStringOn(true);
  std::string x = argc > 1 ? argv[1] : "1e300";
  std::string prog = "SOLUTION 1\nUSER_PRINT\n 10 PRINT " + x + "\nEND\n";
  int rc = a.RunString(prog.c_str());
  std::cout << "RunString returned " << rc << "\n";
  return rc;
}
