// C17: GET$ copies the stored string with strcpy into a fixed 256-byte buffer: a string of 256 or more characters stored with PUT$
// overflows the heap buffer (AddressSanitizer: heap-buffer-overflow in strcpy).  Reference BASIC: b$ equals a$ (length 300).
#include "IPhreeqc.hpp"
#include <iostream>
int main(int argc, char **argv) {
  IPhreeqc a; if (a.LoadDatabase(argv[1])) return 2;
  a.SetSelectedOutputStringOn(true);
  int n = argc > 2 ? atoi(argv[2]) : 300;
  std::string prog = "SOLUTION 1\nSELECTED_OUTPUT\n -reset false\nUSER_PUNCH\n -headings len\n"
     " 10 a$ = PAD(\"x\", " + std::to_string(n) + ")\n 20 PUT$(a$, 1)\n 30 b$ = GET$(1)\n 40 PUNCH LEN(b$)\nEND\n";
  int rc = a.RunString(prog.c_str());
  std::cout << "RunString returned " << rc << "; row: " << a.GetSelectedOutputStringLine(1) << "\n";
  return rc;
}
