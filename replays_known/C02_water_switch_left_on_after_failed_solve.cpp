// candidate defect: model() leaves mass_water_switch == TRUE when it returns ERROR while delay_mass_water is on;
// the retry of set_and_run_wrapper (and every later solve of the instance) then saves TRUE and never solves the water-mass equation.
#include <cstdio>
#include <cstdlib>
#include <string>
#include <sstream>
#include "IPhreeqc.hpp"
static std::string input(int itmax, bool delay)
{
	std::ostringstream o;
	o << "KNOBS\n -iterations " << itmax << "\n -delay_mass_water " << (delay ? "true" : "false") << "\n";
	o << "SOLUTION 1\n pH 7\n Na 100\n Cl 100\n water 1\nEND\n";
	o << "USE solution 1\nREACTION 1\n H2O 1\n 20 moles\n";
	o << "EQUILIBRIUM_PHASES 1\n Halite 0 10\n Gypsum 0 1\n Calcite 0 1\n CO2(g) -1.5 10\n";
	o << "SELECTED_OUTPUT\n -reset false\n -water true\n -totals Na Ca\nUSER_PUNCH\n -headings O_sys H_sys iter\n 10 PUNCH SYS(\"O\"), SYS(\"H\"), STEP_NO\nEND\n";
	return o.str();
}
int main(int argc, char **argv)
{
	int lo = argc > 1 ? atoi(argv[1]) : 2, hi = argc > 2 ? atoi(argv[2]) : 40;
	for (int itmax = lo; itmax <= hi; itmax++)
	{
		double w[2] = {0, 0}, osys[2] = {0, 0};
		int err[2];
		std::string warn;
		for (int d = 0; d < 2; d++)
		{
			IPhreeqc p;
			p.LoadDatabase("/repo/database/phreeqc.dat");
			p.SetOutputStringOn(false);
			err[d] = p.RunString(input(itmax, d == 1).c_str());
			if (err[d] == 0 && p.GetSelectedOutputRowCount() >= 2)
			{
				VAR v; VarInit(&v);
				int last = p.GetSelectedOutputRowCount() - 1;
				p.GetSelectedOutputValue(last, 0, &v); w[d] = v.dVal;
				for (int c = 0; c < p.GetSelectedOutputColumnCount(); c++)
				{
					VAR h; VarInit(&h); p.GetSelectedOutputValue(0, c, &h);
					if (h.type == TT_STRING && std::string(h.sVal) == "O_sys") { p.GetSelectedOutputValue(last, c, &v); osys[d] = v.dVal; }
					VarClear(&h);
				}
			}
			if (d == 1) warn = p.GetWarningString();
		}
		bool retried = warn.find("Trying") != std::string::npos;
		printf("itmax=%d  err=%d/%d  water(no delay)=%.6f water(delay)=%.6f  O_sys %.6f / %.6f  retried=%d %s\n", itmax, err[0], err[1], w[0], w[1], osys[0], osys[1], (int)retried,
			(err[0] == 0 && err[1] == 0 && (w[0] - w[1] > 1e-4 || w[1] - w[0] > 1e-4)) ? "<== DIFFERENT" : "");
	}
	return 0;
}
