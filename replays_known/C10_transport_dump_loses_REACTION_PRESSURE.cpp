// demo: the TRANSPORT dump file (dump_cpp -> cxxStorageBin::dump_raw) omits REACTION_PRESSURE entities, DUMP -all keeps them
#include <cstdio>
#include <fstream>
#include <sstream>
#include <string>
#include "IPhreeqc.hpp"
int main()
{
	IPhreeqc ip;
	if (ip.LoadDatabase("/repo/database/phreeqc.dat") != 0) { std::puts(ip.GetErrorString()); return 2; }
	ip.SetDumpStringOn(true);
	const char *in =
		"SOLUTION 0-2\n"
		"REACTION_PRESSURE 1\n 10 20\n"
		"REACTION_TEMPERATURE 1\n 30 40\n"
		"TRANSPORT\n -cells 2\n -shifts 1\n -dump /var/tmp/agent_4_out/demo/tr.dmp\n -dump_frequency 1\n"
		"DUMP\n -all\n"
		"END\n";
	int rc = ip.RunString(in);
	if (rc) { std::puts(ip.GetErrorString()); }
	std::string d = ip.GetDumpString();
	std::ifstream f("/var/tmp/agent_4_out/demo/tr.dmp");
	std::stringstream ss; ss << f.rdbuf();
	std::string t = ss.str();
	std::printf("DUMP -all        : REACTION_PRESSURE_RAW %s, REACTION_TEMPERATURE_RAW %s\n", d.find("REACTION_PRESSURE_RAW") != std::string::npos ? "present" : "MISSING", d.find("REACTION_TEMPERATURE_RAW") != std::string::npos ? "present" : "MISSING");
	std::printf("TRANSPORT -dump  : REACTION_PRESSURE_RAW %s, REACTION_TEMPERATURE_RAW %s (file %zu bytes)\n", t.find("REACTION_PRESSURE_RAW") != std::string::npos ? "present" : "MISSING", t.find("REACTION_TEMPERATURE_RAW") != std::string::npos ? "present" : "MISSING", t.size());
	return (t.size() > 0 && t.find("REACTION_PRESSURE_RAW") == std::string::npos && t.find("REACTION_TEMPERATURE_RAW") != std::string::npos) ? 1 : 0;
}
