// Demo: scratch solutions -2-k left by an explicit stagnant TRANSPORT run are copied over the immobile cells by a later
// implicit TRANSPORT run of the same session (mix_stag: Rxn_copy(Rxn_solution_map, -2 - k, k) is unconditional).
#include <cstdio>
#include <string>
#include <cmath>
#include "IPhreeqc.hpp"

static const char *SETUP =
"SOLUTION 0-3\n  Na 1\n  Cl 1\n"
"SOLUTION 4-5\n  Na 1\n  Cl 1\n"
"END\n";
static const char *RUN1 =
"TRANSPORT\n  -cells 2\n  -shifts 2\n  -time_step 1000\n  -flow_direction diffusion_only\n  -boundary_conditions closed closed\n"
"  -lengths 0.1\n  -diffusion_coefficient 1e-9\n  -stagnant 1 6.8e-6 0.3 0.1\n  -multi_d false\n  -implicit false\n"
"END\n";
// the immobile cells get a new content (potassium bromide) between the two runs
static const char *REDEFINE =
"SOLUTION 4-5\n  K 5\n  Br 5\n"
"END\n";
static const char *RUN2 =
"SELECTED_OUTPUT 1\n  -reset false\n  -solution true\nUSER_PUNCH 1\n  -headings cell K_mol Br_mol Cl_mol\n  10 PUNCH CELL_NO, TOT(\"K\")*TOT(\"water\"), TOT(\"Br\")*TOT(\"water\"), TOT(\"Cl\")*TOT(\"water\")\n"
"TRANSPORT\n  -cells 2\n  -shifts 3\n  -time_step 1000\n  -flow_direction diffusion_only\n  -boundary_conditions closed closed\n"
"  -lengths 0.1\n  -stagnant 1 6.8e-6 0.3 0.1\n  -multi_d true 1e-9 0.3 0.05 1.0\n  -implicit true 1\n  -punch_cells 1-5\n  -punch_frequency 3\n"
"END\n";

static double inventory(IPhreeqc &p, const char *head, bool first = false)
{
	int col = -1;
	VAR v; VarInit(&v);
	for (int j = 0; j < p.GetSelectedOutputColumnCount(); j++) { p.GetSelectedOutputValue(0, j, &v); if (v.type == TT_STRING && std::string(v.sVal) == head) col = j; VarClear(&v); }
	int ccol = -1;
	for (int j = 0; j < p.GetSelectedOutputColumnCount(); j++) { p.GetSelectedOutputValue(0, j, &v); if (v.type == TT_STRING && std::string(v.sVal) == "cell") ccol = j; VarClear(&v); }
	double sum = 0; 
	// last block of rows = last shift: take the last row seen for every cell 1,2,4,5
	double last[8] = {0,0,0,0,0,0,0,0}; bool seen[8] = {false,false,false,false,false,false,false,false};
	for (int i = 1; i < p.GetSelectedOutputRowCount(); i++)
	{
		p.GetSelectedOutputValue(i, ccol, &v); int c = (int)(v.type == TT_DOUBLE ? v.dVal : v.lVal); VarClear(&v);
		p.GetSelectedOutputValue(i, col, &v); double x = (v.type == TT_DOUBLE ? v.dVal : 0); VarClear(&v);
		if (c >= 0 && c < 8 && !(first && seen[c])) { last[c] = x; seen[c] = true; }
	}
	return last[1] + last[2] + last[4] + last[5];
}

static const char *SETUP2 =
"SOLUTION 0-3\n  Na 1\n  Cl 1\n"
"SOLUTION 4-5\n  Na 0.1\n  Cl 0.1\n"
"END\n";
static int run2(bool with_first_run, double *Cl, double *Cl_start)
{
	IPhreeqc p;
	if (p.LoadDatabase("/repo/database/phreeqc.dat")) { printf("%s\n", p.GetErrorString()); return 1; }
	std::string in = SETUP2;
	if (with_first_run) in += RUN1;
	in += RUN2;
	if (p.RunString(in.c_str())) { printf("%s\n", p.GetErrorString()); return 1; }
	p.SetCurrentSelectedOutputUserNumber(1);
	*Cl = inventory(p, "Cl_mol");
	*Cl_start = inventory(p, "Cl_mol", true);       // rows of transport step 0 of the implicit run
	return 0;
}

static int run(bool with_first_run, double *K, double *Br)
{
	IPhreeqc p;
	if (p.LoadDatabase("/repo/database/phreeqc.dat")) { printf("%s\n", p.GetErrorString()); return 1; }
	p.SetSelectedOutputStringOn(false);
	std::string in = SETUP;
	if (with_first_run) in += RUN1;
	in += REDEFINE; in += RUN2;
	if (p.RunString(in.c_str())) { printf("%s\n", p.GetErrorString()); return 1; }
	p.SetCurrentSelectedOutputUserNumber(1);
	*K = inventory(p, "K_mol"); *Br = inventory(p, "Br_mol");
	return 0;
}

int main()
{
	double K0, B0, K1, B1;
	if (run(false, &K0, &B0) || run(true, &K1, &B1)) return 2;
	printf("expected inventory (2 immobile cells x 5 mmol x 1 kgw): K = Br = 1.0e-2 mol\n");
	printf("implicit run alone                      : K = %.6e  Br = %.6e\n", K0, B0);
	printf("same run after an explicit stagnant run  : K = %.6e  Br = %.6e\n", K1, B1);
	bool bad = std::fabs(K1 - 1e-2) > 1e-9 * 1e-2 * 1e3 || std::fabs(K1 - K0) > 1e-8;
	printf(bad ? "FAIL: potassium/bromide defined for the immobile cells before the second run is lost (stale scratch solutions -2-k copied over cells k)\n" : "ok\n");
	double C0, C1, S0, S1;
	if (run2(false, &C0, &S0) || run2(true, &C1, &S1)) return 2;
	printf("\nno redefinition in between; closed column: the chloride inventory of cells 1,2,4,5 must not change DURING the implicit run\n");
	printf("(the explicit first-order exchange conserves the porosity-weighted inventory, so the start value after it is not 2.2e-3)\n");
	printf("implicit run alone                 : start %.6e  end %.6e\n", S0, C0);
	printf("implicit run after an explicit run  : start %.6e  end %.6e\n", S1, C1);
	bool bad2 = std::fabs(C1 - S1) > 1e-6 * S1 || std::fabs(C0 - S0) > 1e-6 * S0;
	printf(bad2 ? "FAIL: chloride inventory changes during the second (implicit) run\n" : "ok\n");
	return (bad || bad2) ? 1 : 0;
}
