// Observation while writing the C16.gammas_sit contract: gammas_sit() has no CD-MUSIC case for surface species
// (gammas() and gammas_pz() use equiv = 1 for CD_MUSIC surfaces, gammas_sit() uses the species' site coefficient).
// This program prints LG of a bidentate CD-MUSIC surface species plus log10(sites) with three databases.
#include "IPhreeqc.hpp"
#include <iostream>
#include <string>
static const char* INPUT =
"SURFACE_MASTER_SPECIES\n Goe_uni Goe_uniOH-0.5\n"
"SURFACE_SPECIES\n Goe_uniOH-0.5 = Goe_uniOH-0.5\n log_k 0\n -cd_music 0 0 0 0 0\n"
" 2Goe_uniOH-0.5 + Ca+2 = (Goe_uniOH)2Ca+\n log_k 3.0\n -cd_music 0 2 0 0 0\n"
"SOLUTION 1\n pH 7\n Na 100\n Cl 100 charge\n Ca 1\n"
"SURFACE 1\n -equil 1\n Goe_uniOH-0.5 1e-3 100 1\n -cd_music\n -capacitance 1 5\n"
"SELECTED_OUTPUT 1\n -reset false\n"
"USER_PUNCH 1\n -headings lg_bidentate log10_sites lg_plus_log_sites\n"
" 10 s = SURF(\"Goe_uni\", \"Goe\")\n 20 PUNCH LG(\"(Goe_uniOH)2Ca+\"), LOG10(s), LG(\"(Goe_uniOH)2Ca+\") + LOG10(s)\nEND\n";
int main() {
  const char* dbs[] = {"/repo/database/phreeqc.dat", "/repo/database/pitzer.dat", "/repo/database/sit.dat"};
  for (int k = 0; k < 3; k++) {
    IPhreeqc p;
    if (p.LoadDatabase(dbs[k]) != 0) { std::cout << dbs[k] << ": load failed\n" << p.GetErrorString(); continue; }
    p.SetSelectedOutputStringOn(true);
    int e = p.RunString(INPUT);
    std::cout << dbs[k] << " errors=" << e << "\n";
    if (e) std::cout << p.GetErrorString();
    std::cout << p.GetSelectedOutputString() << "\n";
  }
  return 0;
}
