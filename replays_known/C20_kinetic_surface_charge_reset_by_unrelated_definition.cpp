// consequence of the update_kin_surface defect for results: the same reaction step gives a different pH when an UNRELATED surface was defined in between
#include <iostream>
#include <string>
#include <cmath>
#include "IPhreeqc.hpp"
static const char *SIM1 =
    "RATES\n Ferri\n -start\n 10 SAVE 0\n -end\n"
    "SOLUTION 1\n pH 5\n Na 10\n Cl 10 charge\n"
    "KINETICS 1\n Ferri\n -formula FeOOH 1\n -m 0.01\n"
    "SURFACE 1\n -equilibrate 1\n Hfo_wOH Ferri kinetic 0.2 5.34e4\n"
    "END\n";
static const char *SIM2 = "SURFACE 7\n Hfo_wOH 1e-4 600 1\nEND\n";
static const char *SIM3 =
    "SELECTED_OUTPUT 1\n -reset false\n -ph true\n -charge_balance true\n"
    "USE solution 1\nUSE surface 1\nUSE kinetics 1\nREACTION 1\n NaOH 1\n 1e-4\nEND\n";
static bool run(bool with_unrelated, double &ph, double &cb)
{
    IPhreeqc p;
    if (p.LoadDatabase("/repo/database/phreeqc.dat") != 0) return false;
    if (p.RunString(SIM1) != 0) { std::cerr << p.GetErrorString(); return false; }
    if (with_unrelated && p.RunString(SIM2) != 0) { std::cerr << p.GetErrorString(); return false; }
    if (p.RunString(SIM3) != 0) { std::cerr << p.GetErrorString(); return false; }
    VAR v; VarInit(&v);
    int rows = p.GetSelectedOutputRowCount();
    p.GetSelectedOutputValue(rows - 1, 0, &v); ph = v.dVal;
    p.GetSelectedOutputValue(rows - 1, 1, &v); cb = v.dVal;
    return true;
}
int main()
{
    double ph0, cb0, ph1, cb1;
    if (!run(false, ph0, cb0) || !run(true, ph1, cb1)) return 2;
    std::cout.precision(10);
    std::cout << "reaction step on solution 1 + surface 1 + kinetics 1:            pH = " << ph0 << "  solution charge balance = " << cb0 << " eq\n";
    std::cout << "same, after an unrelated `SURFACE 7` definition in between:     pH = " << ph1 << "  solution charge balance = " << cb1 << " eq\n";
    bool bad = std::fabs(ph0 - ph1) > 1e-6;
    std::cout << (bad ? "DEFECT: an unrelated definition changed the result of the step\n" : "ok: same result\n");
    return bad ? 1 : 0;
}
