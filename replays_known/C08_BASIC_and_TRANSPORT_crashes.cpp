// C08 demo (helper session w3-B): inputs that make RunString crash / touch invalid memory on the UNCHANGED tree.
// Each case runs in a forked child: expected (property C08) = RunString returns (0 or an error count); observed = killed by a signal.
// build: g++ -std=c++11 -g -I/repo/src -I/repo/src/phreeqcpp -I/repo/src/phreeqcpp/common -I/repo/src/phreeqcpp/PhreeqcKeywords \
//        c08_defects_demo.cpp /var/tmp/ipqfix/b/libIPhreeqcrwd.a -lpthread -o c08_defects_demo
// usage: c08_defects_demo [case-number]       (no argument: all cases; under valgrind run one case to see the invalid accesses)
#include <cstdio>
#include <cstring>
#include <cstdlib>
#include <string>
#include <vector>
#include <unistd.h>
#include <sys/wait.h>
#include "IPhreeqc.hpp"

struct Case { const char *what; std::string input; };

static std::string user_print(const std::string &prog)
{
	return "SOLUTION 1\nUSER_PRINT\n-start\n" + prog + "\n-end\nEND\n";
}

int main(int argc, char **argv)
{
	std::vector<Case> cases;
	Case c;
	c.what = "1 cmdread: READ with no stored (numbered) line: dataline = linebase = NULL is dereferenced";
	c.input = user_print("READ x"); cases.push_back(c);
	c.what = "2 loop record outlives the tokens of an un-numbered line: FOR .. : stmt  /  NEXT on the next un-numbered line (use after free; see valgrind)";
	c.input = user_print("FOR i = 1 TO 3 : x = x + 1\nNEXT i"); cases.push_back(c);
	c.what = "3 read_line_LDBLEs: negative repeat count in TRANSPORT -lengths moves the fill count below 0: stores in front of the array";
	c.input = "SOLUTION 1\nTRANSPORT\n-cells 2\n-lengths -5*1 3*2\nEND\n"; cases.push_back(c);
	c.what = "4a cmdpoke: POKE writes to an address given by the program";
	c.input = user_print("10 POKE 0, 1"); cases.push_back(c);
	c.what = "4b factor: PEEK reads from an address given by the program";
	c.input = user_print("10 x = PEEK(0)"); cases.push_back(c);
	c.what = "5a cmddim: the product of the extents wraps around (2^16)^4 = 2^64 -> 0 elements allocated, subscripts accepted";
	c.input = user_print("10 DIM a(65535,65535,65535,65535)\n20 a(1,1,1,1) = 1"); cases.push_back(c);
	c.what = "5b cmddim: element count * 8 wraps around (2^61 elements)";
	c.input = user_print("10 DIM a(2305843009213693951)"); cases.push_back(c);
	c.what = "6a stringexpr: LOAD \"<400 characters>\" is strcpy'd into exec()'s char STR1[256]";
	c.input = user_print("10 LOAD \"" + std::string(400, 'a') + "\""); cases.push_back(c);
	c.what = "6b stringexpr: RUN \"<5000 characters>\" is strcpy'd into cmdrun's buffer of max_line bytes";
	c.input = user_print("10 RUN \"" + std::string(5000, 'b') + "\""); cases.push_back(c);

	int only = (argc > 1) ? atoi(argv[1]) : 0;
	int bad = 0;
	for (size_t k = 0; k < cases.size(); k++)
	{
		if (only && atoi(cases[k].what) != only) continue;
		printf("case %s\n", cases[k].what); fflush(stdout);
		pid_t pid = fork();
		if (pid == 0)
		{
			IPhreeqc *p = new IPhreeqc;
			if (p->LoadDatabase("/repo/database/phreeqc.dat") != 0) _exit(99);
			p->SetOutputStringOn(true);          // USER_PRINT is compiled when output is produced
			int rc = p->RunString(cases[k].input.c_str());
			std::string err = p->GetErrorString();
			for (size_t i = 0; i < err.size(); i++) if (err[i] == '\n') err[i] = '|';
			printf("   RunString returned %d, errors [%s]\n", rc, err.substr(0, 160).c_str());
			// the instance must be usable after a reload (C08)
			int r2 = p->LoadDatabase("/repo/database/phreeqc.dat");
			int r3 = p->RunString("SOLUTION 1\n Ca 1\n Cl 2\nEND\n");
			printf("   reload %d, probe run %d\n", r2, r3);
			delete p; fflush(stdout); _exit(0);
		}
		int st = 0; waitpid(pid, &st, 0);
		if (WIFSIGNALED(st)) { printf("   FAIL: process killed by signal %d (%s)\n", WTERMSIG(st), strsignal(WTERMSIG(st))); bad++; }
		else if (WEXITSTATUS(st)) { printf("   setup problem, exit %d\n", WEXITSTATUS(st)); }
		else printf("   returned normally (memory errors, if any, are visible under valgrind only)\n");
	}
	printf("%d case(s) crashed\n", bad);
	return bad ? 1 : 0;
}
