// SOLUTION_SPREAD: the 'number' column is beyond the end of a short data row. spread_row_to_solution read data->type_vector[i]
// BEFORE testing data->count <= i  ->  out-of-bounds read of the row's vector (valgrind: Invalid read of size 4).
#include <cstdio>
#include <string>
#include "IPhreeqc.hpp"
int main() {
    IPhreeqc ip;
    if (ip.LoadDatabase("/repo/database/phreeqc.dat") != 0) { printf("load failed\n"); return 2; }
    std::string in =
        "SOLUTION_SPREAD\n"
        " Na\tCl\tK\tCa\tMg\tS(6)\tAlkalinity\tnumber\n"
        " 1.0\n"
        "END\n";
    int n = ip.RunString(in.c_str());
    printf("RunString errors = %d\n", n);
    return 0;
}
