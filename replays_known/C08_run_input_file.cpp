#include "IPhreeqc.hpp"
#include <iostream>
#include <fstream>
#include <sstream>
int main(int argc,char**argv){ IPhreeqc a; if (a.LoadDatabase(argv[1])) {std::cout<<"db load failed\n"; return 2;}
 std::ifstream f(argv[2]); std::stringstream ss; ss << f.rdbuf();
 a.SetOutputStringOn(argc>3); a.SetDumpStringOn(true);
 int rc = a.RunString(ss.str().c_str());
 std::cout << "RunString returned " << rc << "\n";
 if (rc) std::cout << a.GetErrorString();
 if (argc>3) std::cout << a.GetOutputString() << a.GetDumpString();
 // probe: instance still usable
 int rc2 = a.RunString("SOLUTION 1\nEND\n"); std::cout << "probe returned " << rc2 << "\n";
 return 0; }
