// C17: ON e GOSUB n1,n2 with e out of range (no jump) leaves a stale return record on the loop stack:
// a later RETURN of the enclosing subroutine "returns" to the ON statement first, so the statements behind it run twice.
// Reference BASIC: an out-of-range selector falls through to the next statement and calls nothing, so x = 1 and y = 1.
#include "IPhreeqc.hpp"
#include <iostream>
#include <cstdlib>
static const char *prog(const char *on_line) {
  static std::string s;
  s = std::string("SOLUTION 1\nSELECTED_OUTPUT\n -reset false\nUSER_PUNCH\n -headings x\n"
      " 10 x = 0\n 20 GOSUB 100\n 30 PUNCH x\n 40 END\n") + on_line +
      " 110 x = x + 1\n 120 RETURN\n 200 x = x + 10\n 210 RETURN\n 300 x = x + 100\n 310 RETURN\nEND\n";
  return s.c_str();
}
static double run(IPhreeqc &a, const char *on_line) {
  int rc = a.RunString(prog(on_line));
  if (rc) { std::cout << "errors: " << a.GetErrorString() << "\n"; return -1; }
  VAR v; VarInit(&v); a.GetSelectedOutputValue(1, 0, &v);
  return v.type == TT_DOUBLE ? v.dVal : (double) v.lVal;
}
int main(int argc, char **argv) {
  IPhreeqc a; if (a.LoadDatabase(argv[1])) return 2;
  a.SetSelectedOutputStringOn(true);
  struct { const char *line; double want; const char *what; } t[] = {
    {" 100 ON 1 GOSUB 200, 300\n", 11, "selector 1 (in range): 200 is called, then x+1"},
    {" 100 ON 2 GOSUB 200, 300\n", 101, "selector 2 (in range)"},
    {" 100 ON 0 GOSUB 200, 300\n", 1, "selector 0 (< 1): nothing called, falls through"},
    {" 100 ON 3 GOSUB 200, 300\n", 1, "selector 3 (> list length): nothing called, falls through"},
    {" 100 ON 0 GOTO 200, 300\n", 1, "ON..GOTO selector 0: falls through"},
  };
  int bad = 0;
  for (auto &c : t) {
    double got = run(a, c.line);
    std::cout << (got == c.want ? "ok   " : "FAIL ") << c.what << ": x = " << got << " (reference " << c.want << ")\n";
    if (got != c.want) bad++;
  }
  return bad ? 1 : 0;
}
