#include "IPhreeqc.hpp"
#include <iostream>
#include <string>
int main(int argc,char**argv){
  IPhreeqc ip; if(ip.LoadDatabase(argv[1])) {std::cout<<ip.GetErrorString();return 2;}
  std::string in;
  if (std::string(argv[2])=="1")
    in = "SOLUTION 1\n Na 1\n Cl 1\nEQUILIBRIUM_PHASES 1\n Calcite 0 1\nEXCHANGE 1\n ZzX Calcite equilibrium_phase 0.1\n -equilibrate 1\nEND\n";
  else
    in = "SOLUTION 1\n Na 1\n Cl 1\nRATES\n Albite\n -start\n 10 SAVE 0\n -end\nKINETICS 1\n Albite\n -m0 1\nEXCHANGE 1\n ZzX Albite kinetic_reactant 0.1\n -equilibrate 1\nEND\n";
  int rc=ip.RunString(in.c_str());
  std::cout<<"rc="<<rc<<"\n"<<ip.GetErrorString();
  return 0;
}
