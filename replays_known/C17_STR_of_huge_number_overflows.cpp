// C17: STR$(x) and PRINT x render an integer-valued x with "%12.0f" (numtostr) and strcpy the text into a 256-byte buffer
// (STR$: PHRQ_calloc(256); PRINT / LIST: char STR1[256]).  For |x| >= 1e244 the text has more than 255 characters:
// heap / stack buffer overflow.  Reference BASIC: LEN(STR$(1e300)) = 301 (or an error) - never memory corruption.
#include "IPhreeqc.hpp"
#include <iostream>
#include <cstdlib>
int main(int argc, char **argv) {
  IPhreeqc a; if (a.LoadDatabase(argc > 1 ? argv[1] : "/repo/database/phreeqc.dat")) return 2;
  a.SetSelectedOutputStringOn(true);
  std::string x = argc > 2 ? argv[2] : "1e300";
  std::string prog = "SOLUTION 1\nSELECTED_OUTPUT\n -reset false\nUSER_PUNCH\n -headings len\n"
     " 10 a$ = STR$(" + x + ")\n 20 PUNCH LEN(a$)\nEND\n";
  int rc = a.RunString(prog.c_str());
  std::cout << "RunString returned " << rc << "; row: " << a.GetSelectedOutputStringLine(1) << "\n";
  return rc;
}
